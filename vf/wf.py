"""Independent well-formedness walker over ModelProto / FunctionProto (DESIGN 2.4).

Returns a list of problem strings (empty = well-formed).  Does not use onnx.checker.
"""
from __future__ import annotations

import onnx

_GRAPH = onnx.AttributeProto.GRAPH
_GRAPHS = onnx.AttributeProto.GRAPHS


def _subgraphs(node):
    for a in node.attribute:
        if a.type == _GRAPH:
            yield a.name, a.g
        elif a.type == _GRAPHS:
            for i, g in enumerate(a.graphs):
                yield f"{a.name}[{i}]", g


def _walk_nodes(nodes, scope_names, all_defined, path, problems, used_domains, strict_ssa):
    """scope_names: set of names visible (outer + this graph so far).  all_defined: names defined anywhere in
    enclosing graphs or this one (for the cross-scope redefinition rule)."""
    for idx, n in enumerate(nodes):
        used_domains.add((n.domain or "", n.op_type))
        for i in n.input:
            if i == "":
                continue
            if i not in scope_names:
                problems.append(f"{path}: node #{idx} {n.op_type} uses undefined/later-defined value '{i}'")
        for name, g in _subgraphs(n):
            _walk_graph(g, scope_names, all_defined, f"{path}/{n.op_type}#{idx}.{name}", problems, used_domains,
                        strict_ssa, is_sub=True)
        for o in n.output:
            if o == "":
                continue
            if o in all_defined:
                problems.append(f"{path}: value '{o}' defined more than once (node #{idx} {n.op_type})")
            all_defined.add(o)
            scope_names.add(o)


def _walk_graph(g, outer_scope, outer_defined, path, problems, used_domains, strict, is_sub=False,
                require_local_outputs=False, forbid_input_as_output=False):
    scope = set(outer_scope)
    defined = outer_defined if strict.get("global_ssa", True) else set(outer_defined)
    local = set()
    in_names = [i.name for i in g.input]
    if len(set(in_names)) != len(in_names):
        problems.append(f"{path}: duplicate graph input names {in_names}")
    for nme in in_names:
        if is_sub and nme in outer_defined:
            problems.append(f"{path}: subgraph input '{nme}' redefines an outer name")
        defined.add(nme)
        scope.add(nme)
        local.add(nme)
    init_names = [i.name for i in g.initializer] + [s.values.name for s in g.sparse_initializer]
    if len(set(init_names)) != len(init_names):
        problems.append(f"{path}: duplicate initializer names")
    for nme in init_names:
        if nme in in_names:
            continue  # overridable initializer
        if nme in defined:
            problems.append(f"{path}: initializer '{nme}' redefines an existing name")
        defined.add(nme)
        scope.add(nme)
        local.add(nme)
    before = set(defined)
    _walk_nodes(g.node, scope, defined, path, problems, used_domains, strict)
    produced_here = (defined - before) | local
    out_names = [o.name for o in g.output]
    if len(set(out_names)) != len(out_names):
        problems.append(f"{path}: duplicate graph output names {out_names}")
    for o in out_names:
        if o not in scope:
            problems.append(f"{path}: graph output '{o}' is not defined")
        elif (is_sub and strict.get("local_sub_outputs")) and o not in (defined - before):
            problems.append(f"{path}: subgraph output '{o}' is not produced by a node of that subgraph")
        if strict.get("no_input_as_output") and o in in_names:
            problems.append(f"{path}: graph input '{o}' returned directly as output")
    node_names = [n.name for n in g.node if n.name]
    if strict.get("unique_node_names") and len(set(node_names)) != len(node_names):
        dup = sorted({x for x in node_names if node_names.count(x) > 1})
        problems.append(f"{path}: duplicate node names {dup[:5]}")


def check_model(m: onnx.ModelProto, local_sub_outputs=False, no_input_as_output=False, unique_node_names=False):
    problems = []
    strict = dict(local_sub_outputs=local_sub_outputs, no_input_as_output=no_input_as_output,
                  unique_node_names=unique_node_names, global_ssa=True)
    doms = [o.domain or "" for o in m.opset_import]
    if len(set(doms)) != len(doms):
        problems.append(f"model: domain imported more than once: {doms}")
    used = set()
    _walk_graph(m.graph, set(), set(), "graph", problems, used, strict)
    fkeys = {}
    for f in m.functions:
        k = (f.domain, f.name, getattr(f, "overload", ""))
        if k in fkeys:
            problems.append(f"model: function {k} defined twice")
        fkeys[k] = f
    fdomains = {f.domain for f in m.functions}
    fnames = {(f.domain, f.name) for f in m.functions}
    for f in m.functions:
        fused = set()
        problems += check_function(f, _used=fused, **{k: v for k, v in strict.items() if k != "global_ssa"})
        fd = {o.domain or "" for o in f.opset_import}
        for (d, op) in fused:
            if d not in fd:
                problems.append(f"function {f.name}: domain '{d}' used by {op} is not imported by the function")
            if d in fdomains and (d, op) not in fnames and d not in ("", "ai.onnx"):
                problems.append(f"function {f.name}: calls {d}::{op} which is not defined in the model")
    for (d, op) in used:
        if d not in doms and not (d == "" and "ai.onnx" in doms):
            problems.append(f"model: domain '{d}' used by {op} has no opset import")
        if d in fdomains and (d, op) not in fnames:
            problems.append(f"model: calls {d}::{op} which is not defined in the model")
    return problems


def check_function(f: onnx.FunctionProto, _used=None, local_sub_outputs=False, no_input_as_output=False,
                   unique_node_names=False):
    problems = []
    strict = dict(local_sub_outputs=local_sub_outputs, no_input_as_output=no_input_as_output,
                  unique_node_names=unique_node_names, global_ssa=True)
    path = f"function {f.domain}::{f.name}"
    doms = [o.domain or "" for o in f.opset_import]
    if len(set(doms)) != len(doms):
        problems.append(f"{path}: domain imported more than once: {doms}")
    ins = list(f.input)
    if len(set(ins)) != len(ins):
        problems.append(f"{path}: duplicate inputs {ins}")
    scope = set(ins)
    defined = set(ins)
    used = _used if _used is not None else set()
    _walk_nodes(f.node, scope, defined, path, problems, used, strict)
    outs = list(f.output)
    if len(set(outs)) != len(outs):
        problems.append(f"{path}: duplicate outputs {outs}")
    for o in outs:
        if o not in scope:
            problems.append(f"{path}: output '{o}' is not defined")
        if no_input_as_output and o in ins:
            problems.append(f"{path}: input '{o}' returned directly")
    if _used is None:
        for (d, op) in used:
            if d not in doms:
                problems.append(f"{path}: domain '{d}' used by {op} is not imported")
    return problems
