"""Explicit-state search on real code where a state is the event history that reaches it (DESIGN 2.2).

Pieces (all deterministic, no randomness):

* ``run_job``      - execute one JSON job in a FRESH interpreter (``python -m <driver module>``) under a given
                     PYTHONHASHSEED; module-level singletons of the code under test therefore start fresh.
* ``histories``    - all event sequences of a given length over an alphabet.
* ``bfs``          - level-synchronous, state-deduplicated BFS; a state is represented by the shortest history
                     that reaches it (lexicographically first among the shortest), ``expand(history)`` rebuilds
                     it in a fresh process and returns the successor of every event.
* ``minimise``     - 1-minimal sub-history that still makes a target diverge (greedy removal).
* ``seed_pool``    - search for a pool of PYTHONHASHSEED values that realises EVERY iteration order of every
                     small subset of a set of names (exhaustive over orders, not a sample of seeds).
"""
from __future__ import annotations

import concurrent.futures as cf
import itertools
import json
import os
import subprocess
import sys

ROOT = os.path.dirname(os.path.dirname(os.path.abspath(__file__)))


class JobError(RuntimeError):
    pass


def jobs_hint(default=None):
    """Number of worker processes the runner was asked for (plan() is not told): --jobs N | VERIF_JOBS."""
    argv = sys.argv
    for i, a in enumerate(argv):
        if a == "--jobs" and i + 1 < len(argv):
            try:
                return max(1, int(argv[i + 1]))
            except ValueError:
                pass
        if a.startswith("--jobs="):
            try:
                return max(1, int(a.split("=", 1)[1]))
            except ValueError:
                pass
    try:
        v = int(os.environ.get("VERIF_JOBS", "0"))
        if v > 0:
            return v
    except ValueError:
        pass
    return default or min(16, os.cpu_count() or 1)


def _env(hashseed):
    env = dict(os.environ)
    env["PYTHONHASHSEED"] = str(hashseed)
    env["PYTHONDONTWRITEBYTECODE"] = "1"
    for k in ("OMP_NUM_THREADS", "OPENBLAS_NUM_THREADS", "MKL_NUM_THREADS"):
        env[k] = "1"
    return env


def run_job(module, job, hashseed=0, timeout=600):
    """Run ``python -m module`` in a fresh interpreter with the job on stdin; return the JSON it prints."""
    p = subprocess.run([sys.executable, "-W", "ignore", "-m", module], input=json.dumps(job), text=True,
                       capture_output=True, cwd=ROOT, env=_env(hashseed), timeout=timeout)
    if p.returncode != 0 or not p.stdout.strip():
        raise JobError(f"driver {module} failed rc={p.returncode} job={json.dumps(job)[:300]}\n"
                       f"stderr tail: {p.stderr[-2000:]}")
    try:
        return json.loads(p.stdout)
    except ValueError as e:
        raise JobError(f"driver {module}: unparsable output {p.stdout[:300]!r}") from e


def pmap(fn, args, par):
    """Ordered parallel map with threads (the work is in subprocesses)."""
    args = list(args)
    if par <= 1 or len(args) <= 1:
        return [fn(a) for a in args]
    with cf.ThreadPoolExecutor(max_workers=par) as ex:
        return list(ex.map(fn, args))


def histories(alphabet, length):
    return [list(h) for h in itertools.product(alphabet, repeat=length)]


# ---------------------------------------------------------------------------------------------------------
# deduplicated BFS
# ---------------------------------------------------------------------------------------------------------

def bfs(expand, events, max_depth, max_states=None, par=1, on_transition=None):
    """expand(history) -> {"root_key": k, "children": {event: {"key": k2, ...}}}.

    Visits every (distinct state, event) pair reachable within ``max_depth`` events; returns a dict with
    states (key -> shortest history), transitions executed, per-level frontier sizes, fixpoint flag, cap
    flag.  ``on_transition(history, event, child_result, root_key)`` is called for every executed transition
    in a deterministic order.
    """
    seen = {}
    frontier = [[]]
    levels = []
    transitions = 0
    expansions = 0
    capped = False
    fixpoint = False
    edges = {}
    depth = 0
    first = True
    while frontier and depth < max_depth:
        results = pmap(expand, frontier, par)
        nxt = []
        for hist, res in zip(frontier, results):
            expansions += 1
            rk = res["root_key"]
            if first:
                seen[rk] = []
                first = False
            for ev in events:
                ch = res["children"][ev]
                transitions += 1
                if on_transition is not None:
                    on_transition(hist, ev, ch, rk)
                k2 = ch.get("key")
                edges.setdefault(rk, {})[ev] = k2
                if k2 is None or k2 in seen:
                    continue
                if max_states is not None and len(seen) >= max_states:
                    capped = True
                    continue
                seen[k2] = hist + [ev]
                nxt.append(hist + [ev])
        levels.append(len(frontier))
        frontier = nxt
        depth += 1
    if not frontier and not capped:
        fixpoint = True   # every reachable canonical state was expanded (a capped search proves nothing of the kind)
    return dict(states=seen, transitions=transitions, expansions=expansions, levels=levels, fixpoint=fixpoint,
                capped=capped, depth_reached=depth, unexpanded=len(frontier), edges=edges)


# ---------------------------------------------------------------------------------------------------------
# history minimisation
# ---------------------------------------------------------------------------------------------------------

def minimise(prefix, still_diverges):
    """Greedy 1-minimal sub-sequence of ``prefix`` for which ``still_diverges(sub_prefix)`` holds."""
    cur = list(prefix)
    changed = True
    while changed and cur:
        changed = False
        for i in range(len(cur)):
            cand = cur[:i] + cur[i + 1:]
            if still_diverges(cand):
                cur = cand
                changed = True
                break
    return cur


# ---------------------------------------------------------------------------------------------------------
# hash-seed pool: exhaustive over iteration ORDERS
# ---------------------------------------------------------------------------------------------------------

_PROBE = r'''
import itertools, json, sys
names = json.loads(sys.argv[1]); sizes = json.loads(sys.argv[2])
out = {}
allnames = set(names)
for k in sizes:
    for sub in itertools.combinations(names, k):
        orders = set()
        for perm in itertools.permutations(sub):
            s = set()
            for n in perm:
                s.add(n)
            orders.add(tuple(s))
            orders.add(tuple(set(perm)))
            orders.add(tuple(set(perm) | set()))
        orders.add(tuple(allnames & set(sub)))
        orders.add(tuple(set(sub).intersection(allnames)))
        orders.add(tuple({n for n in names if n in sub}))
        out[",".join(sub)] = list(orders.pop()) if len(orders) == 1 else None
print(json.dumps(out))
'''


def probe_orders(names, sizes, seed):
    """``list(set(subset))`` for every subset of the given sizes, in a bare interpreter under ``seed``.
    None when the order depends on how the set was built (hash collision in the table): such a seed does
    not count as realising any order of that subset."""
    p = subprocess.run([sys.executable, "-S", "-c", _PROBE, json.dumps(list(names)), json.dumps(list(sizes))],
                       capture_output=True, text=True, env=_env(seed), timeout=120)
    if p.returncode != 0:
        raise JobError(f"order probe failed under seed {seed}: {p.stderr[-500:]}")
    return json.loads(p.stdout)


def seed_pool(names, sizes, par=8, first=(0,), limit=8192):
    """Greedy cover: smallest-index seeds such that for every subset (of the given sizes) of ``names`` and every
    permutation of it some seed of the pool realises that order robustly.  Candidates are 0,1,2,... (doubling
    window) - a search, not a sample: the result is accepted only when the cover is complete."""
    names = list(names)
    targets = set()
    for k in sizes:
        for sub in itertools.combinations(names, k):
            for perm in itertools.permutations(sub):
                targets.add((",".join(sub), perm))
    table = {}
    hi = 0
    window = 64
    while True:
        new = list(range(hi, window))
        for s, o in zip(new, pmap(lambda s: probe_orders(names, sizes, s), new, par)):
            table[s] = {k: (tuple(v) if v is not None else None) for k, v in o.items()}
        hi = window
        covers = {s: {(k, v) for k, v in t.items() if v is not None} for s, t in table.items()}
        union = set().union(*covers.values())
        if targets <= union:
            break
        if window >= limit:
            raise JobError(f"no seed pool within {limit} seeds: {len(targets - union)} orders unrealised")
        window *= 2
    pool = []
    left = set(targets)
    for s in first:
        pool.append(s)
        left -= covers[s]
    while left:
        best = max(sorted(covers), key=lambda s: (len(covers[s] & left), -s))
        pool.append(best)
        left -= covers[best]
    realised = {}
    for s in pool:
        for (k, v) in covers[s]:
            realised.setdefault(k, set()).add(v)
    return dict(pool=pool, targets=len(targets), candidates_probed=hi,
                subsets=len({k for k, _ in targets}),
                orders_realised=sum(len(v) for v in realised.values()),
                table={s: table[s] for s in pool})
