"""./check <id> [--tier quick|thorough] [--replay path] [--jobs n]"""
from __future__ import annotations

import argparse
import collections
import hashlib
import importlib
import json
import os
import sys
import time

from . import evidence, explore, findings


def _load(prop):
    return importlib.import_module(f"vf.props.{prop.lower()}")


def do_replay(mod, path):
    with open(path) as f:
        payload = json.load(f)
    item = payload["item"]
    init = getattr(mod, "worker_init", None)
    if init is not None:
        init(None)
    res = mod.execute(item)
    print(json.dumps(res, indent=1, default=repr)[:6000])
    viols = res.get("viols") or []
    want = payload.get("key")
    hit = [v for v in viols if want is None or v["key"] == want] or viols
    if res.get("status") in ("viol", "crash") or hit:
        print(f"VIOLATION property={mod.ID} replay={path}")
        return 1
    print("replay: property held on this case")
    return 0


def main(argv=None):
    ap = argparse.ArgumentParser()
    ap.add_argument("prop")
    ap.add_argument("--tier", default=os.environ.get("VERIF_TIER", "quick"), choices=["quick", "thorough"])
    ap.add_argument("--replay")
    ap.add_argument("--jobs", type=int, default=int(os.environ.get("VERIF_JOBS", "0")) or None)
    ap.add_argument("--limit", type=int, default=None, help="debug: cap number of items")
    args = ap.parse_args(argv)
    try:
        seed = int(os.environ.get("VERIF_SEED", "0"))
    except ValueError:
        seed = 0
    mod = _load(args.prop)
    if args.replay:
        return do_replay(mod, args.replay)

    t0 = time.time()
    items, st = mod.plan(args.tier, seed)
    if args.limit:
        items = items[: args.limit]
    t_plan = time.time() - t0
    jobs = args.jobs or min(16, os.cpu_count() or 1)
    if getattr(mod, "SERIAL", False):
        jobs = 1
    results = explore.run_pool(mod.__name__, "execute", items, jobs=jobs, init_arg={"tier": args.tier, "seed": seed},
                               seed=seed)
    known, fixed = findings.load_known()
    status_hist = collections.Counter()
    outcome_hist = collections.Counter()
    counts = collections.Counter()
    skip_hist = collections.Counter()
    nkeys = set()
    viol_by_key = {}
    harness_errors = []
    for item, res in zip(items, results):
        s = res.get("status", "harness_error")
        status_hist[s] += 1
        if s == "harness_error":
            harness_errors.append((item, res))
            continue
        if s == "crash":
            on_crash = getattr(mod, "on_crash", None)
            verdict = on_crash(item, res) if on_crash else None
            if verdict is None:
                k = f"{mod.ID}|crash|{getattr(mod, 'item_key', lambda it: hashlib.sha1(json.dumps(it, sort_keys=True).encode()).hexdigest()[:10])(item)}"
                viol_by_key.setdefault(k, []).append((item, {"key": k, "detail": res}))
            else:
                skip_hist["crash:" + verdict] += 1
            continue
        if "outcome" in res:
            outcome_hist[str(res["outcome"])] += 1
        for k, v in (res.get("counts") or {}).items():
            counts[k] += v
        if s == "skip":
            skip_hist[str(res.get("skip", "?"))] += 1
        if res.get("nontrivial", s in ("ok", "viol")):
            nk = res.get("nkey")
            if nk is None:
                nk = hashlib.sha1(json.dumps(item, sort_keys=True, default=repr).encode()).hexdigest()
            if isinstance(nk, list):
                nkeys.update(nk)
            else:
                nkeys.add(nk)
        for v in res.get("viols") or []:
            viol_by_key.setdefault(v["key"], []).append((item, v))
    exit_code = 0
    lines = []
    n_known = 0
    n_new = 0
    known_seen = []
    for key in sorted(viol_by_key):
        lst = viol_by_key[key]
        if (mod.ID, key) in known:
            n_known += 1
            known_seen.append(key)
            lines.append(f"KNOWN-FINDING: property={mod.ID} {key} ({known[(mod.ID, key)].get('what', '')}; {len(lst)} case(s))")
            continue
        n_new += 1
        item, v = lst[0]
        path = findings.write_replay(mod.ID, key, {"item": item, "violation": v, "n_cases": len(lst)})
        lines.append(f"VIOLATION property={mod.ID} replay={path} key={key} cases={len(lst)}")
        exit_code = 1
    if harness_errors:
        item, res = harness_errors[0]
        print(f"HARNESS-ERROR property={mod.ID} n={len(harness_errors)} first={json.dumps(item, default=repr)[:400]}\n{res.get('error')}\n{res.get('tb', '')}",
              file=sys.stderr)
        exit_code = exit_code or 2

    # samples: spread over the item list, with their result summary
    samples = []
    if items:
        idxs = sorted({0, len(items) // 3, (2 * len(items)) // 3, len(items) - 1})
        for i in idxs:
            r = results[i]
            samples.append({"item": items[i], "status": r.get("status"), "outcome": r.get("outcome"),
                            "show": r.get("show")})
    cov = dict(st)
    evaluations = len(items)
    cov.update(dict(
        evaluations=evaluations + int(counts.get("extra_evaluations", 0)),
        distinct_nontrivial=len(nkeys),
        rule=getattr(mod, "RULE", ""),
        samples=samples,
        traces_validated_against_impl=sum(1 for r in results if r.get("status") in ("ok", "viol", "skip")),
        status_histogram=dict(status_hist),
        distinct_outcomes=len(outcome_hist),
        outcome_histogram=dict(outcome_hist.most_common(40)),
        skip_histogram=dict(skip_hist.most_common(40)),
        counts=dict(counts),
        known_findings_seen=known_seen,
        new_violation_keys=[k for k in sorted(viol_by_key) if (mod.ID, k) not in known][:50],
        plan_s=round(t_plan, 2),
        jobs=jobs,
    ))
    cov["exhaustive"] = bool(cov.get("exhaustive", not cov.get("capped", False)))
    summ = getattr(mod, "summarize", None)
    if summ is not None:
        cov.update(summ(items, results, args.tier) or {})
    evidence.write(mod.ID, args.tier, seed, getattr(mod, "LEVEL", "model_checking"), cov, time.time() - t0,
                   n_new, getattr(mod, "ASSUMPTIONS", []))
    for l in lines:
        print(l)
    print(f"{mod.ID} tier={args.tier} items={len(items)} states={cov.get('states')} distinct={len(nkeys)} "
          f"status={dict(status_hist)} known={n_known} new={n_new} wall={time.time() - t0:.1f}s")
    return exit_code


if __name__ == "__main__":
    sys.exit(main())
