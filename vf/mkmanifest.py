"""Regenerates /verif/MANIFEST.json from the table below (kept valid at all times)."""
import json, os
ROOT = os.path.dirname(os.path.dirname(os.path.abspath(__file__)))

CHECKS = {
 "C17": dict(
    technique="exhaustive explicit enumeration of the finite registry (opset x method x call shape) through the choice-tree explorer; every leaf executes the real generated method under a recording evaluator",
    text="Every method of every generated opset class is called under a recording evaluator in every call shape (attributes omitted, each attribute set, every subset of optional inputs None, dynamic lookup) and compared with onnx.defs; the converse direction enumerates every visible schema. The space is finite and enumerated completely, so within the trusted base this decides the property for the installed onnx.",
    note="trusts onnx.defs of the installed onnx 1.22 as the schema reference and inspect.signature; behaviour of kernels is not executed here",
    design="3/C17"),
}
NOT_YET = {}

def main():
    props = [json.loads(l)["id"] for l in open(os.path.join(ROOT, "properties.jsonl"))]
    checks = []
    for pid in props:
        if pid not in CHECKS:
            continue
        c = CHECKS[pid]
        level = c.get("level", "model_checking")
        checks.append(dict(
            property_id=pid,
            quick_cmd=f"./check {pid} --tier quick",
            thorough_cmd=f"./check {pid} --tier thorough",
            evidence_file=f"/verif/evidence/{pid}.json",
            replay_cmd_template=f"./check {pid} --replay {{path}}",
            engine="vf",
            level_claimed=dict(category=level, text=c["text"], design_ref=c["design"]),
            level_note=c["note"],
            technique=c["technique"]))
    na = [dict(property_id=p, reason=NOT_YET.get(p, "check not built yet in this round (planned: see DESIGN.md section 3); not claimed until it runs silently on the unchanged tree"))
          for p in props if p not in CHECKS]
    man = dict(
        version=1,
        setup_cmd="/venv/bin/python -m compileall -q /verif/vf && /venv/bin/python -c \"import onnxscript, onnx, onnxruntime, numpy\"",
        hooks=dict(guard="ONNXSCRIPT_VERIF", enable="no build step: /repo is installed editable in /venv; checks export ONNXSCRIPT_VERIF=1 (no source hooks are present)",
                   baseline_off_cmd="cd /repo && env -u ONNXSCRIPT_VERIF /venv/bin/python -m pytest -ra -q -p no:cacheprovider --timeout=900 --continue-on-collection-errors",
                   source_commits=[], add_only=True),
        engines=[dict(name="vf", path="/verif/vf", serves_properties=[c["property_id"] for c in checks],
                      kind_free_text="hand-written stateless choice-tree explorer (deviation-bounded, exhaustive dimensions), explicit-state history BFS and fault enumerator, all executing the real onnxscript code; 16-process pool with crash attribution")],
        checks=checks,
        notes="All checks: ./check <id> --tier quick|thorough; known genuine defects are listed in /verif/known_findings.jsonl and printed as KNOWN-FINDING lines.",
        not_applicable=na)
    with open(os.path.join(ROOT, "MANIFEST.json"), "w") as f:
        json.dump(man, f, indent=1)
    try:
        import jsonschema
        jsonschema.validate(man, json.load(open("/root/.vp/MANIFEST.schema.json")))
    except FileNotFoundError:
        pass
    print("MANIFEST.json:", len(checks), "checks,", len(na), "not claimed")

if __name__ == "__main__":
    main()
