"""Choice-tree explorer (stateless, deviation-bounded) and a crash-attributing worker pool.

A *driver* is a deterministic function ``driver(ch) -> case`` that calls ``ch.choose(label, menu)``
wherever the property's quantifier ranges over something.  Menu entry 0 is the default answer.
``explore`` enumerates every choice sequence with at most ``bound`` deviations from the default;
``ch.all(label, menu)`` declares a dimension exhaustive (cost 0: every entry is enumerated
regardless of the bound).  Replaying a prefix must reproduce the same menus or the run aborts.
"""
from __future__ import annotations

import json
import multiprocessing as mp
import os
import sys
import time
import traceback


class Prune(Exception):
    """Raised by a driver: this choice sequence does not denote a case (ill-typed, duplicate...)."""


class NondeterministicDriver(RuntimeError):
    pass


class Ch:
    def __init__(self, prefix=(), expect=None):
        self.prefix = list(prefix)
        self.expect = expect  # list of (label, n) that the prefix positions must reproduce
        self.trace = []  # (label, n, pick, cost)

    def choose(self, label, menu, cost=1):
        menu = list(menu)
        if not menu:
            raise Prune()
        i = len(self.trace)
        pick = self.prefix[i] if i < len(self.prefix) else 0
        if self.expect is not None and i < len(self.expect):
            el, en = self.expect[i]
            if el != label or en != len(menu):
                raise NondeterministicDriver(
                    f"replay divergence at choice {i}: expected {el}/{en}, got {label}/{len(menu)}")
        if pick >= len(menu):
            raise NondeterministicDriver(f"choice {i} ({label}): pick {pick} out of range {len(menu)}")
        self.trace.append((label, len(menu), pick, cost))
        return menu[pick]

    def all(self, label, menu):
        return self.choose(label, menu, cost=0)

    def flag(self, label, cost=1):
        return self.choose(label, (False, True), cost=cost)

    def picks(self):
        return [t[2] for t in self.trace]

    def labels(self):
        return [(t[0], t[2]) for t in self.trace if t[2] != 0]


class Stats:
    def __init__(self):
        self.states = 0
        self.transitions = 0
        self.leaves = 0
        self.pruned = 0
        self.capped = False
        self.bound = None
        self.dim_hist = {}

    def as_dict(self):
        return dict(states=self.states, transitions=self.transitions, leaves=self.leaves,
                    pruned=self.pruned, capped=self.capped, bound=self.bound)


def explore(driver, bound, max_leaves=None, stats=None):
    """Yield (picks, case) for every choice sequence within the deviation bound.

    Depth-first; the root is the all-default sequence.  states = distinct choice-tree nodes
    visited (each prefix reached), transitions = edges between them.
    """
    st = stats if stats is not None else Stats()
    st.bound = bound
    st.states += 1  # root node
    stack = [([], None)]
    while stack:
        prefix, expect = stack.pop()
        ch = Ch(prefix, expect)
        try:
            case = driver(ch)
            pruned = False
        except Prune:
            case = None
            pruned = True
        tr = ch.trace
        if len(tr) < len(prefix):
            raise NondeterministicDriver(f"prefix {prefix} longer than trace {tr}")
        new_nodes = len(tr) - len(prefix)
        st.states += new_nodes
        st.transitions += new_nodes
        picks = [t[2] for t in tr]
        if pruned:
            st.pruned += 1
        else:
            st.leaves += 1
            for (label, n, pick, cost) in tr:
                h = st.dim_hist.setdefault(label, {})
                h[pick] = h.get(pick, 0) + 1
            yield picks, case
            if max_leaves is not None and st.leaves >= max_leaves:
                st.capped = True
                return
        # children: alter one position at or after len(prefix)
        dev = sum(t[3] for t in tr[:len(prefix)] if t[2] != 0)
        exp = [(t[0], t[1]) for t in tr]
        for i in range(len(prefix), len(tr)):
            label, n, pick, cost = tr[i]
            # positions >= len(prefix) hold the default (0) in this run
            if cost == 0 or dev + cost <= bound:
                for alt in range(n - 1, 0, -1):
                    st.states += 1
                    st.transitions += 1
                    stack.append((picks[:i] + [alt], exp[:i + 1]))
        # (nodes pushed are counted when created; their run adds only the nodes beyond them)


def replay(driver, picks):
    ch = Ch(picks)
    case = driver(ch)
    return case, ch


# ---------------------------------------------------------------------------------------------
# Worker pool with crash attribution.
# ---------------------------------------------------------------------------------------------

def _worker_main(modname, funcname, init_arg, shard_path, out_path, start):
    import importlib
    sys.setrecursionlimit(10000)
    mod = importlib.import_module(modname)
    fn = getattr(mod, funcname)
    init = getattr(mod, "worker_init", None)
    if init is not None:
        init(init_arg)
    with open(shard_path) as f:
        items = [json.loads(l) for l in f]
    with open(out_path, "a") as out:
        for idx in range(start, len(items)):
            out.write(json.dumps({"start": idx}) + "\n")
            out.flush()
            try:
                res = fn(items[idx])
            except BaseException as e:  # harness error: report, never swallow
                res = {"status": "harness_error", "error": repr(e), "tb": traceback.format_exc()[-3000:]}
            out.write(json.dumps({"done": idx, "res": res}, default=repr) + "\n")
            out.flush()


def run_pool(modname, funcname, items, jobs=None, init_arg=None, scratch=None, seed=0, timeout_per_item=600):
    """Execute ``modname.funcname(item)`` for every item over ``jobs`` spawned processes.

    Returns a list of results aligned with ``items``.  A native crash (process death) while executing
    item i yields ``{"status": "crash", "exitcode": ...}`` for i and the shard is resumed after it.
    """
    import tempfile
    jobs = jobs or min(16, os.cpu_count() or 1)
    n = len(items)
    if n == 0:
        return []
    jobs = max(1, min(jobs, n))
    tmp = scratch or tempfile.mkdtemp(prefix="vfpool_")
    own_tmp = scratch is None
    order = list(range(n))
    if seed:
        r = seed % n
        order = order[r:] + order[:r]
    shards = [order[k::jobs] for k in range(jobs)]
    ctx = mp.get_context("spawn")
    procs = {}
    state = {}
    for k, sh in enumerate(shards):
        sp = os.path.join(tmp, f"shard{k}.jsonl")
        op = os.path.join(tmp, f"out{k}.jsonl")
        with open(sp, "w") as f:
            for i in sh:
                f.write(json.dumps(items[i]) + "\n")
        open(op, "w").close()
        state[k] = dict(shard=sh, sp=sp, op=op, start=0, crashes={})
        p = ctx.Process(target=_worker_main, args=(modname, funcname, init_arg, sp, op, 0))
        p.start()
        procs[k] = p
    while procs:
        for k in list(procs):
            p = procs[k]
            p.join(timeout=0.2)
            if p.is_alive():
                continue
            del procs[k]
            s = state[k]
            # read journal
            last_start, done = None, set()
            with open(s["op"]) as f:
                for line in f:
                    try:
                        rec = json.loads(line)
                    except Exception:
                        continue
                    if "start" in rec:
                        last_start = rec["start"]
                    elif "done" in rec:
                        done.add(rec["done"])
            if p.exitcode != 0 and last_start is not None and last_start not in done:
                s["crashes"][last_start] = p.exitcode
                nxt = last_start + 1
                if nxt < len(s["shard"]):
                    q = ctx.Process(target=_worker_main,
                                    args=(modname, funcname, init_arg, s["sp"], s["op"], nxt))
                    q.start()
                    procs[k] = q
            elif p.exitcode != 0:
                # died before starting anything (import failure): harness problem
                raise RuntimeError(f"worker {k} died with exit code {p.exitcode} before any case")
    results = [None] * n
    for k, s in state.items():
        with open(s["op"]) as f:
            for line in f:
                try:
                    rec = json.loads(line)
                except Exception:
                    continue
                if "done" in rec:
                    results[s["shard"][rec["done"]]] = rec["res"]
        for idx, code in s["crashes"].items():
            results[s["shard"][idx]] = {"status": "crash", "exitcode": code}
    if own_tmp:
        import shutil
        shutil.rmtree(tmp, ignore_errors=True)
    for i, r in enumerate(results):
        if r is None:
            results[i] = {"status": "harness_error", "error": "no result recorded"}
    return results
