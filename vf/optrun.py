"""Shared execution for the optimizer checks (C03 semantics, C04 totality/validity/interface, C09 bindings).

``run_case(item)`` builds the model of one item with ``vf.mz``, admits input valuations on the ORIGINAL
(ORT with optimizations disabled and onnx.reference must both run and agree), calls the optimizer API under the
item's options and returns one record holding the observations of BOTH properties:

    rec["c03"] = [violations of semantic preservation]     rec["c04"] = [violations of totality/validity/interface]

so C03 and C04 are two views of the same execution; each check reports its own part and can run alone.
"""
from __future__ import annotations

import collections
import copy
import io
import logging
import os

import numpy as np
import onnx

from vf import mz, runeq, wf

logging.disable(logging.CRITICAL)

DEFAULT_OPTS = {"num_iterations": 2, "onnx_shape_inference": True, "inline": True, "stop_if_no_change": True,
                "input_size_limit": None, "output_size_limit": None}
OPT_MENU = {  # entry 0 is the default
    "num_iterations": [2, 1, 3],
    "onnx_shape_inference": [True, False],
    "inline": [True, False],
    "stop_if_no_change": [True, False],
    "input_size_limit": [None, 0, 4],
    "output_size_limit": [None, 0, 4],
}
APIS = ["optimize", "optimize_ir", "fold_constants", "rewrite", "remove_unused_nodes"]


# ------------------------------------------------------------------------------------------------
# the API under test
# ------------------------------------------------------------------------------------------------
class HarnessSerde(Exception):
    """proto -> ir.Model conversion done BY THE HARNESS (entry form ir.Model / optimize_ir) failed: the API under test was
    never called (counted as a skip; the same model reaches the API through the ModelProto entry)."""


def _deserialize(ir, m):
    try:
        return ir.serde.deserialize_model(m)
    except Exception as e:  # noqa: BLE001
        raise HarnessSerde(f"{type(e).__name__}: {e}"[:200]) from None


def call_api(model, api="optimize", opts=None, entry="proto"):
    """-> optimized ModelProto.  The input proto is never mutated (a copy is handed to in-place APIs)."""
    from onnxscript import ir, optimizer, rewriter
    opts = dict(opts or {})
    kw = {k: v for k, v in opts.items() if v is not None}
    m = onnx.ModelProto()
    m.CopyFrom(model)
    if api == "optimize":
        if entry == "ir":
            mir = _deserialize(ir, m)
            out = optimizer.optimize(mir, **kw)
            return ir.serde.serialize_model(out)
        return optimizer.optimize(m, **kw)
    if api == "optimize_ir":
        mir = _deserialize(ir, m)
        optimizer.optimize_ir(mir, **kw)
        return ir.serde.serialize_model(mir)
    if api == "fold_constants":
        kw = {k: v for k, v in kw.items() if k in ("onnx_shape_inference", "input_size_limit", "output_size_limit")}
        if entry == "ir":
            mir = _deserialize(ir, m)
            optimizer.fold_constants(mir, **kw)
            return ir.serde.serialize_model(mir)
        optimizer.fold_constants(m, **kw)
        return m
    if api == "rewrite":
        if entry == "ir":
            mir = _deserialize(ir, m)
            return ir.serde.serialize_model(rewriter.rewrite(mir))
        return rewriter.rewrite(m)
    if api == "rewrite_expand":  # C09: the (non-default) expand-before-binary-op rule set, after shape inference
        from onnxscript.rewriter.rules.common import expand_before_binary_op_rules
        m = onnx.shape_inference.infer_shapes(m, data_prop=True)
        return rewriter.rewrite(m, expand_before_binary_op_rules)
    if api == "optimize+expand":
        from onnxscript.rewriter.rules.common import expand_before_binary_op_rules
        o = optimizer.optimize(m, **kw)
        o = onnx.shape_inference.infer_shapes(o, data_prop=True)
        return rewriter.rewrite(o, expand_before_binary_op_rules)
    if api == "remove_unused_nodes":
        if entry == "ir":
            mir = _deserialize(ir, m)
            optimizer.remove_unused_nodes(mir)
            return ir.serde.serialize_model(mir)
        optimizer.remove_unused_nodes(m)
        return m
    if api.startswith("rule:"):
        rule = rule_by_name(api[5:])
        return rewriter.rewrite(m, [rule])
    raise ValueError(api)


def rule_names():
    from onnxscript import rewriter
    out = []
    for r in rewriter._DEFAULT_REWRITE_RULES:
        if r.name:
            nm = r.name
        else:
            try:
                ops = ".".join(str(n.op) for n in r._target_pattern)
            except Exception:  # noqa: BLE001
                ops = "?"
            fn = getattr(getattr(r._replacement_pattern, "_function", None), "__name__", "?")
            nm = f"{ops}/{fn}"
        out.append((nm, r))
    return out


def rule_by_name(name):
    for nm, r in rule_names():
        if nm == name:
            return r
    raise KeyError(name)


# ------------------------------------------------------------------------------------------------
# running models
# ------------------------------------------------------------------------------------------------
class Sess:
    """ORT session (optimizations disabled) that also accepts values for overridable initializers."""

    def __init__(self, model):
        self.s = runeq.make_session(model)
        self.names = {i.name for i in self.s.get_inputs()} | {i.name for i in self.s.get_overridable_initializers()}

    def run(self, feeds):
        try:
            return self.s.run(None, {k: v for k, v in feeds.items() if k in self.names})
        except Exception as e:  # noqa: BLE001
            raise runeq.RunError("run", str(e)[:300]) from None


def run_ref(model, feeds):
    from onnx.reference import ReferenceEvaluator
    try:
        ev = ReferenceEvaluator(model)
    except Exception as e:  # noqa: BLE001
        raise runeq.RunError("load", str(e)[:300]) from None
    names = set(ev.input_names)
    try:
        return ev.run(None, {k: v for k, v in feeds.items() if k in names})
    except BaseException as e:  # noqa: BLE001  (the reference evaluator may raise anything)
        if isinstance(e, (KeyboardInterrupt, SystemExit)):
            raise
        raise runeq.RunError("run", f"{type(e).__name__}: {e}"[:300]) from None


class Orig:
    """The original model with its sessions; admits feeds."""

    def __init__(self, model):
        self.model = model
        self.sess = None
        self.load_problem = None
        try:
            self.sess = Sess(model)
        except runeq.RunError as e:
            self.load_problem = "ort-load"
            self.msg = e.msg
        self._ref = None
        self._ref_problem = None
        self.ort_ran = 0   # valuations BOTH runtimes executed (whether or not their results agreed): "the model executes"
        self.ort_only = 0  # valuations ORT executed and onnx.reference could not (no implementation / unsupported form)

    def _run_ref(self, feeds):
        """Reference evaluator created once per model (many bindings are run per model in C09)."""
        from onnx.reference import ReferenceEvaluator
        if self._ref is None and self._ref_problem is None:
            try:
                self._ref = ReferenceEvaluator(self.model)
            except Exception as e:  # noqa: BLE001
                self._ref_problem = str(e)[:200]
        if self._ref is None:
            raise runeq.RunError("load", self._ref_problem)
        names = set(self._ref.input_names)
        try:
            return self._ref.run(None, {k: v for k, v in feeds.items() if k in names})
        except BaseException as e:  # noqa: BLE001
            if isinstance(e, (KeyboardInterrupt, SystemExit)):
                raise
            raise runeq.RunError("run", f"{type(e).__name__}: {e}"[:300]) from None

    def admit(self, feeds):
        """-> (outs, None) | (None, reason)"""
        if self.sess is None:
            return None, self.load_problem
        if self._random_active(feeds) and not self._seeded_random():
            # The original draws random numbers (training-mode Dropout, Random*) that reach other nodes: two runs of the
            # SAME model differ (ORT's generator advances with every run), so an agreement of the two runtimes would be
            # chance and nothing can be compared afterwards.
            try:
                self.sess.run(feeds)
            except runeq.RunError:
                return None, "ort-run"
            try:
                self._run_ref(feeds)
                self.ort_ran += 1    # it executes: C04 totality / validity / interface still apply
            except runeq.RunError:
                self.ort_only += 1
            return None, "random-original"
        try:
            o = self.sess.run(feeds)
        except runeq.RunError:
            return None, "ort-run"
        try:
            r = self._run_ref(feeds)
        except runeq.RunError as e:
            self.ort_only += 1
            return None, "ref-" + e.kind
        self.ort_ran += 1
        d = runeq.compare(o, r, loose=10.0)
        if self._seeded_random():
            # Seeded Dropout in training mode: the runtimes draw different masks (and ORT's generator advances with every
            # run of a session), so values are only comparable up to resampling (see ResampleOuts).
            return ResampleOuts(o), None
        if d:
            return None, "disagree"
        return o, None

    def _random_active(self, feeds):
        """Does the model hold a Random* / Multinomial / Bernoulli node, or a Dropout whose training_mode input is not
        known to be false (value looked up in the feeds, the initializers and the Constant nodes of every graph)?"""
        consts = {}

        def collect(g):
            for t in g.initializer:
                consts.setdefault(t.name, t)
            for n in g.node:
                if n.op_type == "Constant" and n.attribute and n.attribute[0].name == "value":
                    consts.setdefault(n.output[0], n.attribute[0].t)
                for a in n.attribute:
                    if a.type == onnx.AttributeProto.GRAPH:
                        collect(a.g)
        collect(self.model.graph)
        active = []

        def walk(nodes, in_function):
            for n in nodes:
                if n.op_type.startswith("Random") or n.op_type in ("Multinomial", "Bernoulli"):
                    active.append(n.op_type)
                if n.op_type == "Dropout" and len(n.input) > 2 and n.input[2]:
                    def known(name):
                        if in_function or not name:
                            return None
                        if name in feeds:
                            return np.asarray(feeds[name])
                        if name in consts:
                            return onnx.numpy_helper.to_array(consts[name])
                        return None
                    training, ratio = known(n.input[2]), known(n.input[1])
                    off = (training is not None and not bool(np.asarray(training).any())) or \
                          (ratio is not None and not bool(np.asarray(ratio).any()))   # ratio 0: x and an all-true mask
                    if not off:
                        active.append("Dropout")
                for a in n.attribute:
                    if a.type == onnx.AttributeProto.GRAPH:
                        walk(a.g.node, in_function)
        walk(self.model.graph.node, False)
        for f in self.model.functions:
            for n in f.node:
                if n.op_type == "Constant" and n.attribute and n.attribute[0].name == "value":
                    consts.setdefault(n.output[0], n.attribute[0].t)
            walk(f.node, True)
        return bool(active)

    def _seeded_random(self):
        """True iff the model's only random nodes are main-graph Dropout nodes with an explicit seed and a training_mode
        input whose outputs are graph outputs and feed no other node (so 'element is 0 or x/(1-r)' holds for them)."""
        if not hasattr(self, "_seeded"):
            g = self.model.graph
            ok = []
            consumed = {i for n in g.node for i in n.input}

            def walk(nodes, top):
                for n in nodes:
                    if n.op_type.startswith("Random") or n.op_type in ("Multinomial", "Bernoulli"):
                        ok.append(False)
                    if n.op_type == "Dropout" and len(n.input) > 2 and n.input[2]:
                        ok.append(top and any(a.name == "seed" for a in n.attribute)
                                  and not any(o in consumed for o in n.output))
                    for a in n.attribute:
                        if a.type == onnx.AttributeProto.GRAPH:
                            walk(a.g.node, False)
            walk(g.node, True)
            for f in self.model.functions:
                walk(f.node, False)
            self._seeded = bool(ok) and all(ok)
        return self._seeded


def op_sig(model):
    """Counter of op types over the graph, its subgraphs and local functions (Constant excluded)."""
    c = collections.Counter()

    def walk(nodes):
        for n in nodes:
            if n.op_type != "Constant":
                c[(n.domain + "::" if n.domain not in ("", "ai.onnx") else "") + n.op_type] += 1
            for a in n.attribute:
                if a.type == onnx.AttributeProto.GRAPH:
                    walk(a.g.node)
                elif a.type == onnx.AttributeProto.GRAPHS:
                    for g in a.graphs:
                        walk(g.node)
    walk(model.graph.node)
    for fn in model.functions:
        walk(fn.node)
    return c


def diff_sig(a, b):
    """'Removed=>Added' between two models' op multisets ('' when equal)."""
    ca, cb = op_sig(a), op_sig(b)
    rem = ca - cb
    add = cb - ca
    if not rem and not add:
        return ""

    def fmt(c):
        return ",".join(sorted(c))  # op types only: multiplicities vary with wrappers and operand counts
    return f"{fmt(rem)}=>{fmt(add)}"


def interface(model):
    def ty(v):
        t = v.type
        w = t.WhichOneof("value")
        if w == "optional_type":
            # optional(tensor) / optional(sequence(tensor)): compared like the wrapped type (symbolic dim names are not
            # part of the contract)
            inner = onnx.ValueInfoProto()
            inner.type.CopyFrom(t.optional_type.elem_type)
            k = ty(inner)
            return ("optional:" + str(k[0]), k[1], k[2])
        if w == "tensor_type":
            tt = t.tensor_type
            dims = None
            if tt.HasField("shape"):
                dims = [d.dim_value if d.HasField("dim_value") else (d.dim_param or None) if d.HasField("dim_param") else None
                        for d in tt.shape.dim]
            return ("tensor", tt.elem_type, dims)
        if w == "sequence_type" and t.sequence_type.elem_type.WhichOneof("value") == "tensor_type":
            tt = t.sequence_type.elem_type.tensor_type
            dims = None
            if tt.HasField("shape"):
                dims = [d.dim_value if d.HasField("dim_value") else (d.dim_param or None) if d.HasField("dim_param") else None
                        for d in tt.shape.dim]
            return ("sequence", tt.elem_type, dims)
        return (w, t.SerializeToString().hex()[:40], None)
    return ([(v.name,) + ty(v) for v in model.graph.input], [(v.name,) + ty(v) for v in model.graph.output])


def compare_interface(orig, opt):
    """-> (problems, notes).  problems: names / order / count / kind / elem type / rank / static dim changed.
    notes: symbolic<->static refinements and symbol renames (counted, not alarmed on: the runtime contract of the
    value is unchanged only if the refinement is right, which ``declared_vs_runtime`` checks)."""
    problems, notes = [], []
    (i0, o0), (i1, o1) = interface(orig), interface(opt)
    for what, a, b in (("input", i0, i1), ("output", o0, o1)):
        if [x[0] for x in a] != [x[0] for x in b]:
            problems.append(f"{what}-names: {[x[0] for x in a]} -> {[x[0] for x in b]}")
            continue
        for x, y in zip(a, b):
            if x[1] != y[1] or x[2] != y[2]:
                problems.append(f"{what}-type: {x[0]} {x[1:3]} -> {y[1:3]}")
                continue
            dx, dy = x[3], y[3]
            if dx == dy:
                continue
            if dx is None or dy is None:
                (problems if dy is None else notes).append(f"{what}-shape: {x[0]} {dx} -> {dy}")
                continue
            if len(dx) != len(dy):
                problems.append(f"{what}-rank: {x[0]} {dx} -> {dy}")
                continue
            for p, q in zip(dx, dy):
                if p == q:
                    continue
                if isinstance(p, int) and isinstance(q, int):
                    problems.append(f"{what}-dim: {x[0]} {dx} -> {dy}")
                elif isinstance(p, int):
                    problems.append(f"{what}-dim-lost: {x[0]} {dx} -> {dy}")
                elif isinstance(q, int) and what == "input":
                    # a symbolic / unknown input dim turned static: the result accepts fewer inputs
                    problems.append(f"{what}-dim-narrowed: {x[0]} {dx} -> {dy}")
                else:
                    notes.append(f"{what}-shape-refined: {x[0]} {dx} -> {dy}")
                break
    return problems, notes


def declared_vs_runtime(model, outs):
    """Static dims / rank declared for graph outputs must hold for what the model returned."""
    bad = []
    for v, o in zip(model.graph.output, outs):
        if v.type.WhichOneof("value") != "tensor_type" or not v.type.tensor_type.HasField("shape"):
            continue
        if isinstance(o, (list, tuple)) or o is None:
            continue
        dims = v.type.tensor_type.shape.dim
        shp = np.asarray(o).shape
        if len(dims) != len(shp):
            bad.append(f"{v.name}: declared rank {len(dims)} runtime {list(shp)}")
            continue
        for d, s in zip(dims, shp):
            if d.HasField("dim_value") and d.dim_value != s:
                bad.append(f"{v.name}: declared {[x.dim_value if x.HasField('dim_value') else x.dim_param for x in dims]} runtime {list(shp)}")
                break
    return bad


def validity_problems(model):
    """checker(full_check) + the independent walker.  -> list of strings."""
    out = []
    try:
        onnx.checker.check_model(model, full_check=True)
    except Exception as e:  # noqa: BLE001
        out.append("checker: " + str(e).strip().split("\n")[0][:600])
    try:
        for p in wf.check_model(model):
            if "defined more than once" in p or "redefines an outer name" in p or "redefines an existing name" in p:
                continue  # re-done below with ONNX scoping (sibling subgraphs are separate scopes)
            out.append("wf: " + p[:300])
    except Exception as e:  # noqa: BLE001
        out.append(f"wf-crash: {type(e).__name__}: {e}"[:200])
    out.extend("scope: " + p for p in duplicate_names(model))
    return out


def duplicate_names(model):
    """Value names must be unique within a graph and must not shadow a name of an enclosing graph.  Two sibling
    subgraphs (then/else, two Loop bodies) may reuse a name: ONNX scoping allows it and so does the checker;
    vf.wf's global-SSA rule is stricter than the property, so the name rule is re-implemented here."""
    problems = []

    def walk(g, outer, path):
        local = set()

        def define(n, what):
            if not n:
                return
            if n in local:
                problems.append(f"{path}: value name defined twice in one graph ({what})")
            elif n in outer:
                problems.append(f"{path}: value name shadows an outer-scope name ({what})")
            local.add(n)
        in_names = {i.name for i in g.input}
        for i in g.input:
            define(i.name, "input")
        for t in g.initializer:
            if t.name not in in_names:
                define(t.name, "initializer")
        for n in g.node:
            for o in n.output:
                define(o, "node output")
        scope = outer | local
        for k, n in enumerate(g.node):
            for a in n.attribute:
                if a.type == onnx.AttributeProto.GRAPH:
                    walk(a.g, scope, f"{path}/{n.op_type}.{a.name}")
                elif a.type == onnx.AttributeProto.GRAPHS:
                    for j, sg in enumerate(a.graphs):
                        walk(sg, scope, f"{path}/{n.op_type}.{a.name}[{j}]")
    walk(model.graph, set(), "graph")
    return problems


def _classify_validity(p):
    """Coarse class of a validity problem for finding keys: '<source>:<op>:<message without names and numbers>'."""
    import re
    src = p.split(":")[0]
    mu = re.search(r"Unrecognized attribute: (\w+) for operator (\w+)", p)
    if mu:
        return f"{src}:{mu.group(2)}:Unrecognized attribute {mu.group(1)}"
    ms = re.findall(r"\(op_type:(\w+)", p)
    m2 = re.search(r"schema\(([\w.]*)::(\w+)", p)
    op = ms[-1] if ms else (m2.group(2) if m2 else "")
    msg = p.split("] ")[-1] if "] " in p else p.split(": ", 1)[-1]
    msg = re.sub(r"Node\([^)]*\) with schema\([^)]*\) ", "", msg)
    msg = re.sub(r"'[^']*'|\"[^\"]*\"", "_", msg)
    msg = re.sub(r"\(?-?\d+\)?", "N", msg)
    msg = re.split(r"[:\[(]", msg)[0].strip()
    return f"{src}:{op}:{msg}"[:100]


# ------------------------------------------------------------------------------------------------
# one case
# ------------------------------------------------------------------------------------------------
def _exc_class(e):
    """Class of an exception escaping the API: innermost exception type @ innermost onnxscript frame."""
    import traceback
    cur = e
    seen = 0
    while (cur.__cause__ or cur.__context__) is not None and seen < 10:
        cur = cur.__cause__ or cur.__context__
        seen += 1
    where = ""
    frames = traceback.extract_tb(cur.__traceback__)
    for fr in reversed(frames):
        if "onnxscript" in fr.filename:
            where = f"{os.path.splitext(os.path.basename(fr.filename))[0]}.{fr.name}"
            break
    if not where and frames:
        # raised and caught below onnxscript (onnx_ir pass infrastructure / serde): name the raising frame and its package
        fr = frames[-1]
        parts = fr.filename.replace("\\", "/").split("/")
        pkg = parts[parts.index("site-packages") + 1] if "site-packages" in parts else ""
        where = f"{pkg}:{os.path.splitext(os.path.basename(fr.filename))[0]}.{fr.name}"
    return f"{type(cur).__name__}@{where}"


class ResampleOuts(list):
    """Outputs of an original whose only randomness is seeded training-mode Dropout feeding graph outputs directly.  The
    optimizer may legitimately re-draw the mask (it folds a constant Dropout through another RNG; ORT's generator advances
    per run), so values are compared up to resampling: every float element is either equal or one of the two is 0 (a
    Dropout output element is 0 or x/(1-r)); bool outputs (masks) are not constrained.  Returning x itself where the
    original returned x/(1-r) is caught."""


def compare_runs(exp, got):
    if isinstance(exp, ResampleOuts):
        if len(exp) != len(got):
            return f"output count {len(exp)} vs {len(got)}"
        for i, (a, b) in enumerate(zip(exp, got)):
            a, b = np.asarray(a), np.asarray(b)
            if a.dtype != b.dtype or a.shape != b.shape:
                return f"output {i}: dtype/shape {a.dtype}{a.shape} vs {b.dtype}{b.shape}"
            if a.dtype.kind != "f":
                continue
            af, bf = a.astype(np.float64), b.astype(np.float64)
            ok = np.isclose(af, bf, rtol=1e-5, atol=1e-6, equal_nan=True) | (af == 0) | (bf == 0)
            if not ok.all():
                k = np.argwhere(~ok)[0]
                return (f"output {i}: not a resampling of the original (element {tuple(k)}: {af[tuple(k)]!r} vs "
                        f"{bf[tuple(k)]!r}, both non-zero; {int((~ok).sum())}/{af.size} elements)")
        return None
    return runeq.compare(exp, got)


def evaluate(built, item, binds=(None,), n_val=mz.N_VALUATIONS, api=None, opts=None, entry=None, want_override=True,
             collect_all=False, widen=False):
    """The shared run.  -> record (see module docstring).

    binds: symbol bindings to run at (None = mz.BIND_DEFAULT); C09 passes many.
    """
    api = api or item.get("api", "optimize")
    opts = opts if opts is not None else item.get("opts", {})
    entry = entry or item.get("entry", "proto")
    rec = {"c03": [], "c04": [], "counts": collections.Counter(), "notes": []}
    cnt = rec["counts"]
    model = built.model
    orig = Orig(model)
    if orig.sess is None:
        rec["skip"] = "orig-ort-load"
        return rec
    # ---- admitted runs on the original -----------------------------------------------------------
    runs = []   # (bind, k, feeds, expected outs)
    rejected = []  # (bind, feeds) the original's runtime refuses (C09: must the optimized refuse too? counted only)
    reasons = collections.Counter()
    for b in binds:
        bind = dict(mz.BIND_DEFAULT)
        bind.update(b or {})
        for k in range(n_val):
            feeds = built.feeds(k, bind)
            outs, why = orig.admit(feeds)
            if outs is None:
                reasons[why] += 1
                cnt["valuation_not_admitted:" + why] += 1
                if why in ("ort-run",) and k == 0 and len(binds) > 1:
                    rejected.append((b, feeds))
                    break  # the original rejects this binding: other valuations will too
                continue
            runs.append((b, k, feeds, outs))
            if not built.true_inputs:
                break  # no data inputs: every valuation is the same run
    rec["admitted"] = len(runs)
    rec["not_admitted"] = dict(reasons)
    # ---- the call ---------------------------------------------------------------------------------
    try:
        opt = call_api(model, api, opts, entry)
    except HarnessSerde as e:
        rec["skip"] = "harness-cannot-build-ir-model"
        rec["problem"] = str(e)
        return rec
    except Exception as e:  # noqa: BLE001
        rec["raised"] = f"{type(e).__name__}: {e}"[:300]
        cls = _exc_class(e)
        if orig.ort_ran or orig.ort_only:
            # the model is checker-valid and executes (on ORT at least; the reference evaluator lacks some ops and
            # constant forms, which says nothing about the model): C04 demands totality
            rec["c04"].append({"kind": "raises", "component": api, "param": cls, "detail": rec["raised"]})
            if not orig.ort_ran:
                cnt["raised_on_model_only_ort_executes"] += 1
        else:
            cnt["raised_on_non_executing_model"] += 1
        return rec
    rec["opt"] = opt
    rec["diff"] = diff_sig(model, opt)
    if not orig.ort_ran:
        # the model does not execute: neither property concludes anything
        rec["skip"] = "no-admitted-run:" + ",".join(sorted(reasons))
        return rec
    # ---- C04: validity + interface (needs a checker-valid model that both runtimes execute; agreement of their
    # results is only needed for the semantic parts below) ------------------------------------------------------
    vp = validity_problems(opt)
    if vp:
        base = set(_classify_validity(p) for p in validity_problems(model))
        for p in vp:
            c = _classify_validity(p)
            if c not in base and c not in [x["param"] for x in rec["c04"]]:
                rec["c04"].append({"kind": "invalid", "component": api, "param": c, "detail": p})
    ip, notes = compare_interface(model, opt)
    for p in ip:
        rec["c04"].append({"kind": "interface", "component": api, "param": p.split(":")[0], "detail": p})
    for n in notes:
        cnt["interface_note:" + n.split(":")[0]] += 1
    # overridable initializers must still be initializers AND inputs
    opt_inputs = {v.name for v in opt.graph.input}
    opt_inits = {t.name for t in opt.graph.initializer}
    for name in built.init_in:
        if name in opt_inputs and name not in opt_inits:
            rec["c04"].append({"kind": "default-lost", "component": api, "param": "initializer-input lost its default",
                               "name": name,
                               "detail": f"{name} is still a graph input but its initializer (default value) was removed"})
        elif name not in opt_inputs:
            rec["c04"].append({"kind": "default-lost", "component": api, "param": "initializer-input is no longer an input",
                               "name": name, "detail": f"{name} was an overridable graph input and is no input any more"})
    rec["validated"] = True
    # ---- run the optimized model ------------------------------------------------------------------------
    if not runs:
        rec["skip"] = "no-admitted-run:" + ",".join(sorted(reasons))
        return rec
    try:
        osess = Sess(opt)
    except runeq.RunError as e:
        osess = None
        load_msg = e.msg
    neq = None
    all_neq = []
    for (b, k, feeds, exp) in runs:
        if neq is not None:
            all_neq.append(neq)
            neq = None
        got = None
        how = None
        if osess is not None:
            try:
                got = osess.run(feeds)
            except runeq.RunError as e:
                how = "ort-run: " + e.msg[:160]
        else:
            how = "ort-load: " + load_msg[:160]
        if got is None:
            # ORT cannot run the result.  Two situations are not decided by that alone: a kernel ORT does not
            # implement, and a former default that became a required input (reported by C04 as default-lost);
            # there the reference evaluator decides.  Anything else: the optimized model fails where the
            # original ran.
            cls = "not-implemented" if "NOT_IMPLEMENTED" in how else "required-input-missing" \
                if "Required inputs" in how else "other"
            cnt["optimized_ort_failure:" + cls] += 1
            if cls == "other":
                neq = {"symptom": "optimized-fails", "bind": b, "k": k, "detail": how}
                if collect_all:
                    continue
                break
            try:
                got = run_ref(opt, feeds)
                cnt["optimized_ran_on_reference_only"] += 1
            except runeq.RunError as e:
                neq = {"symptom": "optimized-fails", "bind": b, "k": k, "detail": f"{how}; ref-{e.kind}: {e.msg[:120]}"}
                if collect_all:
                    continue
                break
        cnt["comparisons"] += 1
        d = compare_runs(exp, got)
        if d and how is None and osess is not None:
            # ORT's result for the OPTIMIZED model differs.  As for the original, a runtime's answer counts only when
            # the two runtimes agree: when onnx.reference runs the optimized model and returns what the original
            # returned, the runtimes disagree about the optimized model and nothing is concluded (counted).
            try:
                rgot = run_ref(opt, feeds)
                if compare_runs(exp, rgot) is None:
                    cnt["optimized_runtimes_disagree_reference_matches_original"] += 1
                    cnt["optimized_runtimes_disagree:" + (rec.get("diff") or "unchanged")[:50]] += 1
                    continue
            except runeq.RunError:
                pass
        if d:
            neq = {"symptom": d.split(":")[1].strip().split(" ")[0] if ":" in d else d, "bind": b, "k": k, "detail": d,
                   "expected": runeq.describe(exp), "got": runeq.describe(got)}
            if collect_all:
                continue
            break
        dv = declared_vs_runtime(opt, got)
        if dv and not declared_vs_runtime(model, exp):
            rec["c04"].append({"kind": "declared-shape-wrong", "component": api, "param": "output",
                               "detail": dv[0]})
    if neq:
        all_neq.append(neq)
    rec["c03"].extend(all_neq if collect_all else all_neq[:1])
    neq = all_neq[0] if all_neq else None
    if widen and osess is not None:
        for (b, feeds) in rejected:
            try:
                osess.run(feeds)
                cnt["widened_acceptance"] += 1
            except runeq.RunError:
                cnt["rejected_by_both"] += 1
    # ---- C04: overriding initializer-inputs ------------------------------------------------------------------
    if want_override and built.init_in and osess is not None and neq is not None:
        cnt["override_skipped_model_already_not_equivalent"] += 1
    if want_override and built.init_in and osess is not None and neq is None:
        b0, k0, feeds0, _ = runs[0]
        for name, cands in built.overrides.items():
            for v in cands:
                feeds = dict(feeds0)
                feeds[name] = v
                exp, why = orig.admit(feeds)
                if exp is None:
                    cnt["override_not_admitted:" + why] += 1
                    continue
                cnt["override_comparisons"] += 1
                try:
                    got = osess.run(feeds)
                except runeq.RunError as e:
                    if "Required inputs" in e.msg:
                        # another initializer-input lost its default (reported as default-lost)
                        cnt["override_blocked_by_lost_default"] += 1
                        break
                    rec["c04"].append({"kind": "override", "component": api, "param": "optimized-fails",
                                       "detail": f"{name}={v.tolist()!r}: {e.msg[:160]}", "name": name,
                                       "feeds": feeds, "expected": exp})
                    break
                d = compare_runs(exp, got)
                if d:
                    rec["c04"].append({"kind": "override", "component": api, "param": "ignored",
                                       "detail": f"{name}={v.tolist()!r}: {d}", "name": name,
                                       "feeds": feeds, "expected": exp})
                    break
    return rec


def attribute(model, api, opts, entry, still_bad):
    """Which transformation is responsible?  ``still_bad(optimized_model) -> bool``.

    Order: constant folding alone (with node-level shape inference, as optimize() runs it); then every default
    rule alone, applied to the folded model (which carries the inferred shapes the rule conditions read);
    then all default rules together; otherwise the interaction is attributed to the pipeline.
    -> (component, diff signature of that component's output relative to its input)."""
    def attempt(m, a, o):
        try:
            m2 = call_api(m, a, o, "proto")
        except Exception:  # noqa: BLE001
            return None, False
        try:
            return m2, bool(still_bad(m2))
        except Exception:  # noqa: BLE001
            return m2, False
    if api.startswith("rule:"):
        return api, diff_sig(model, call_api(model, api, {}, "proto"))
    if model.functions and (opts or {}).get("inline") is not False and api in ("optimize", "optimize_ir"):
        # optimize() inlines model-local functions first: attribute on the inlined model
        try:
            from onnxscript import ir, optimizer
            mir = ir.serde.deserialize_model(model)
            optimizer.inline(mir)
            model = ir.serde.serialize_model(mir)
        except Exception:  # noqa: BLE001
            pass
    base = model
    if api not in ("rewrite", "remove_unused_nodes"):
        si = (opts or {}).get("onnx_shape_inference")
        m2, bad = attempt(model, "fold_constants", {"onnx_shape_inference": True if si is None else si})
        if bad:
            return "fold", diff_sig(model, m2)
        if m2 is not None:
            base = m2
            # rewrite() also removes unused nodes: a problem that appears by that alone belongs to the folding
            m2b, bad = attempt(m2, "remove_unused_nodes", {})
            if bad:
                return "fold+dce", diff_sig(model, m2b)
            if m2b is not None:
                base = m2b
    if api in ("fold_constants", "remove_unused_nodes"):
        return api, None
    for nm, _ in rule_names():
        m3, bad = attempt(base, "rule:" + nm, {})
        if bad:
            return "rule:" + nm, diff_sig(base, m3)
    m4, bad = attempt(base, "rewrite", {})
    if bad:
        return "rewrite", diff_sig(base, m4)
    m5, bad = attempt(model, "remove_unused_nodes", {})
    if bad:
        return "remove_unused_nodes", diff_sig(model, m5)
    return "pipeline", None
