"""sgrun - runs sg programs on the real onnxscript: decoration, eager call, to_model_proto on ORT, a one-node
model calling to_function_proto on ORT.  No oracle logic here (that is sg.Interp / vf.runeq / vf.wf)."""
from __future__ import annotations

import linecache
import signal
import sys
import threading
import types

import numpy as np
import onnx
from onnx import helper

from vf import runeq, sg

_counter = [0]


class Refused(Exception):
    def __init__(self, exc):
        super().__init__(f"{type(exc).__name__}: {exc}")
        self.exc = exc
        self.etype = type(exc).__name__
        self.msg = str(exc)


class Timeout(Exception):
    pass


class SourceDoesNotCompile(BaseException):
    """The generated text is not python: a harness bug, never a refusal."""


def _alarm(signum, frame):
    raise Timeout("python-level timeout")


class time_limit:
    """Guard for python-level non-termination (eager while loops).  The budget is CPU time of this process
    (ITIMER_PROF), so a starved machine cannot produce a spurious timeout."""

    def __init__(self, seconds):
        self.seconds = seconds

    def __enter__(self):
        self.ok = threading.current_thread() is threading.main_thread()
        if self.ok:
            self.old = signal.signal(signal.SIGPROF, _alarm)
            signal.setitimer(signal.ITIMER_PROF, self.seconds)

    def __exit__(self, *a):
        if self.ok:
            signal.setitimer(signal.ITIMER_PROF, 0)
            signal.signal(signal.SIGPROF, self.old)
        return False


# ------------------------------------------------------------------------------------------------
# ORT session memoisation for eager mode (one InferenceSession per op call otherwise: ~3 ms each).
# Same bytes => same session: a pure memoisation of the trusted runtime, not of the code under test.
# ------------------------------------------------------------------------------------------------

_SESSION_CACHE = {}
_SESSION_CACHE_MAX = 1500
_patched = [False]
cache_stats = {"hit": 0, "miss": 0}


def patch_ort_session_cache():
    if _patched[0]:
        return
    o = runeq.ort()
    real = o.InferenceSession

    def cached(path_or_bytes, sess_options=None, providers=None, **kw):
        if sess_options is None and isinstance(path_or_bytes, bytes) and not kw:
            s = _SESSION_CACHE.get(path_or_bytes)
            if s is None:
                cache_stats["miss"] += 1
                so = o.SessionOptions()  # as eager mode creates it, except: no per-session thread pool
                so.intra_op_num_threads = 1
                so.inter_op_num_threads = 1
                so.log_severity_level = 4
                s = real(path_or_bytes, so, providers=providers)
                if len(_SESSION_CACHE) >= _SESSION_CACHE_MAX:
                    for k in list(_SESSION_CACHE)[: _SESSION_CACHE_MAX // 4]:
                        del _SESSION_CACHE[k]
                _SESSION_CACHE[path_or_bytes] = s
            else:
                cache_stats["hit"] += 1
            return s
        return real(path_or_bytes, sess_options, providers=providers, **kw)

    cached.__wrapped__ = real
    o.InferenceSession = cached
    _patched[0] = True


def real_session(model_bytes):
    o = runeq.ort()
    ctor = getattr(o.InferenceSession, "__wrapped__", o.InferenceSession)
    so = o.SessionOptions()
    so.graph_optimization_level = o.GraphOptimizationLevel.ORT_DISABLE_ALL
    so.log_severity_level = 4
    so.intra_op_num_threads = 1
    so.inter_op_num_threads = 1
    return ctor(model_bytes, so, providers=["CPUExecutionProvider"])


# ------------------------------------------------------------------------------------------------
# Loading
# ------------------------------------------------------------------------------------------------

class Loaded:
    def __init__(self, prog, src, marks, module, fname, modname):
        self.prog = prog
        self.src = src
        self.marks = marks
        self.module = module
        self.fname = fname
        self.modname = modname
        self.fn = getattr(module, prog["name"])
        self._model = None
        self._model_err = None
        self._fproto = None

    def close(self):
        sys.modules.pop(self.modname, None)
        linecache.cache.pop(self.fname, None)


def load_source(src, tag="p"):
    _counter[0] += 1
    fname = f"<sg_{tag}_{_counter[0]}>"
    modname = f"_sg_mod_{tag}_{_counter[0]}"
    linecache.cache[fname] = (len(src), None, src.splitlines(True), fname)
    mod = types.ModuleType(modname)
    mod.__file__ = fname
    sys.modules[modname] = mod
    try:
        try:
            code = compile(src, fname, "exec")
        except SyntaxError as e:
            raise SourceDoesNotCompile(str(e)) from e
        exec(code, mod.__dict__)
    except BaseException:
        sys.modules.pop(modname, None)
        linecache.cache.pop(fname, None)
        raise
    return mod, fname, modname


def decorate(prog, ranks=None, out_ranks=None, opset=None):
    """-> Loaded, or raises Refused (any exception while the decorator runs).  `opset`: decorate the same text with
    another generated opset class (the text 'opset18' of the header is replaced; line numbers are unchanged)."""
    src, marks = sg.render(prog, ranks=ranks, out_ranks=out_ranks, with_marks=True)
    if opset is not None:
        src = src.replace("import opset18 as op", f"import opset{opset} as op", 1)
    try:
        mod, fname, modname = load_source(src)
    except Exception as e:  # noqa: BLE001 - the decorator may raise anything (SyntaxError included): refusals
        r = Refused(e)
        r.src = src
        r.marks = marks
        raise r from None
    return Loaded(prog, src, marks, mod, fname, modname)


# ------------------------------------------------------------------------------------------------
# Observations
# ------------------------------------------------------------------------------------------------

def norm_outputs(r):
    """Eager result -> list of np arrays, or raises TypeError when something else comes back."""
    if isinstance(r, (tuple, list)):
        items = list(r)
    else:
        items = [r]
    out = []
    for x in items:
        if isinstance(x, np.ndarray):
            out.append(x)
        elif isinstance(x, np.generic):
            out.append(np.asarray(x))
        else:
            raise TypeError(f"eager call returned {type(x).__name__}")
    return out


def call_eager(loaded, feeds, attrs, limit=4):
    prog = loaded.prog
    args = [feeds[name] for name, _ in prog["params"]]
    try:
        with time_limit(limit):
            r = loaded.fn(*args, **attrs)
        return ("ok", norm_outputs(r))
    except Timeout:
        return ("err", "timeout", "eager call did not finish")
    except Exception as e:  # noqa: BLE001
        return ("err", type(e).__name__, str(e)[:400])


def get_model(loaded):
    if loaded._model is None and loaded._model_err is None:
        try:
            loaded._model = loaded.fn.to_model_proto()
        except Exception as e:  # noqa: BLE001
            loaded._model_err = (type(e).__name__, str(e)[:300])
    return loaded._model, loaded._model_err


def get_fproto(loaded):
    if loaded._fproto is None:
        loaded._fproto = loaded.fn.to_function_proto()
    return loaded._fproto


def helper_fprotos(loaded):
    out = []
    for h in loaded.prog.get("helpers", []):
        out.append(getattr(loaded.module, h["name"]).to_function_proto())
    return out


def attr_kwargs(prog, attrs):
    kw = {}
    types_ = {n: t for n, t, _ in prog["attrs"]}
    for k, v in attrs.items():
        t = types_[k]
        kw[k] = float(v) if t == "float" else int(v)
    return kw


def build_call_model(loaded, attrs):
    """One-node model calling the FunctionProto; attributes as node attributes (only those given)."""
    prog = loaded.prog
    fp = get_fproto(loaded)
    ins = [helper.make_tensor_value_info(n, sg.ONNX_ELEM[sg.KIND_DT[k]], () if k.endswith("0") else None)
           for n, k in prog["params"]]
    nout = len(fp.output)
    rk = prog.get("rkinds") or []
    outs = []
    for j in range(nout):
        if j < len(rk):
            outs.append(helper.make_tensor_value_info(f"out{j}", sg.ONNX_ELEM[sg.KIND_DT[rk[j]]], None))
        else:
            outs.append(helper.make_value_info(f"out{j}", onnx.TypeProto()))
    node = helper.make_node(fp.name, [n for n, _ in prog["params"]], [f"out{j}" for j in range(nout)],
                            domain=fp.domain, **attr_kwargs(prog, attrs))
    g = helper.make_graph([node], "call_" + fp.name, ins, outs)
    imports = {"": 18}
    for f in [fp] + helper_fprotos(loaded):
        for oi in f.opset_import:
            if oi.domain == "":
                imports[""] = oi.version
    imports[fp.domain] = 1
    m = helper.make_model(g, opset_imports=[helper.make_opsetid(d, v) for d, v in imports.items()], ir_version=10)
    m.functions.extend([fp] + [h for h in helper_fprotos(loaded) if (h.domain, h.name) != (fp.domain, fp.name)])
    return m


def _graph_has_loop(g):
    for n in g.node:
        if n.op_type == "Loop":
            return True
        for a in n.attribute:
            if a.type == onnx.AttributeProto.GRAPH and _graph_has_loop(a.g):
                return True
    return False


def _has_loop(model):
    if _graph_has_loop(model.graph):
        return True
    for f in model.functions:
        for n in f.node:
            if n.op_type == "Loop":
                return True
            for a in n.attribute:
                if a.type == onnx.AttributeProto.GRAPH and _graph_has_loop(a.g):
                    return True
    return False


class Sess:
    """ORT session with a watchdog that terminates a run that does not come back."""

    def __init__(self, model):
        self.err = None
        self.sess = None
        self.has_loop = _has_loop(model)
        try:
            self.sess = real_session(model.SerializeToString())
        except Exception as e:  # noqa: BLE001
            self.err = ("load", str(e)[:400])

    def run(self, feeds, limit=1.5):
        if self.sess is None:
            return ("err",) + self.err
        import time
        o = runeq.ort()
        ro = o.RunOptions()
        done = threading.Event()
        t0 = time.process_time()

        def watchdog():
            # budget in CPU seconds of this process: robust against a starved machine
            while not done.wait(0.2):
                if time.process_time() - t0 > limit:
                    ro.terminate = True
                    return

        names = {i.name for i in self.sess.get_inputs()}
        f2 = {k: v for k, v in feeds.items() if k in names}
        if not self.has_loop:
            try:
                return ("ok", list(self.sess.run(None, f2)))
            except Exception as e:  # noqa: BLE001
                return ("err", "run", str(e)[:400])
        th = threading.Thread(target=watchdog, daemon=True)
        th.start()
        try:
            r = self.sess.run(None, f2, ro)
            return ("ok", list(r))
        except Exception as e:  # noqa: BLE001
            kind = "timeout" if getattr(ro, "terminate", False) else "run"
            return ("err", kind, str(e)[:400])
        finally:
            done.set()


def has_attr_ref(graph):
    """True when some node of a (main) graph, at any depth, refers to a function attribute."""
    for n in graph.node:
        for a in n.attribute:
            if a.ref_attr_name:
                return True
            if a.type == onnx.AttributeProto.GRAPH and has_attr_ref(a.g):
                return True
            if a.type == onnx.AttributeProto.GRAPHS and any(has_attr_ref(g) for g in a.graphs):
                return True
    return False
