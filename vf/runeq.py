"""Execution-equivalence oracle (DESIGN 2.3)."""
from __future__ import annotations

import numpy as np
import onnx

_ort = None


def ort():
    global _ort
    if _ort is None:
        import onnxruntime as o
        o.set_default_logger_severity(4)
        _ort = o
    return _ort


class RunError(Exception):
    def __init__(self, kind, msg):
        super().__init__(f"{kind}: {msg}")
        self.kind = kind
        self.msg = msg


def _sess(model_bytes):
    o = ort()
    so = o.SessionOptions()
    so.graph_optimization_level = o.GraphOptimizationLevel.ORT_DISABLE_ALL
    so.log_severity_level = 4
    so.intra_op_num_threads = 1
    so.inter_op_num_threads = 1
    return o.InferenceSession(model_bytes, so, providers=["CPUExecutionProvider"])


def run_ort(model, feeds, session=None):
    """-> list of numpy arrays (or python lists for sequences).  Raises RunError(kind in load|run)."""
    if session is None:
        b = model if isinstance(model, bytes) else model.SerializeToString()
        try:
            session = _sess(b)
        except Exception as e:  # noqa: BLE001
            raise RunError("load", str(e)[:500]) from None
    # overridable initializers (initializers that are also graph inputs) are not listed by get_inputs()
    names = {i.name for i in session.get_inputs()} | {
        i.name for i in getattr(session, "get_overridable_initializers", lambda: [])()}
    try:
        return session.run(None, {k: v for k, v in feeds.items() if k in names})
    except Exception as e:  # noqa: BLE001
        raise RunError("run", str(e)[:500]) from None


def make_session(model):
    b = model if isinstance(model, bytes) else model.SerializeToString()
    try:
        return _sess(b)
    except Exception as e:  # noqa: BLE001
        raise RunError("load", str(e)[:500]) from None


def run_ref(model, feeds):
    from onnx.reference import ReferenceEvaluator
    try:
        ev = ReferenceEvaluator(model)
    except Exception as e:  # noqa: BLE001
        raise RunError("load", str(e)[:500]) from None
    names = set(ev.input_names)
    try:
        return ev.run(None, {k: v for k, v in feeds.items() if k in names})
    except Exception as e:  # noqa: BLE001
        raise RunError("run", str(e)[:500]) from None


_TOL = {
    np.dtype("float64"): (1e-9, 1e-12),
    np.dtype("float32"): (1e-5, 1e-6),
    np.dtype("float16"): (2e-3, 1e-3),
}


def compare_arrays(a, b, loose=1.0):
    """None if equal under 2.3, else a short description."""
    if isinstance(a, (list, tuple)) or isinstance(b, (list, tuple)):
        if not (isinstance(a, (list, tuple)) and isinstance(b, (list, tuple))):
            return f"sequence vs tensor"
        if len(a) != len(b):
            return f"sequence length {len(a)} vs {len(b)}"
        for i, (x, y) in enumerate(zip(a, b)):
            d = compare_arrays(x, y, loose)
            if d:
                return f"seq[{i}]: {d}"
        return None
    if a is None or b is None:
        return None if (a is None and b is None) else "None vs value"
    a = np.asarray(a)
    b = np.asarray(b)
    if a.dtype != b.dtype:
        return f"dtype {a.dtype} vs {b.dtype}"
    if a.shape != b.shape:
        return f"shape {a.shape} vs {b.shape}"
    if a.size == 0:
        return None
    if a.dtype.kind in "fc" or a.dtype.name == "bfloat16":
        dt = a.dtype if a.dtype in _TOL else np.dtype("float16") if a.dtype.itemsize <= 2 else np.dtype("float32")
        rtol, atol = _TOL.get(dt, (1e-5, 1e-6))
        af = a.astype(np.complex128 if a.dtype.kind == "c" else np.float64)
        bf = b.astype(np.complex128 if b.dtype.kind == "c" else np.float64)
        na, nb = np.isnan(af), np.isnan(bf)
        if (na != nb).any():
            return f"NaN mask differs ({int(na.sum())} vs {int(nb.sum())})"
        ia, ib = np.isinf(af), np.isinf(bf)
        if (ia != ib).any() or (af[ia] != bf[ib]).any():
            return "infinities differ"
        m = ~(na | ia)
        if m.any():
            x, y = af[m], bf[m]
            bad = np.abs(x - y) > (atol * loose + rtol * loose * np.abs(y))
            if bad.any():
                k = int(np.argmax(np.abs(x - y)))
                return f"values differ: {x[k]!r} vs {y[k]!r} ({int(bad.sum())}/{x.size} elements)"
        return None
    if a.dtype.kind in "OUS":
        if not (a.astype(str) == b.astype(str)).all():
            return "string values differ"
        return None
    if not (a == b).all():
        k = np.argwhere(a != b)[0]
        return f"values differ at {tuple(k)}: {a[tuple(k)]!r} vs {b[tuple(k)]!r}"
    return None


def compare(outs_a, outs_b, loose=1.0):
    if len(outs_a) != len(outs_b):
        return f"output count {len(outs_a)} vs {len(outs_b)}"
    for i, (a, b) in enumerate(zip(outs_a, outs_b)):
        d = compare_arrays(a, b, loose)
        if d:
            return f"output {i}: {d}"
    return None


def admit(model, feeds, session=None):
    """Run the ORIGINAL model on ORT and the reference evaluator.

    -> (outs, None) when both run and agree; (None, reason) otherwise (nothing is concluded then).
    ``reason`` in {ort-load, ort-run, ref-load, ref-run, disagree}.  When only ORT can run the model the
    pair is still admitted if ``ref`` failed to *load/implement* (not when it produced a different value).
    """
    try:
        o = run_ort(model, feeds, session)
    except RunError as e:
        return None, "ort-" + e.kind
    try:
        r = run_ref(model, feeds)
    except RunError as e:
        return None, "ref-" + e.kind
    except Exception:  # noqa: BLE001
        return None, "ref-crash"
    d = compare(o, r, loose=10.0)
    if d:
        return None, "disagree"
    return o, None


def describe(arr):
    if isinstance(arr, (list, tuple)):
        return [describe(a) for a in arr]
    a = np.asarray(arr)
    return {"dtype": str(a.dtype), "shape": list(a.shape), "values": a.ravel()[:12].tolist() if a.dtype.kind != "O" else [str(x) for x in a.ravel()[:12]]}
