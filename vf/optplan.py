"""Enumeration of optimizer cases (C03/C04) over vf.mz, corpus lifting, and finding keys.

Families (each explored with the choice-tree explorer, its own deviation bound):

  single   one optimizer-visible node (every config of mz.CONFIGS), deviations over: primary kind / shape /
           source, each pooled operand's (value x source) jointly, wrapper (+ where the wrapper's operands
           and the If condition live), opset, API, each option, entry form, value_info present
  pair     producer -> consumer, consumer op in the live optimizer alphabet, everything at default
  rulepair producer -> consumer where (producer op, consumer op) are adjacent in a live default rewrite rule
           pattern or both have partial evaluators; deviations over operand values
  shape3   Shape/Size -> shape computation -> shape computation / consumer (the symbolic-dim evaluators)
  tmpl     hand-written DAG templates for multi-input rule patterns (SlicesSplit, ScatterAllDynamic,
           two-reshape MatMul) with their parameters
  corpus   ONNX backend node tests lifted (inputs -> initializers ...), recorded outputs as extra oracle
  wrapped_folded  one node with ALL operands constant inside every wrapper form, including the composed / repeated
           ones (two If / Loop / call instances whose sibling bodies reuse inner names; constant-condition If
           inside a function / Loop body / If branch), x constants as Constant nodes or branch-owned initializers
           x inline {True, False}
  single_cform    one node x Constant attribute form (value_float(s)/value_int(s)/value_string(s), sparse_value) x
           primary value runtime input / constant
  regpair_old     partial-evaluator op -> partial-evaluator op at the opsets below the first version of the node
           forms the evaluators emit (Constant value_int(s): 12, axes-as-input: 13)
"""
from __future__ import annotations

import glob
import os

import numpy as np
import onnx
from onnx import numpy_helper as nh

from vf import explore, mz, optrun

# ------------------------------------------------------------------------------------------------
# menus
# ------------------------------------------------------------------------------------------------
# wrapper menu: (wrap, where default-source operands go, If-condition source)
WRAPM = [("none", "as-is", "const"),
         ("if_then", "as-is", "const"), ("if_else", "as-is", "const"), ("loop", "as-is", "const"),
         ("func", "as-is", "const"),
         ("if_then", "outer", "const"), ("if_then", "init", "const"), ("if_else", "init", "init"),
         ("if_then", "as-is", "init"), ("if_then", "as-is", "init_in"), ("if_else", "as-is", "init_in"),
         ("if_then", "as-is", "input"), ("if_then", "init_in", "const"),
         ("loop", "outer", "const"), ("loop", "init", "const"), ("loop", "init_in", "const"),
         ("func", "outer", "const"), ("func", "init", "const"), ("func", "input", "const")]
# composed / repeated wrappers (appended: picks of the entries above are unchanged)
WRAPM_EXT = [(w, "as-is", "const") for w in mz.WRAPS_EXT] + [("if_then*2", "init", "const"), ("func_if", "init", "const"),
                                                             ("if_then*2", "outer", "const"), ("loop*2", "init", "const")]
WRAPM = WRAPM + WRAPM_EXT
OP_SRCS = ["const", "init", "init_in", "input"]


def _kinds(c):
    ks = list(c.kin)
    if "F2" in ks:
        ks.remove("F2")
        ks.insert(0, "F2")
    return ks


def live_ops():
    return mz.live_alphabet()["ops"]


_PRODUCERS_OF = {}


def producers_of(kind, first_per_op=False):
    """configs producing a value of a kind that only exists as a node output (Q sequence, O optional) from an F2 value"""
    if kind not in _PRODUCERS_OF:
        _PRODUCERS_OF[kind] = [c.id for c in mz.CONFIGS if c.kout == kind and "F2" in c.kin]
    if first_per_op:
        seen, out = set(), []
        for cid in _PRODUCERS_OF[kind]:
            key = (mz.BY_ID[cid].op, len(mz.BY_ID[cid].ops))   # first config per (op, arity)
            if key not in seen:
                seen.add(key)
                out.append(cid)
        return out
    return _PRODUCERS_OF[kind]


def q_producers():
    return producers_of("Q")


_CFG_OPSETS = {}


def cfg_opsets(c):
    """Opset menu of a config (entry 0 = its default).  For ops with a partial evaluator in the live registry the menu
    is extended with every version at which the op's schema changed (down to the oldest opset the op exists in), the
    opsets just below the first version of the node forms the evaluators emit (Constant value_int(s): 12 -> 11; axes
    as input / Split(split input): 13 -> 12; Split(num_outputs): 18 -> 17) and the newest opset the runtimes support.
    A config whose form does not exist at an opset does not build (skipped as gen-invalid and counted)."""
    if c.id not in _CFG_OPSETS:
        menu = list(c.opsets)
        if c.op in set(mz.live_alphabet()["registry"]):
            since = sorted({sch.since_version for sch in onnx.defs.get_all_schemas_with_history()
                            if sch.name == c.op and sch.domain == ""})
            extra = sorted(set(v for v in since if v <= 23) | {v for v in (11, 12, 17, 23) if v >= since[0]})
            menu += [v for v in extra if v not in menu]
        _CFG_OPSETS[c.id] = menu
    return _CFG_OPSETS[c.id]


def _cform_applies(c, steps_ops, xkind_t, xsrc, form, srcs_const=("const", "outer")):
    """Is there an operand written as a Constant node to which the attribute form applies?"""
    for j, pj in enumerate(c.pooled):
        vi, src = steps_ops[j]
        if src in srcs_const and mz.const_form_applies(c.ops[pj][vi], form):
            return True
    if xsrc == "const" and xkind_t is not None:
        label, t, shape = xkind_t
        return mz.const_form_applies({"t": t, "s": mz.x_concrete(shape)}, form)
    return False


def _operand_choices(ch, c, label, srcs=OP_SRCS, values=True):
    sel = []
    for j, pj in enumerate(c.pooled):
        pool = c.ops[pj]
        menu = [(v, s) for v in (range(len(pool)) if values else [0]) for s in srcs]
        vi, s = ch.choose(f"{label}.{c.roles[j]}", menu)
        sel.append([vi, s])
    return sel


LEAN_WRAPM = [WRAPM[0], WRAPM[1], WRAPM[3], WRAPM[4], WRAPM[9], WRAPM[13]]
LEAN_OPTS = {"num_iterations": [2, 1], "onnx_shape_inference": [True, False], "inline": [True, False]}


def _tail_choices(ch, opsets=(18,), tier="quick", wrap=True, api=True, lean=False, extras=False):
    """wrapper / opset / API / options / entry / value_info dimensions (all deviations).
    lean: the reduced menus used where the deviation bound is 2 (pairs of deviations)."""
    w = ch.choose("wrap", LEAN_WRAPM if lean else WRAPM) if wrap else WRAPM[0]
    opset = ch.choose("opset", list(opsets))
    a = ch.choose("api", ["optimize", "fold_constants", "rewrite"] if lean else optrun.APIS) if api else "optimize"
    opts = {}
    for k, menu in (LEAN_OPTS if lean else optrun.OPT_MENU).items():
        v = ch.choose("opt." + k, menu)
        if v != menu[0]:
            opts[k] = v
    entry = "proto" if lean else ch.choose("entry", ["proto", "ir"])
    vi = False if lean else ch.choose("value_info", [False, True])
    d = dict(wrap=list(w), opset=opset, api=a, opts=opts, entry=entry, vi=vi)
    if extras:
        # Constant attribute form of the operands written as Constant nodes; two graph outputs aliasing one value
        d["cform"] = ch.choose("cform", mz.C_FORMS)
        d["outs"] = ch.choose("outs", ["last", "dup"])
    return d


def make_drv_single(lean=False):
    def drv(ch):
        cid = ch.all("cfg", [c.id for c in mz.CONFIGS])
        c = mz.BY_ID[cid]
        kind = ch.choose("kind", _kinds(c))
        steps = []
        xkind = kind
        if kind in mz.PRODUCED_KINDS:
            pid = ch.all("qprod" if kind == "Q" else "oprod", producers_of(kind))
            steps.append({"cfg": pid, "ops": [[0, "const"] for _ in mz.BY_ID[pid].pooled]})
            xkind = "F2"
        xi = ch.choose("xshape", list(range(len(mz.X_SHAPES[xkind]))))
        xsrc = ch.choose("xsrc", mz.X_SRCS)
        steps.append({"cfg": cid, "ops": _operand_choices(ch, c, "op", srcs=["const", "init_in"] if lean else OP_SRCS)})
        it = dict(fam="single", steps=steps, x=[xkind, xi], xsrc=xsrc)
        it.update(_tail_choices(ch, opsets=c.opsets if lean else cfg_opsets(c), lean=lean, extras=not lean))
        if it.get("cform", "value") != "value" and not _cform_applies(
                c, steps[-1]["ops"], mz.X_SHAPES[xkind][xi], xsrc, it["cform"],
                srcs_const=("const", "outer") if it["wrap"][1] in ("as-is", "outer") else ("outer",)):
            raise explore.Prune()
        return it
    return drv


drv_single = make_drv_single(False)


def drv_single_folded(ch):
    """Every config with ALL operands constant (so the node reaches the generic folding path) x both constant sources of
    the primary value x the size limits exhaustively (cost 0): a seeded defect needed an omitted middle optional input
    (Clip(c, , max)) together with a small output_size_limit."""
    cid = ch.all("cfg", [c.id for c in mz.CONFIGS])
    c = mz.BY_ID[cid]
    kind = _kinds(c)[0]
    steps = []
    if kind in mz.PRODUCED_KINDS:
        # sequence / optional typed values built from constants: producer -> consumer, everything constant
        pid = ch.all("qprod" if kind == "Q" else "oprod", producers_of(kind, first_per_op=True))
        steps.append({"cfg": pid, "ops": [[0, "const"] for _ in mz.BY_ID[pid].pooled]})
        kind = "F2"
    xsrc = ch.all("xsrc", ["const", "init"])
    steps.append({"cfg": cid, "ops": [[0, "const"] for _ in c.pooled]})
    it = dict(fam="single_folded", steps=steps, x=[kind, 0], xsrc=xsrc)
    opts = {}
    for k in ("input_size_limit", "output_size_limit"):
        v = ch.all("opt." + k, optrun.OPT_MENU[k])
        if v is not None:
            opts[k] = v
    it.update(dict(wrap=list(WRAPM[0]), opset=18 if 18 in c.opsets else c.opsets[0], api=ch.all("api", ["optimize", "fold_constants"]),
                   opts=opts, entry="proto", vi=False))
    return it


WF_WRAPS = ["if_then", "loop", "func"] + mz.WRAPS_EXT


def _representative_cfgs():
    """first config of every (op, number of outputs, first primary kind)"""
    seen, out = set(), []
    for c in mz.CONFIGS:
        key = (c.op, c.nout, _kinds(c)[0])
        if key not in seen:
            seen.add(key)
            out.append(c.id)
    return out


KEEP_ALIVE = "Where.rpp"   # Where(runtime condition, v, v): type-generic, never folded


def make_drv_wrapped_folded(representative):
    """One node followed by Where(runtime cond, v, v) (so that the node's - possibly folded - value is a live
    INTERMEDIATE value of the wrapped body, with an inner name) inside every wrapper form (plain, repeated twice with sibling bodies reusing the inner names,
    constant-condition If nested in a function / Loop body / If branch) x where the node's inputs live (all constant:
    Constant nodes next to the node | initializers owned by the enclosing graph body; or the primary value a runtime
    input and the other operands body-owned initializers) x inline {True, False}, all exhaustive.  This is where the
    folder inlines constant-condition If nodes, registers folded initializers in the graph that holds the node, and
    moves branch-owned initializers."""
    cfgs = _representative_cfgs() if representative else [c.id for c in mz.CONFIGS]

    def drv(ch):
        cid = ch.all("cfg", cfgs)
        c = mz.BY_ID[cid]
        kind = _kinds(c)[0]
        steps = []
        pkind = kind
        if kind in mz.PRODUCED_KINDS:
            pid = producers_of(kind)[0]
            steps.append({"cfg": pid, "ops": [[0, "const"] for _ in mz.BY_ID[pid].pooled]})
            kind = "F2"
        w = ch.all("wrap", WF_WRAPS)
        csrc = ch.all("csrc", ["const", "init", "x+init"])
        inline = ch.all("inline", [True, False])
        if csrc == "x+init" and not c.pooled:
            raise explore.Prune()   # no constant operand at all
        steps.append({"cfg": cid, "ops": [[0, "const"] for _ in c.pooled]})
        ref_step = len(steps) - 1
        ok = c.out_kind(pkind)
        if ok is not None and ok not in mz.PRODUCED_KINDS:   # any tensor-typed value
            steps.append({"cfg": KEEP_ALIVE, "ops": []})
        it = dict(fam="wrapped_folded", steps=steps, x=[kind, 0], xsrc="in" if csrc == "x+init" else csrc, ref_step=ref_step)
        it.update(dict(wrap=[w, "as-is" if csrc == "const" else "init", "const"], opset=18 if 18 in c.opsets else c.opsets[0],
                       api="optimize", opts={} if inline else {"inline": False}, entry="proto", vi=False))
        return it
    return drv


def drv_single_cform(ch):
    """Every config x Constant attribute form (attr: value_float(s) / value_int(s) / value_string(s); sparse_value) x the
    primary value a runtime input | a Constant node (then the node is folded from attribute-form constants)."""
    cid = ch.all("cfg", [c.id for c in mz.CONFIGS if _kinds(c)[0] not in mz.PRODUCED_KINDS])
    c = mz.BY_ID[cid]
    kind = _kinds(c)[0]
    form = ch.all("cform", mz.C_FORMS[1:])
    xsrc = ch.all("xsrc", ["in", "const"])
    ops = [[0, "const"] for _ in c.pooled]
    if not _cform_applies(c, ops, mz.X_SHAPES[kind][0], xsrc, form):
        raise explore.Prune()   # no Constant node of this model can be written in this form
    it = dict(fam="single_cform", steps=[{"cfg": cid, "ops": ops}], x=[kind, 0], xsrc=xsrc, cform=form)
    it.update(dict(wrap=list(WRAPM[0]), opset=18 if 18 in c.opsets else c.opsets[0], api="optimize", opts={}, entry="proto",
                   vi=False))
    return it


def regpair_old_list():
    """producer -> consumer with BOTH ops in the live partial-evaluator registry (first two configs per consumer op and
    first primary kind, representative producers)"""
    reg = set(mz.live_alphabet()["registry"])
    out = []
    n_op = {}
    prods = [p for p in _producers(True) if p.op in reg]
    for c in mz.CONFIGS:
        if c.op not in reg:
            continue
        n_op[(c.op, _kinds(c)[0])] = n_op.get((c.op, _kinds(c)[0]), 0) + 1
        if n_op[(c.op, _kinds(c)[0])] > 2:
            continue
        for p in prods:
            k = _compatible(p, c)
            if k is not None:
                out.append((p.id, c.id, k))
    return out


def drv_regpair_old(ch):
    """(consumer operand VALUES are a deviation dimension: bound 0 in quick = defaults, bound 1 in thorough)"""
    pid, cid, k = ch.all("pair", regpair_old_list())
    p, c = mz.BY_ID[pid], mz.BY_ID[cid]
    opset = ch.all("opset", [11, 12, 17])
    xi = ch.all("xshape", [0, 1] if len(mz.X_SHAPES[k]) > 1 else [0])   # static | leading dim symbolic
    steps = [{"cfg": pid, "ops": [[0, "const"] for _ in p.pooled]},
             {"cfg": cid, "ops": _operand_choices(ch, c, "c", srcs=["const"], values=True)}]
    it = dict(fam="regpair_old", steps=steps, x=[k, xi], xsrc="in", outs="last")
    it.update(dict(wrap=list(WRAPM[0]), opset=opset, api="optimize", opts={}, entry="proto", vi=False))
    return it


def _compatible(p, c):
    """First primary kind of producer p whose output kind the consumer c accepts."""
    for k in _kinds(p):
        if k in mz.PRODUCED_KINDS:
            continue
        ok = p.out_kind(k)
        if ok is not None and ok in c.kin:
            return k
    return None


def _producers(representative):
    out = []
    seen = set()
    for p in mz.CONFIGS:
        if representative:
            key = (p.op, p.kout, p.kin[0])
            if key in seen:
                continue
            seen.add(key)
        out.append(p)
    return out


def pair_list(representative, per_op=None):
    live = live_ops()
    out = []
    prods = _producers(representative)
    n_op = {}
    for c in mz.CONFIGS:
        if c.op not in live:
            continue
        n_op[c.op] = n_op.get(c.op, 0) + 1
        if per_op is not None and n_op[c.op] > per_op:
            continue
        for p in prods:
            k = _compatible(p, c)
            if k is None:
                continue
            if 18 not in p.opsets or 18 not in c.opsets:
                continue
            out.append((p.id, c.id, k))
    return out


ALIAS_PRODUCERS = ("Identity", "Cast", "CastLike", "Reshape", "Squeeze", "Unsqueeze", "Transpose", "Flatten", "Expand",
                   "Neg", "Abs", "Relu")


def make_drv_pair(pairs, values, fam="pair", consumer_srcs=("const", "init_in"), xsrc="in"):
    def drv(ch):
        pid, cid, k = ch.all("pair", pairs)
        p, c = mz.BY_ID[pid], mz.BY_ID[cid]
        xi = ch.choose("xshape", [0, 1] if len(mz.X_SHAPES[k]) > 1 else [0])
        steps = [{"cfg": pid, "ops": _operand_choices(ch, p, "p", srcs=["const"], values=values)},
                 {"cfg": cid, "ops": _operand_choices(ch, c, "c", srcs=list(consumer_srcs) if values else ["const"],
                                                      values=values)}]
        outs = ch.choose("outs", ["last", "all"])
        it = dict(fam=fam, steps=steps, x=[k, xi], xsrc=xsrc, outs=outs)
        it.update(dict(wrap=list(WRAPM[0]), opset=18, api="optimize", opts={}, entry="proto", vi=False))
        return it
    return drv


def alias_pair_list():
    """producer->consumer pairs whose producer is an op the folder turns into (or tracks as) an alias of its input"""
    return [(pid, cid, k) for (pid, cid, k) in pair_list(True, per_op=2) if mz.BY_ID[pid].op in ALIAS_PRODUCERS]


def overridable_operand_pair_list(representative):
    """producer->consumer pairs whose producer takes a pooled (non-primary) operand and whose consumer observes the
    producer's output SHAPE (Shape / Size) or passes it on (Identity): with the operand an overridable initializer its
    default must not leak into shape inference (seeded C04e: Reshape(x, shp) -> Shape folded to the default of shp)."""
    out = []
    for (pid, cid, k) in pair_list(representative):
        p, c = mz.BY_ID[pid], mz.BY_ID[cid]
        if p.pooled and c.op in ("Shape", "Size", "Identity") and not c.pooled:
            out.append((pid, cid, k))
    return out


def make_drv_pair_ovr(pairs, values):
    def drv(ch):
        pid, cid, k = ch.all("pair", pairs)
        p, c = mz.BY_ID[pid], mz.BY_ID[cid]
        xi = ch.choose("xshape", [0, 1] if len(mz.X_SHAPES[k]) > 1 else [0])
        steps = [{"cfg": pid, "ops": _operand_choices(ch, p, "p", srcs=["init_in"], values=values)},
                 {"cfg": cid, "ops": []}]
        outs = ch.choose("outs", ["all", "last"])
        it = dict(fam="pair_overridable_operand", steps=steps, x=[k, xi], xsrc="in", outs=outs)
        it.update(dict(wrap=list(WRAPM[0]), opset=18, api="optimize", opts={}, entry="proto", vi=False))
        return it
    return drv


def rule_adjacent():
    """(producer op, consumer op) adjacent in a live rule pattern, plus registry x registry op pairs."""
    live = mz.live_alphabet()
    adj = set()
    for _, ops in live["rules"]:
        for a, b in zip(ops, ops[1:]):
            adj.add((a, b))
    return adj, set(live["registry"])


def rulepair_list(with_registry):
    adj, reg = rule_adjacent()
    out = []
    for c in mz.CONFIGS:
        for p in mz.CONFIGS:
            if (p.op, c.op) in adj or (with_registry and p.op in reg and c.op in reg and p.op != "Identity"
                                       and c.op != "Identity"):
                k = _compatible(p, c)
                if k is None or 18 not in p.opsets or 18 not in c.opsets:
                    continue
                out.append((p.id, c.id, k))
    return out


def shape3_list(last_registry_only):
    reg = set(mz.live_alphabet()["registry"])
    firsts = [c for c in mz.CONFIGS if c.op in ("Shape", "Size") and "F2" in c.kin]   # the chain's x is an F2 value
    mids = [c for c in mz.CONFIGS if any(k in c.kin for k in ("S1", "S0")) and c.op not in ("Shape", "Size")]
    out = []
    for a in firsts:
        ka = a.kout
        for b in mids:
            if ka not in b.kin:
                continue
            kb = b.out_kind(ka)
            if kb is None:
                continue
            for c in mids:
                if kb not in c.kin:
                    continue
                if last_registry_only and c.op not in reg:
                    continue
                out.append((a.id, b.id, c.id))
    return out


def make_drv_shape3(triples, values):
    def drv(ch):
        a, b, c = ch.all("triple", triples)
        xi = ch.choose("xshape", [1, 0, 5])   # symbolic N x 3 first: that is where symbolic dims arise
        steps = [{"cfg": a, "ops": []}]
        for lab, cid in (("b", b), ("c", c)):
            steps.append({"cfg": cid, "ops": _operand_choices(ch, mz.BY_ID[cid], lab, srcs=["const"], values=values)})
        it = dict(fam="shape3", steps=steps, x=["F2", xi], xsrc="in", outs="last")
        it.update(dict(wrap=list(WRAPM[0]), opset=18, api="optimize", opts={}, entry="proto", vi=False))
        return it
    return drv


# ---- templates (multi-input rule patterns) ---------------------------------------------------------------
def _c(t, src="const"):
    return {"c": t, "src": src}


def drv_tmpl(ch):
    name = ch.all("tmpl", ["slices_split", "scatter_dynamic", "two_reshape_matmul", "expand_binary", "if_nested_fold",
                           "shared_const", "shared_shape", "cast_chain"])
    i, f = mz.i, mz.f
    if name == "slices_split":
        last = ch.all("last", [4, 6, 5, "N"])
        mid = ch.all("mid", [2, 3, 1])
        e1 = ch.all("end1", ["last", "max", "less"])
        ax = ch.all("axis", [-1, 1, 0])
        src = ch.choose("src", ["const", "init", "init_in"])
        L = last if isinstance(last, int) else 4
        end1 = L if e1 == "last" else mz.INT64_MAX if e1 == "max" else L - 1
        nodes = [{"op": "Slice", "i": [{"x": "x"}, _c(i([0]), src), _c(i([mid]), src), _c(i([ax]), src)]},
                 {"op": "Slice", "i": [{"x": "x"}, _c(i([mid]), src), _c(i([end1]), src), _c(i([ax]), src)]}]
        spec = {"ins": [["x", "f32", [2, last]]], "nodes": nodes, "outs": [{"n": 0}, {"n": 1}]}
        bind = {"N": 4}
    elif name == "scatter_dynamic":
        axis = ch.all("axis", [0, 1, -1])
        xs = ch.all("xshape", [["N", 3], [2, 3], ["N", "N"], ["N", "M"], [3, "N"]])
        red = ch.all("reduction", ["none", None, "add"])
        ush = ch.all("upd", ["same", "row"])
        asrc = ch.choose("asrc", ["const", "init", "init_in"])
        # transposed data = x itself (axis 0) ; updates = second input with the same declared shape
        att = {} if red is None else {"reduction": red}
        nodes = [{"op": "Shape", "a": {"start": 0}, "i": [{"x": "x"}]},
                 {"op": "Gather", "a": {"axis": 0}, "i": [{"n": 0}, _c(i(axis), asrc)]},
                 {"op": "Range", "i": [_c(i(0)), {"n": 1}, _c(i(1))]},
                 {"op": "Unsqueeze", "i": [{"n": 2}, _c(i([-1]))]},
                 {"op": "ScatterND", "a": att, "i": [{"x": "x"}, {"n": 3}, {"x": "u"}]}]
        ushape = list(xs) if ush == "same" else [xs[0], xs[1]]
        spec = {"ins": [["x", "f32", xs], ["u", "f32", ushape]], "nodes": nodes, "outs": [{"n": 4}]}
        bind = {"N": 3, "M": 3}
    elif name == "two_reshape_matmul":
        a_shape = ch.all("a", [[2, 3], [1, 2, 3], [3], [2, 2, 3]])
        b_shape = ch.all("b", [[3, 2], [1, 3, 2], [3], [2, 3, 2]])
        ra = ch.all("ra", [[1, 2, 3], [2, 3], [1, 1, 3], [2, 2, 3], [1, 3]])
        rb = ch.all("rb", [None, [1, 3, 2], [3, 2], [3, 1]])
        rc = ch.all("rc", [[2, 2], [1, 2, 2], [2], [2, 2, 2], [1, 2], [4]])
        nodes = [{"op": "Reshape", "i": [{"x": "a"}, _c(i(ra))]}]
        if rb is not None:
            nodes.append({"op": "Reshape", "i": [{"x": "b"}, _c(i(rb))]})
            nodes.append({"op": "MatMul", "i": [{"n": 0}, {"n": 1}]})
        else:
            nodes.append({"op": "MatMul", "i": [{"n": 0}, {"x": "b"}]})
        nodes.append({"op": "Reshape", "i": [{"n": len(nodes) - 1}, _c(i(rc))]})
        spec = {"ins": [["a", "f32", a_shape], ["b", "f32", b_shape]], "nodes": nodes, "outs": [{"n": len(nodes) - 1}]}
        bind = {}
    elif name == "expand_binary":
        op = ch.all("op", ["Add", "Mul", "Sub", "Less"])
        xs = ch.all("x", [[1, 3], [3], ["N", 3], [1, 1]])
        ys = ch.all("y", [[2, 3], ["N", 3], [1, 3], [2, 1]])
        es = ch.all("shape", [[2, 3], [1, 3], [2, 1, 3], [1, 1]])
        side = ch.all("side", [0, 1])
        nodes = [{"op": "Expand", "i": [{"x": "x"}, _c(i(es))]},
                 {"op": op, "i": [{"n": 0}, {"x": "y"}] if side == 0 else [{"x": "y"}, {"n": 0}]}]
        spec = {"ins": [["x", "f32", xs], ["y", "f32", ys]], "nodes": nodes, "outs": [{"n": 1}]}
        bind = {"N": 2}
    elif name == "if_nested_fold":
        # constants folded inside a wrapped body whose value feeds an optimizer-relevant op
        op = ch.all("op", ["Add", "Mul", "Concat"])
        w = ch.all("wrap", ["if_then", "if_else", "loop", "func"] + mz.WRAPS_EXT)
        csrc = ch.all("csrc", ["const", "init", "outer", "init_in"])
        no_inline = ch.all("inline", [True, False]) is False
        att = {"axis": 0} if op == "Concat" else {}
        nodes = [{"op": "Neg", "i": [_c(f([[1.0, 2.0, 3.0]]), csrc)]},
                 {"op": op, "a": att, "i": [{"x": "x"}, {"n": 0}]},
                 {"op": "Relu", "i": [{"n": 1}]}]
        spec = {"ins": [["x", "f32", ["N", 3]]], "nodes": nodes, "outs": [{"n": 2}, {"n": 1}], "wrap": w}
        bind = {"N": 2}
    elif name == "cast_chain":
        # Cast(Cast(x: t1, t2), t3) on a typed runtime input, every triple over signed/unsigned/narrow/wide integers,
        # floats and bool: a cast-cast fusion is sound only when t1 -> t2 loses nothing (negatives wrap under a
        # signed -> unsigned cast of any width; seeded C03h)
        t1 = ch.all("t1", ["i8", "i32", "i64", "u8", "f32", "f16", "b"])
        t2 = ch.all("t2", ["u8", "i8", "i32", "i64", "f32", "f16", "f64", "b"])
        t3 = ch.all("t3", ["i32", "i64", "f32", "u8", "b"])
        nodes = [{"op": "Cast", "a": {"to": int(mz.OT[t2])}, "i": [{"x": "x"}]},
                 {"op": "Cast", "a": {"to": int(mz.OT[t3])}, "i": [{"n": 0}]}]
        spec = {"ins": [["x", t1, [2, 3]]], "nodes": nodes, "outs": [{"n": 1}]}
        bind = {}
    elif name == "shared_shape":
        # one shape tensor (given directly or computed from constants by foldable ops, so that after folding it is an
        # in-memory tensor) shared by a Reshape-Reshape chain, a second Reshape of another value and a graph output:
        # a rule that resolves the 0 / -1 entries for ITS chain must not change what the other consumers see
        # (seeded C03f wrote the resolved dims into the shared tensor)
        form = ch.all("form", ["concat", "cast", "identity", "direct", "neg"])
        s2 = ch.all("s2", [[0, -1], [-1, 2], [0, 0], [3, -1], [3, 2]])
        s1 = ch.all("s1", [[3, 2], [6], [1, 3, 2]])
        ys = ch.all("y", [[6, 1], [1, 6], [3, 2]])
        src = ch.choose("src", ["const", "init"])
        if form == "concat":
            pre = [{"op": "Concat", "a": {"axis": 0}, "i": [_c(i([s2[0]]), src), _c(i([s2[1]]), src)]}]
        elif form == "cast":
            pre = [{"op": "Cast", "a": {"to": mz.TP.INT64}, "i": [_c(mz.T("i32", s2), src)]}]
        elif form == "identity":
            pre = [{"op": "Identity", "i": [_c(i(s2), src)]}]
        elif form == "neg":
            pre = [{"op": "Neg", "i": [_c(i([-v for v in s2]), src)]}]
        else:
            pre = []
        k = len(pre)
        sh = {"n": 0} if pre else _c(i(s2), src)
        nodes = pre + [{"op": "Reshape", "i": [{"x": "x"}, _c(i(s1))]},
                       {"op": "Reshape", "i": [{"n": k}, sh]},
                       {"op": "Reshape", "i": [{"x": "y"}, sh]}]
        outs = [{"n": k + 1}, {"n": k + 2}] + ([{"n": 0}] if pre else [])
        spec = {"ins": [["x", "f32", [2, 3]], ["y", "f32", ys]], "nodes": nodes, "outs": outs}
        bind = {}
    else:  # shared_const: one constant feeding two consumers, one of which is folded away
        op = ch.all("op", ["Add", "Mul", "Sub", "Div"])
        v = ch.all("v", [0.0, 1.0])
        src = ch.all("src", ["const", "init", "init_in"])
        nodes = [{"op": "Identity", "i": [_c(f(v), src)]},
                 {"op": op, "i": [{"x": "x"}, {"n": 0}]},
                 {"op": "Add", "i": [{"n": 1}, {"n": 0}]}]
        spec = {"ins": [["x", "f32", [2, 3]]], "nodes": nodes, "outs": [{"n": 2}, {"n": 0}]}
        bind = {}
    for nd in spec["nodes"]:
        nd.setdefault("a", {})
        nd.setdefault("no", 1)
    spec.setdefault("wrap", "none")
    it = dict(fam="tmpl", tmpl=name, spec=spec, bind=bind)
    t = _tail_choices(ch, wrap=False)
    t.pop("wrap")
    it.update(t)
    if name == "if_nested_fold" and no_inline:
        it["opts"] = dict(it["opts"], inline=False)
    return it


# ------------------------------------------------------------------------------------------------
# item -> build spec
# ------------------------------------------------------------------------------------------------
def item_spec(item):
    if "spec" in item:
        spec = dict(item["spec"])
        spec["opset"] = item.get("opset", 18)
        if item.get("vi"):
            spec["keep_value_info"] = True
        return spec
    wrap, mode, wsrc = item.get("wrap", WRAPM[0])
    steps = []
    for st in item["steps"]:
        ops = []
        for (vi, s) in st.get("ops", []):
            if mode != "as-is" and s == "const":
                s = mode
            ops.append([vi, s])
        steps.append({"cfg": st["cfg"], "ops": ops})
    spec = mz.chain_spec(steps, xsel=tuple(item["x"]), xsrc=item.get("xsrc", "in"), wrap=wrap, wsrc=wsrc,
                         opset=item.get("opset", 18), outs=item.get("outs", "last"), keep_vi=item.get("vi", False),
                         cform=item.get("cform", "value"), ref_step=item.get("ref_step"))
    if item.get("fam") == "pair_overridable_operand":
        # the output shapes depend on an operand the caller may override: a static declared output shape (which
        # shape inference derives from the DEFAULT) would contradict the override, so every dim is declared symbolic
        spec["sym_out_dims"] = True
    return spec


def item_label(item):
    if item.get("fam") == "corpus":
        return f"corpus:{item['name']}:{item['lift']}"
    if "spec" in item:
        return f"tmpl:{item.get('tmpl')}"
    return ">".join(st["cfg"] for st in item["steps"])


def chain_ops(item):
    if "steps" in item:
        return ">".join(mz.BY_ID[st["cfg"]].op for st in item["steps"])
    if "spec" in item:
        return ">".join(n["op"] for n in item["spec"]["nodes"])
    return item.get("name", "?")


# ------------------------------------------------------------------------------------------------
# corpus lifting
# ------------------------------------------------------------------------------------------------
def corpus_root():
    import onnx.backend.test
    return os.path.join(os.path.dirname(onnx.backend.test.__file__), "data")


def corpus_names(sub="node"):
    root = os.path.join(corpus_root(), sub)
    return sorted(d for d in os.listdir(root) if os.path.exists(os.path.join(root, d, "model.onnx")))


# synthetic corpus `ifinits`: constant-condition Ifs whose TAKEN branch owns initializers named from {w, w_1, w_2} while the
# receiving graph (or an earlier inlined sibling branch) already owns some of those names - the renaming that moving branch
# initializers to the enclosing graph needs (seeded C04g chose all new names before registering any: w -> w_1 collided with
# the branch's own w_1 and optimize() raised).  Every combination is enumerated.
_IFI_OUTER = [[], ["w"], ["w_1"], ["w", "w_1"]]
_IFI_B1 = [["w"], ["w_1"], ["w", "w_1"], ["w", "w_2"], ["w_1", "w_2"], ["w", "w_1", "w_2"], ["w_1", "w"]]
_IFI_B2 = [None, ["w"], ["w", "w_1"], ["w_1", "w_2"]]


def ifinits_names():
    out = []
    for o in _IFI_OUTER:
        for b1 in _IFI_B1:
            for b2 in _IFI_B2:
                for taken in ("then", "else"):
                    out.append(f"outer={'+'.join(o) or '-'};b1={'+'.join(b1)};b2={'+'.join(b2) if b2 else '-'};{taken}")
    return out


def ifinits_case(name):
    """-> (model, real_inputs, [input arrays], None)"""
    parts = dict(p.split("=") for p in name.split(";")[:3])
    taken = name.split(";")[3]
    names = lambda s: [] if s == "-" else s.split("+")   # noqa: E731
    oh, TP = onnx.helper, onnx.TensorProto
    vi = lambda n: oh.make_tensor_value_info(n, TP.FLOAT, [4])   # noqa: E731
    val = lambda level, k: nh.from_array(np.array([1, 2, 3, 4], np.float32) * (0.5 + level) + k, "")   # noqa: E731

    def named(t, n):
        t.name = n
        return t
    nodes = [oh.make_node("Constant", [], ["cond"], value=nh.from_array(np.array(taken == "then"), "cond_v"), name="cnd")]
    inits = []
    cur = "x"
    for k, n in enumerate(names(parts["outer"])):
        inits.append(named(val(0, k), n))
        nodes.append(oh.make_node("Add", [cur, n], [f"o{k}"], name=f"oadd{k}"))
        cur = f"o{k}"

    def branch(level, src, own, out):
        bn, bi = [], []
        c = src
        for k, n in enumerate(own):
            bi.append(named(val(level, k), n))
            bn.append(oh.make_node("Mul" if k % 2 == 0 else "Add", [c, n], [f"{out}_{k}"], name=f"{out}_n{k}"))
            c = f"{out}_{k}"
        bn.append(oh.make_node("Identity", [c], [out], name=f"{out}_id"))
        return oh.make_graph(bn, out + "_g", [], [vi(out)], initializer=bi)

    def other(src, out):
        return oh.make_graph([oh.make_node("Neg", [src], [out], name=out + "_neg")], out + "_g", [], [vi(out)])
    for level, key in ((1, "b1"), (2, "b2")):
        own = names(parts[key])
        if not own:
            continue
        tb, eb = branch(level, cur, own, f"t{level}"), other(cur, f"e{level}")
        if taken == "else":
            tb, eb = other(cur, f"t{level}"), branch(level, cur, own, f"e{level}")
        nodes.append(oh.make_node("If", ["cond"], [f"r{level}"], name=f"if{level}", then_branch=tb, else_branch=eb))
        cur = f"r{level}"
    nodes.append(oh.make_node("Identity", [cur], ["z"], name="fin"))
    g = oh.make_graph(nodes, "ifinits", [vi("x")], [vi("z")], initializer=inits)
    m = oh.make_model(g, opset_imports=[oh.make_opsetid("", 18)], ir_version=10)
    return m, [vi("x")], [np.array([1.0, -2.0, 0.5, 3.0], np.float32)], None


def load_corpus_case(name, sub="node"):
    """-> (model, [input arrays or None], [output arrays or None]); None marks a non-tensor value."""
    if sub == "ifinits":
        return ifinits_case(name)
    d = os.path.join(corpus_root(), sub, name)
    model = onnx.load(os.path.join(d, "model.onnx"))
    ds = os.path.join(d, "test_data_set_0")

    def load(prefix, infos):
        out = []
        for k, info in enumerate(infos):
            p = os.path.join(ds, f"{prefix}_{k}.pb")
            if not os.path.exists(p) or info.type.WhichOneof("value") != "tensor_type":
                out.append(None)
                continue
            t = onnx.TensorProto()
            with open(p, "rb") as fh:
                t.ParseFromString(fh.read())
            try:
                out.append(nh.to_array(t))
            except Exception:  # noqa: BLE001
                out.append(None)
        return out
    init_names = {t.name for t in model.graph.initializer}
    real_inputs = [v for v in model.graph.input if v.name not in init_names]
    return model, real_inputs, load("input", real_inputs), load("output", list(model.graph.output))


def lift(model, real_inputs, values, how):
    """-> (lifted model, feeds) or raises ValueError(reason)."""
    m = onnx.ModelProto()
    m.CopyFrom(model)
    if how == "asis":
        if any(v is None for v in values):
            raise ValueError("non-tensor-input")
        return m, {v.name: a for v, a in zip(real_inputs, values)}
    if any(v is None for v in values):
        raise ValueError("non-tensor-input")
    if how in ("init", "init_in", "const"):
        names = [v.name for v in real_inputs]
        keep = [v for v in m.graph.input if v.name not in names]
        typed = {v.name: v for v in m.graph.input}
        if how != "init_in":
            del m.graph.input[:]
            m.graph.input.extend(keep)
        if how == "const":
            consts = [onnx.helper.make_node("Constant", [], [n], value=_tensor_like(typed[n], a, n))
                      for n, a in zip(names, values)]
            rest = list(m.graph.node)
            del m.graph.node[:]
            m.graph.node.extend(consts + rest)
        else:
            for n, a in zip(names, values):
                m.graph.initializer.append(_tensor_like(typed[n], a, n))
        return m, {}
    if how in ("if_then", "if_else"):
        # the whole model (inputs turned into initializers) becomes the TAKEN branch of an If whose condition is a
        # constant; the other branch computes outputs of the same types from a renamed copy. Exercises the branch
        # inlining of the folder (moving subgraph initializers, renaming, output rewiring) on every corpus model.
        m, _ = lift(model, real_inputs, values, "init")
        g = m.graph
        if any(a.type in (onnx.AttributeProto.GRAPH, onnx.AttributeProto.GRAPHS) for n in g.node for a in n.attribute):
            raise ValueError("has-subgraph")
        if any(o.type.WhichOneof("value") != "tensor_type" for o in g.output) or g.sparse_initializer:
            raise ValueError("non-tensor-output")

        def branch(suffix, name):
            defined = {t.name for t in g.initializer} | {o for n in g.node for o in n.output if o}
            ren = lambda x: (x + suffix) if x in defined else x   # noqa: E731
            nodes = []
            for n in g.node:
                n2 = onnx.NodeProto()
                n2.CopyFrom(n)
                del n2.input[:]
                del n2.output[:]
                n2.input.extend(ren(x) for x in n.input)
                n2.output.extend(ren(x) for x in n.output)
                if n2.name:
                    n2.name = n2.name + suffix
                nodes.append(n2)
            inits = []
            for t in g.initializer:
                t2 = onnx.TensorProto()
                t2.CopyFrom(t)
                t2.name = ren(t.name)
                inits.append(t2)
            outs = []
            for o in g.output:
                o2 = onnx.ValueInfoProto()
                o2.CopyFrom(o)
                o2.name = ren(o.name)
                outs.append(o2)
            if any(o.name in {i.name for i in g.input} for o in g.output) or any(o.name not in defined for o in g.output):
                raise ValueError("output-not-produced")
            return onnx.helper.make_graph(nodes, name, [], outs, initializer=inits)

        cond = nh.from_array(np.array(how == "if_then"), "vf_if_cond")
        ifn = onnx.helper.make_node("If", ["vf_if_cond"], [o.name for o in g.output], name="vf_if",
                                    then_branch=branch("__t", "vf_then"), else_branch=branch("__e", "vf_else"))
        g2 = onnx.helper.make_graph([ifn], g.name or "g", [], list(g.output), initializer=[cond])
        m2 = onnx.ModelProto()
        m2.CopyFrom(m)
        m2.graph.CopyFrom(g2)
        return m2, {}
    raise ValueError("unknown lift " + how)


def _tensor_like(vinfo, a, name):
    et = vinfo.type.tensor_type.elem_type
    try:
        want = onnx.helper.tensor_dtype_to_np_dtype(et)
    except Exception:  # noqa: BLE001
        want = None
    if want is not None and a.dtype == want:
        return nh.from_array(a, name)
    # exotic dtypes (bfloat16, float8, int4...): keep the raw recorded tensor encoding
    t = nh.from_array(a, name)
    if t.data_type != et:
        raise ValueError("dtype-not-liftable")
    return t


# ------------------------------------------------------------------------------------------------
# plans
# ------------------------------------------------------------------------------------------------
def _run(driver, bound, st_all, label, max_leaves=None):
    st = explore.Stats()
    items = [case for _, case in explore.explore(driver, bound=bound, stats=st, max_leaves=max_leaves)]
    d = st.as_dict()
    d["dimensions"] = {k: len(v) for k, v in st.dim_hist.items()}
    st_all[label] = d
    return items


def plan_c03(tier, with_corpus=True):
    fam = {}
    items = []
    if tier == "quick":
        items += _run(drv_single, 1, fam, "single")
        items += _run(drv_single_folded, 0, fam, "single_folded")
        items += _run(make_drv_pair(pair_list(True, per_op=2), False), 0, fam, "pair")
        # the primary value is an overridable initializer (initializer that is also a graph input) reaching the
        # consumer through an alias-like producer: a seeded defect folded Add(Identity(c), Identity(c))
        items += _run(make_drv_pair(alias_pair_list(), False, "pair_alias_of_overridable", xsrc="init_in"), 0, fam,
                      "pair_alias_of_overridable")
        items += _run(make_drv_pair_ovr(overridable_operand_pair_list(True), False), 0, fam, "pair_overridable_operand")
        items += _run(make_drv_pair(rulepair_list(False), True, "rulepair", consumer_srcs=["const"]), 1, fam, "rulepair")
        items += _run(make_drv_shape3(shape3_list(True), False), 0, fam, "shape3")
        items += _run(drv_tmpl, 0, fam, "tmpl")
        items += _run(make_drv_wrapped_folded(True), 0, fam, "wrapped_folded")
        items += _run(drv_single_cform, 0, fam, "single_cform")
        items += _run(drv_regpair_old, 0, fam, "regpair_old")
        lifts = ["init", "if_then"]
    else:
        items += _run(drv_single, 1, fam, "single")
        items += _run(drv_single_folded, 0, fam, "single_folded")
        items += _run(make_drv_single(lean=True), 2, fam, "single_pairs_of_deviations")
        items += _run(make_drv_pair(pair_list(False), False), 1, fam, "pair")
        items += _run(make_drv_pair_ovr(overridable_operand_pair_list(False), True), 1, fam, "pair_overridable_operand")
        items += _run(make_drv_pair(rulepair_list(True), True, "rulepair"), 1, fam, "rulepair")
        items += _run(make_drv_shape3(shape3_list(False), True), 1, fam, "shape3")
        items += _run(drv_tmpl, 1, fam, "tmpl")
        items += _run(make_drv_wrapped_folded(False), 0, fam, "wrapped_folded")
        items += _run(drv_single_cform, 0, fam, "single_cform")
        items += _run(drv_regpair_old, 1, fam, "regpair_old")
        lifts = ["init", "asis", "const", "init_in", "if_then", "if_else"]
    if with_corpus:
        names = corpus_names("node")
        cit = [dict(fam="corpus", sub="node", name=n, lift=l, api="optimize", opts={}, entry="proto")
               for l in lifts for n in names]
        # the converted models shipped with onnx (simple / pytorch-operator / pytorch-converted: multi-node graphs);
        # quick: inputs -> initializers only
        for sub in ("simple", "pytorch-operator", "pytorch-converted"):
            cit += [dict(fam="corpus", sub=sub, name=n, lift=l, api="optimize", opts={}, entry="proto")
                    for l in (("init",) if tier == "quick" else ("init", "asis")) for n in corpus_names(sub)]
        cit += [dict(fam="corpus", sub="ifinits", name=n, lift="asis", api="optimize", opts={}, entry="proto")
                for n in ifinits_names()]
        fam["corpus"] = dict(states=len(cit) + 1, transitions=len(cit), leaves=len(cit), pruned=0, capped=False,
                             bound=0, dimensions={"model": len(set(i["name"] for i in cit)), "lift": len(lifts)})
        items += cit
    stats = dict(states=sum(f["states"] for f in fam.values()), transitions=sum(f["transitions"] for f in fam.values()),
                 leaves=sum(f["leaves"] for f in fam.values()), pruned=sum(f["pruned"] for f in fam.values()),
                 capped=any(f["capped"] for f in fam.values()), bound={k: f["bound"] for k, f in fam.items()},
                 families=fam)
    stats["exhaustive"] = not stats["capped"]
    stats["dimensions"] = {f"{k}.{d}": n for k, f in fam.items() for d, n in f["dimensions"].items()}
    stats["alphabet"] = mz.coverage_of_live_alphabet()
    items = apply_debug_filter(items, stats)
    return items, stats


def apply_debug_filter(items, stats):
    """Development aid (off by default): VERIF_FILTER='a|b' keeps only the items whose JSON contains one of the
    substrings; the evidence then says so (exhaustive: false, debug_filter recorded)."""
    import json
    flt = os.environ.get("VERIF_FILTER")
    if not flt:
        return items
    pats = flt.split("|")
    kept = [it for it in items if any(p in json.dumps(it) for p in pats)]
    stats["debug_filter"] = flt
    stats["debug_filter_kept"] = len(kept)
    stats["exhaustive"] = False
    stats["capped"] = True
    return kept


# ------------------------------------------------------------------------------------------------
# keys
# ------------------------------------------------------------------------------------------------
def abstract_value(ts):
    a = mz.arr(ts)
    shp = "scalar" if a.ndim == 0 else "empty" if a.size == 0 else "[1]" if a.shape == (1,) else \
        "[1,1]" if a.shape == (1, 1) else f"rank{a.ndim}"
    if a.size == 0:
        return shp
    if ts["t"] == "str":
        return f"{shp}:str"
    if a.dtype == np.bool_:
        return f"{shp}:{'true' if a.all() else 'false' if not a.any() else 'mixed'}"
    if a.size == 1:
        v = a.ravel()[0].item()
        s = "0" if v == 0 else "max" if v == mz.INT64_MAX else \
            "neg" if v < 0 else ("tiny" if 0 < abs(v) < 1e-3 else "near1" if 0.99 < v < 1 else "pos")
        return f"{shp}:{s}"
    s = "zeros" if not a.any() else "neg" if (a < 0).any() else "pos"
    return f"{shp}:{s}"


def nondefault_params(item, diff_ops=None):
    """Abstracted description of everything non-default in a chain item (after minimisation): attributes /
    arity of the steps whose op the transformation touched (``diff_ops``), operand value classes, sources,
    wrapper, options."""
    out = []
    if "steps" in item:
        for st in item["steps"]:
            c = mz.BY_ID[st["cfg"]]
            if diff_ops is None or c.op in diff_ops:
                for an, av in sorted(c.attrs.items()):
                    if isinstance(av, dict):
                        av = abstract_value(av)
                    out.append(f"{c.op}.{an}={av}".replace(" ", ""))
                if c.nout > 1:
                    out.append(f"{c.op}.outputs={c.nout}")
            for j, (vi, s) in enumerate(st.get("ops", [])):
                role = c.roles[j]
                if vi != 0:
                    out.append(f"{c.op}.{role}={abstract_value(c.ops[c.pooled[j]][vi])}")
                if s != "const":
                    out.append(f"{c.op}.{role}@{s}")
        if item.get("xsrc", "in") != "in":
            out.append(f"x@{item['xsrc']}")
        if item["x"][1] != 0:
            out.append("x=" + mz.X_SHAPES[item["x"][0]][item["x"][1]][0])
        w = item.get("wrap", list(WRAPM[0]))
        if list(w) != list(WRAPM[0]):
            out.append("wrap=" + w[0] + ("" if w[1] == "as-is" else "/" + w[1]) + ("" if w[2] == "const" else "/cond@" + w[2]))
    if "spec" in item and "steps" not in item:
        for nd in item["spec"]["nodes"]:
            if diff_ops is None or nd["op"] in diff_ops:
                for an, av in sorted((nd.get("a") or {}).items()):
                    if isinstance(av, dict):
                        av = abstract_value(av)
                    out.append(f"{nd['op']}.{an}={av}".replace(" ", ""))
    if item.get("cform", "value") != "value":
        out.append(f"cform={item['cform']}")
    if item.get("outs", "last") == "dup":
        out.append("outs=dup")
    if item.get("opset", 18) != 18:
        out.append(f"opset={item['opset']}")
    if item.get("api", "optimize") not in ("optimize",):
        out.append(f"api={item['api']}")
    for k, v in sorted((item.get("opts") or {}).items()):
        out.append(f"{k}={v}")
    if item.get("entry", "proto") != "proto":
        out.append("entry=ir")
    if item.get("vi"):
        out.append("value_info")
    res = []
    for x in out:
        if x not in res:
            res.append(x)
    return res


def minimise_item(item, still_fails, budget=24):
    """Greedy reset of every non-default field of a chain item while ``still_fails(item)``."""
    import copy
    cur = copy.deepcopy(item)
    runs = [0]

    def attempt(cand):
        if runs[0] >= budget:
            return False
        runs[0] += 1
        try:
            return bool(still_fails(cand))
        except Exception:  # noqa: BLE001
            return False

    def resets(it):
        if it.get("opts"):
            c = copy.deepcopy(it); c["opts"] = {}; yield c
        if it.get("entry", "proto") != "proto":
            c = copy.deepcopy(it); c["entry"] = "proto"; yield c
        if it.get("api", "optimize") != "optimize":
            c = copy.deepcopy(it); c["api"] = "optimize"; yield c
        if it.get("vi"):
            c = copy.deepcopy(it); c["vi"] = False; yield c
        if it.get("cform", "value") != "value":
            c = copy.deepcopy(it); c["cform"] = "value"; yield c
        if "steps" not in it:
            return
        if list(it.get("wrap", WRAPM[0])) != list(WRAPM[0]):
            c = copy.deepcopy(it); c["wrap"] = list(WRAPM[0]); yield c
            w0 = it["wrap"][0]
            base, inner_if, reps = mz.parse_wrap(w0)
            if reps > 1:     # one instance instead of two
                c = copy.deepcopy(it); c["wrap"][0] = w0.partition("*")[0]; yield c
            if inner_if:     # the plain outer wrapper / the plain constant-condition If
                c = copy.deepcopy(it); c["wrap"][0] = base + ("*2" if reps > 1 else ""); yield c
                c = copy.deepcopy(it); c["wrap"][0] = "if_then" + ("*2" if reps > 1 else ""); yield c
        if it.get("xsrc", "in") != "in":
            c = copy.deepcopy(it); c["xsrc"] = "in"; yield c
        if it["x"][1] != 0:
            c = copy.deepcopy(it); c["x"] = [it["x"][0], 0]; yield c
        if it.get("outs", "last") != "last":
            c = copy.deepcopy(it); c["outs"] = "last"; yield c
        if len(it["steps"]) > 1:
            # drop the last step (defect in the producer) / the first step (defect in the consumer)
            c = copy.deepcopy(it); c["steps"] = it["steps"][:-1]; c["outs"] = "last"
            if c.get("ref_step") is not None and c["ref_step"] >= len(c["steps"]):
                c.pop("ref_step")
            yield c
            first = mz.BY_ID[it["steps"][0]["cfg"]]
            ok = first.out_kind(it["x"][0])
            nxt = mz.BY_ID[it["steps"][1]["cfg"]]
            if ok in mz.X_SHAPES and ok in nxt.kin:
                c = copy.deepcopy(it); c["steps"] = it["steps"][1:]; c["x"] = [ok, 0]
                if c.get("ref_step") is not None:
                    c["ref_step"] -= 1
                    if c["ref_step"] < 0:
                        c.pop("ref_step")
                yield c
        for si, st in enumerate(it["steps"]):
            for oi, (vi, s) in enumerate(st.get("ops", [])):
                if s != "const":
                    c = copy.deepcopy(it); c["steps"][si]["ops"][oi][1] = "const"; yield c
                if vi != 0:
                    c = copy.deepcopy(it); c["steps"][si]["ops"][oi][0] = 0; yield c
    changed = True
    while changed and runs[0] < budget:
        changed = False
        for cand in resets(cur):
            if attempt(cand):
                cur = cand
                changed = True
                break
    return cur


# ------------------------------------------------------------------------------------------------
# running one item (shared by C03 and C04)
# ------------------------------------------------------------------------------------------------
class _CorpusBuilt:
    """Duck-typed mz.Built for a lifted corpus model."""

    def __init__(self, model, feeds):
        self.model = model
        self._feeds = feeds
        self.true_inputs = [("corpus", None, None)] if feeds else []
        self.fixed, self.init_in, self.overrides, self.problem = {}, {}, {}, None

    def feeds(self, k, bind=None):
        return dict(self._feeds)


def build_item(item):
    """-> (built | None, skip reason | None, extra)"""
    if item.get("fam") == "corpus":
        try:
            model, real_inputs, ins, outs = load_corpus_case(item["name"], item.get("sub", "node"))
        except Exception as e:  # noqa: BLE001
            return None, f"corpus-load:{type(e).__name__}", None
        try:
            m, feeds = lift(model, real_inputs, ins, item["lift"])
        except ValueError as e:
            return None, f"lift:{e}", None
        try:
            onnx.checker.check_model(m, full_check=True)
        except Exception:  # noqa: BLE001
            return None, "lifted-invalid", None
        b = _CorpusBuilt(m, feeds)
        if item["lift"] == "init_in":
            # defaults stay overridable: feed nothing, and override each with the recorded value negated/changed
            for v, a in zip(real_inputs, ins):
                b.init_in[v.name] = a
                if a.dtype.kind in "fiu" and a.size:
                    b.overrides[v.name] = [(a + np.asarray(1, a.dtype)).astype(a.dtype)]
                elif a.dtype.kind == "b" and a.size:
                    b.overrides[v.name] = [~a]
                else:
                    b.overrides[v.name] = []
        return b, None, {"recorded": outs}
    spec = item_spec(item)
    b = mz.build(spec)
    if b.problem:
        return None, "gen-invalid", {"problem": b.problem}
    return b, None, {}


def run_item(item):
    """-> (built, rec).  rec["skip"] set when nothing could be concluded."""
    built, why, extra = build_item(item)
    if built is None:
        return None, {"skip": why, "c03": [], "c04": [], "counts": {}, "problem": (extra or {}).get("problem")}
    n_val = 1 if item.get("fam") == "corpus" else mz.N_VALUATIONS
    binds = (item.get("bind"),)
    rec = optrun.evaluate(built, item, binds=binds, n_val=n_val)
    rec["recorded"] = (extra or {}).get("recorded")
    return built, rec


def root_cause_tag(item, comp, dsig, param=None):
    """Structural tags for triaged root causes whose generic keys would otherwise vary with the consumer op.
    Only facts of the (minimised) case (and, for C04, the class of the validity problem) are used; returns None when
    no tag applies."""
    if "steps" in item:
        wrap0 = item.get("wrap", ["none"])[0]
        branch_init = item["wrap"][1] == "init" or item.get("xsrc") == "init"
    elif "spec" in item:
        wrap0 = item["spec"].get("wrap", "none")
        branch_init = any(r is not None and r.get("src") == "init" for nd in item["spec"]["nodes"] for r in nd["i"])
    else:
        return None
    wbase, winner_if, _ = mz.parse_wrap(wrap0)
    not_inlined = item.get("opts", {}).get("inline") is False or item.get("api", "optimize") not in ("optimize", "optimize_ir")
    if wbase == "func" and winner_if and not_inlined and str(comp).startswith(("fold", "pipeline")) \
            and branch_init and "If" in (dsig or "If").partition("=>")[0] \
            and param and ("Nodes in a function must be topologically sorted" in param or "wf::function" in param):
        # constant-condition If inside a function body (function not inlined): the branch's initializers are moved to
        # the function's graph, which cannot hold initializers (C03 sees the same case as a model that no longer loads)
        return "if-inlined-in-function|branch-initializers-lost"
    if not dsig or "steps" not in item:
        return None
    if str(comp) == "rule:CastIdentity" and item.get("wrap", ["none"])[0] == "func":
        # Cast<to=@attr> inside a function body that is not inlined (inline=False, or rewrite() alone)
        return "Cast=>Identity|ref-attribute-in-function"
    rem, _, add = dsig.partition("=>")
    rem, add = set(rem.split(",")), set(add.split(","))
    if not str(comp).startswith(("fold", "pipeline")):
        return None
    if param and item.get("opset", 18) < 12 and "checker:Constant:Unrecognized attribute value_int" in param:
        # Constant(value_int / value_ints) exists from opset 12 on; one tag per evaluator (removed op)
        return "evaluator:" + "+".join(sorted(x for x in rem if x)) + "|emits-Constant-value_int(s)-below-opset-12"
    if wbase == "func" and not winner_if and not_inlined:
        last = mz.BY_ID[item["steps"][item.get("ref_step", -1) if item.get("ref_step") is not None else -1]["cfg"]]
        if last.attrs and last.op in rem:
            # node inside a (not inlined) function whose attributes are references to the function's attributes is
            # evaluated with the attribute defaults
            return "ref-attribute-in-function|node-folded-with-attribute-defaults"
    if item.get("opset", 18) < 18 and (rem & {"SplitToSequence", "ConcatFromSequence"}) and (add & {"Split", "Unsqueeze", "Squeeze"}):
        # Split(split input / num_outputs), Unsqueeze/Squeeze(axes input) emitted into a model whose opset predates them
        return "sequence-evaluators|emit-newer-opset-node-form"
    for st in item["steps"]:
        c = mz.BY_ID[st["cfg"]]
        if c.op == "SplitToSequence" and "SplitToSequence" in rem:
            if "split" in c.roles and c.attrs.get("keepdims", 1) == 0 and "Squeeze" in add:
                return "split_to_sequence|keepdims=0-with-split-input"
            if mz.X_SHAPES[item["x"][0]][item["x"][1]][0].startswith("0x") and "SequenceConstruct" in add:
                return "split_to_sequence|size-0-axis"
    return None
