"""c02lib - well-formedness checks of accepted programs and the mutation table for C02."""
from __future__ import annotations

import copy
import re

import onnx

from vf import c01lib, sg, sggen, sgrun, wf


# ------------------------------------------------------------------------------------------------
# definite assignment (independent of onnxscript): which uses may read an unbound variable
# ------------------------------------------------------------------------------------------------

def _expr_uses(e, acc):
    if isinstance(e, list):
        if len(e) == 2 and e[0] == "var":
            acc.append(e[1])
            return
        for c in e:
            _expr_uses(c, acc)


def possibly_unbound(prog):
    """Names read at a point where some path from the function entry has not assigned them."""
    bad = []

    def use(e, defined):
        u = []
        _expr_uses(e, u)
        for n in u:
            if n not in defined:
                bad.append(n)

    def block(stmts, defined):
        for s in stmts:
            t = s[0]
            if t == "assign":
                use(s[2], defined)
                defined = defined | {s[1]}
            elif t in ("massign", "passign"):
                use(s[2], defined)
                defined = defined | set(s[1])
            elif t == "if":
                use(s[1], defined)
                d1 = block(s[2], defined)
                d2 = block(s[3], defined)
                defined = d1 & d2
            elif t == "for":
                use(s[2], defined)
                d1 = block(s[3], defined | {s[1]})
                if s[4] is not None and s[4] not in d1:
                    bad.append(s[4])
                # the body may not run: nothing it assigns is definitely assigned afterwards
            elif t == "while":
                if s[1] not in defined:
                    bad.append(s[1])
                d1 = block(s[2], defined)
                if s[1] not in d1:
                    pass  # condition not recomputed: legal python (may not terminate)
                if s[3] is not None and s[3] not in d1:
                    bad.append(s[3])
            elif t == "return":
                use(s[1], defined)
            elif t == "def":
                pass
        return defined

    d = block(prog["body"], {p[0] for p in prog["params"]})
    if prog["ret"] is not None:
        use(prog["ret"], d)
    return sorted(set(bad))


# ------------------------------------------------------------------------------------------------
# accepted programs
# ------------------------------------------------------------------------------------------------

_LINE = re.compile(r"\bline (\d+)")


def has_position(msg):
    return _LINE.search(msg) is not None


def wf_classes(problems):
    out = set()
    for p in problems:
        c = c01lib.wf_class(p)
        if c is None:
            owner = c01lib._OWNER.findall(p)
            where = owner[-1] if owner else ("function" if p.startswith("function") else "graph")
            if "not produced by a node of that subgraph" in p:
                c = f"subgraph-output-not-local:{where}"
            elif "returned directly" in p:
                c = f"input-returned-directly:{where}"
            elif "duplicate node names" in p:
                c = "duplicate-node-names"
            elif "defined twice" in p:
                c = "function-defined-twice"
            elif "not defined in the model" in p:
                c = "called-function-missing"
            else:
                c = "other:" + re.sub(r"'[^']*'|\d+", "#", p)[:80]
        out.add(c)
    return sorted(out)


def checker_class(msg):
    first = msg.strip().split("\n")[0]
    first = re.sub(r"\(op_type:([A-Za-z]+), node name: [^)]*\)", r"(\1)", first)
    first = re.sub(r"'[^']*'|\"[^\"]*\"", "#", first)
    first = re.sub(r"\d+", "N", first)
    return first[:110]


def out_ranks(item, prog):
    """Output ranks under a rank-1 x (via the interpreter); None when undefined or not constant."""
    ranks = None
    for feeds, attrs in sggen.valuations(item, None):
        if feeds["x"].ndim != 1 or feeds["x"].shape[0] == 0 or ("y" in feeds and feeds["y"].ndim != 1):
            continue
        try:
            outs = sg.Interp(prog).run(feeds, attrs)
        except sg.Undefined:
            continue
        r = [o.ndim for o in outs]
        if ranks is None:
            ranks = r
        elif ranks != r:
            return None
    return ranks


def check_accepted(item):
    prog = item["prog"]
    text = sg.body_text(prog)
    nkey = sg.compact(prog)
    counts = {}
    viols = {}

    def bad(key, what):
        viols.setdefault(key, {"what": what[:400], "program": text})

    unbound = possibly_unbound(prog)
    try:
        ld = sgrun.decorate(prog)
    except sgrun.Refused as r:
        counts["refused"] = 1
        counts["refused-with-position" if has_position(r.msg) else "refused-without-position"] = 1
        if unbound:
            counts["refused-possibly-unbound"] = 1
        return {"status": "ok", "outcome": f"refused:{r.etype}" + ("" if has_position(r.msg) else ":no-position"),
                "nontrivial": False, "nkey": nkey, "counts": counts, "show": text}
    try:
        if unbound:
            bad("C02|accepted-outside-subset|use-of-possibly-unbound-variable",
                f"variables {unbound} may be unbound at a use, yet the decorator accepted the program")
        # (1) independent walker on both protos
        fp = sgrun.get_fproto(ld)
        pf = wf.check_function(fp, local_sub_outputs=True, no_input_as_output=True)
        for c in wf_classes(pf):
            bad(f"C02|wf-function|{c}", "; ".join(pf))
        model, merr = sgrun.get_model(ld)
        if model is None:
            if not (merr[0] == "ValueError" and "required attributes" in merr[1]):
                bad(f"C02|to_model_proto-raises|{merr[0]}", merr[1])
            else:
                counts["model-not-exportable:required-attribute"] = 1
        else:
            pm = wf.check_model(model, local_sub_outputs=True, no_input_as_output=True)
            for c in wf_classes(pm):
                bad(f"C02|wf-model|{c}", "; ".join(pm))
            if sgrun.has_attr_ref(model.graph):
                bad("C02|wf-model|attribute-reference-in-main-graph",
                    "a node of the main graph carries ref_attr_name (only legal inside a function body)")
        # function checker (context: the model's imports plus the function's own domain)
        ctx = onnx.checker.C.CheckerContext()
        ctx.ir_version = 10
        ctx.opset_imports = {"": 18, fp.domain: 1}
        try:
            onnx.checker.check_function(fp, ctx)
            counts["check_function-ok"] = 1
        except Exception as e:  # noqa: BLE001
            if not pf:
                bad(f"C02|checker-function|{checker_class(str(e))}", str(e))
            else:
                counts["check_function-fails-explained-by-wf"] = 1
    finally:
        ld.close()
    # (2) rank-typed signature: strict checker with shape inference
    ranks = out_ranks(item, prog)
    if ranks is None:
        counts["untyped-no-full-check"] = 1
    else:
        rk = {"x": 1, "y": 1}
        try:
            ld2 = sgrun.decorate(prog, ranks=rk, out_ranks=ranks)
        except sgrun.Refused as r:
            bad("C02|typed-variant-refused|" + r.etype, r.msg)
            ld2 = None
        if ld2 is not None:
            try:
                model, merr = sgrun.get_model(ld2)
                if model is not None:
                    try:
                        onnx.checker.check_model(model, full_check=True)
                        counts["check_model-full-ok"] = 1
                    except Exception as e:  # noqa: BLE001
                        pm = wf.check_model(model)
                        if pm or sgrun.has_attr_ref(model.graph):
                            counts["check_model-fails-explained-by-wf"] = 1
                        else:
                            bad(f"C02|checker-model|{checker_class(str(e))}", str(e))
            finally:
                ld2.close()
    if viols:
        return {"status": "viol", "outcome": "accepted-malformed", "nkey": nkey, "counts": counts, "show": text,
                "viols": [{"key": k, "detail": v} for k, v in sorted(viols.items())]}
    return {"status": "ok", "outcome": "accepted-wellformed" + ("" if ranks is not None else "-untyped"),
            "nkey": nkey, "counts": counts, "show": text}


def check_accepted_opset(item):
    """The program text decorated with another opset class (13, 14, 15, 21, 23): only structural validity is judged -
    onnx.checker on the ModelProto (rank-typed signature when the ranks are known) at the opset the model declares."""
    prog, n = item["prog"], item["opset"]
    text = f"[opset{n}] " + sg.body_text(prog)
    nkey = f"o{n}|" + sg.compact(prog)
    ranks = out_ranks(item, prog)
    if ranks is None:      # no rank-typed signature: the ModelProto cannot be handed to the checker (types lack shapes)
        return {"status": "ok", "outcome": f"o{n}:untyped-not-checked", "nontrivial": False, "nkey": nkey, "show": text}
    try:
        ld = sgrun.decorate(prog, ranks={"x": 1, "y": 1}, out_ranks=ranks, opset=n)
    except sgrun.Refused as r:
        return {"status": "ok", "outcome": f"o{n}:refused:{r.etype}", "nontrivial": False, "nkey": nkey, "show": text}
    viols = []
    try:
        model, merr = sgrun.get_model(ld)
        if model is None:
            return {"status": "ok", "outcome": f"o{n}:model-not-exportable", "nontrivial": False, "nkey": nkey, "show": text}
        declared = {o.domain: o.version for o in model.opset_import}.get("")
        if declared != n:
            viols.append({"key": f"C02|opset|declared-opset-differs", "detail": {"what": f"declared {declared}, class {n}", "program": text}})
        try:
            onnx.checker.check_model(model, full_check=True)
        except Exception as e:  # noqa: BLE001
            msg = str(e)
            m = re.search(r"No Op registered for (\w+) with domain_version of (\d+)", msg)
            if m:
                key = f"C02|opset|emits-{m.group(1)}-below-its-first-opset"
            else:
                key = f"C02|opset|checker-model|{checker_class(msg)}"
            viols.append({"key": key, "detail": {"what": msg[:300], "program": text, "opset": n}})
    finally:
        ld.close()
    if viols:
        return {"status": "viol", "outcome": f"o{n}:accepted-malformed", "nkey": nkey, "show": text, "viols": viols}
    return {"status": "ok", "outcome": f"o{n}:accepted-wellformed", "nkey": nkey, "show": text}


# ------------------------------------------------------------------------------------------------
# mutation table
# ------------------------------------------------------------------------------------------------

# text mutants inserted as a new statement after an existing one: (kind, lines, required, loop_only)
INSERTS = [
    ("augmented-assignment", ["q9 += x"], True, False),
    ("multi-target-assignment", ["q9 = r9 = x + 1"], True, False),
    ("del", ["del x"], True, False),
    ("with", ["with x:", "    q9 = x + 1"], True, False),
    ("chained-comparison", ["q9 = 0 < x < 1"], True, False),
    ("pass", ["pass"], True, False),
    ("assert", ["assert x"], True, False),
    ("try", ["try:", "    q9 = x + 1", "except Exception:", "    q9 = x"], True, False),
    ("global", ["global zz9"], True, False),
    ("expression-statement", ["op.Abs(x)"], True, False),
    ("conditional-expression", ["q9 = x if x else x"], True, False),
    ("bool-operator", ["q9 = x and x"], True, False),
    ("lambda", ["q9 = lambda a: a"], True, False),
    ("list-comprehension", ["q9 = [x for _ in range(2)]"], True, False),
    ("subscript-assignment", ["x[0] = 1"], True, False),
    ("starred-assignment", ["p9, *q9 = op.Split(x, num_outputs=2)"], True, False),
    ("attribute-access", ["q9 = x.T"], True, False),
    ("tuple-from-non-call", ["p9, q9 = x"], True, False),
    ("range-two-args", ["for i9 in range(0, 2):", "    q9 = x + 1"], True, False),
    ("for-over-list", ["for i9 in [1, 2]:", "    q9 = x + 1"], True, False),
    ("while-expression", ["while x > 0:", "    q9 = x + 1"], True, False),
    ("continue", ["continue"], True, True),
    ("bare-break", ["break"], True, True),
    ("break-not-last", ["if q9:", "    break"], True, True),  # preceded by q9 definition, followed by a statement
    # inside the documented subset (tutorial / converter): accepted is fine
    ("print-call", ["print(x)"], False, False),
    ("docstring-expression", ["'''text'''"], False, False),
    ("annotated-assignment", ["q9: FLOAT[...] = x + 1"], False, False),
    ("unary-not", ["q9 = not (x > 0)"], False, False),
    ("subscript", ["q9 = x[0]"], False, False),
]


def render_base(prog):
    src, marks = sg.render(prog, with_marks=True)
    return src.split("\n"), marks


def rel_line(marks, abs_line, prog):
    return abs_line - marks["def:" + prog["name"]] + 2


def text_mutants(prog):
    """Yield (kind, site, source, offending absolute line, required)."""
    lines, marks = render_base(prog)
    index = marks.get("#index", [])
    # insertion sites: after every simple statement (same indentation); the end of a loop body is covered by the
    # simple statements it contains
    for st in index:
        if st["type"] not in ("assign", "massign", "passign"):
            continue
        at = st["line"]  # 1-based line of the statement; insert after it
        pad = "    " * st["indent"]
        for kind, new, required, loop_only in INSERTS:
            if loop_only and st["loop"] is None:
                continue
            ins = list(new)
            off = at + 1
            if kind == "break-not-last":
                lv = st["loop"][1]
                cond = f"q9 = {lv} >= 1" if st["loop"][0] == "for" else f"q9 = {lv}"
                ins = [cond] + ins + ["r9 = x + 1"]
                off = at + 2
            if kind in ("continue", "bare-break"):
                pass
            out = lines[:at] + [pad + l for l in ins] + lines[at:]
            yield kind, f"after-line-{at}", "\n".join(out), off, required, len(ins) - (off - at - 1)


def ast_mutants(prog):
    """AST level mutants: (kind, site, mutant program, mark name or None, required)."""
    body = prog["body"]
    base_unbound = possibly_unbound(prog)
    # M1: delete one definition
    if not base_unbound:
        for path, block in c01lib._blocks(body):
            for idx, s in enumerate(block):
                if s[0] != "assign":
                    continue
                nb = copy.deepcopy(body)
                tb = c01lib._get_block(nb, path)
                if len(tb) == 1 and path:
                    continue  # would leave an empty block (a different mutation)
                del tb[idx]
                m = dict(prog)
                m["body"] = nb
                if possibly_unbound(m):
                    yield "undefined-variable-on-a-path", f"delete-{'.'.join(map(str, path))}.{idx}", m, None, True
                    # the same mutant in a module that has a GLOBAL of that name (a number / an array): the name is
                    # local to the function (it is assigned there), so Python raises UnboundLocalError on the path
                    # that skips the assignment and the program is just as much outside the subset (seeded C02g made
                    # the missing branch fall back on the global)
                    if s[1] not in c01lib._assigned(nb):
                        continue   # no assignment left: the name is then a plain global READ, which is supported
                    for gi, gval in enumerate(("3.0", "np.array([1.0, 2.0], dtype=np.float32)")):
                        m2 = dict(m)
                        m2["_module_globals"] = f"{s[1]} = {gval}"
                        yield ("undefined-variable-on-a-path+same-named-global",
                               f"delete-{'.'.join(map(str, path))}.{idx}-g{gi}", m2, None, True)
    # M2: return inside a branch / loop body
    for path, block in c01lib._blocks(body):
        if not path:
            continue
        nb = copy.deepcopy(body)
        tb = c01lib._get_block(nb, path)
        tb.append(["return", [["var", "x"]] * max(1, len(prog["ret"])), {"mark": "mut"}])  # same arity as the function
        m = dict(prog)
        m["body"] = nb
        yield "return-inside-control-flow", f"end-of-{'.'.join(map(str, path))}", m, "mut", True
    # M3: nested function that shadows an outer variable / one that only reads it (every top-level site)
    for idx in range(1, len(body) + 1):
        before = sorted(c01lib._assigned(body[:idx]) & {"u", "v"})
        if not before:
            continue
        name = before[0]
        nb = copy.deepcopy(body)
        nb.insert(idx, ["def", "inner9", ["a9"], [["assign", name, ["bin", "+", ["var", "a9"], ["lit", 1]]]],
                        [["var", name]], {"mark": "mut"}])
        m = dict(prog)
        m["body"] = nb
        yield "nested-function-shadows-outer-variable", f"top-{idx}-{name}", m, "mut", True
        nb = copy.deepcopy(body)
        nb.insert(idx, ["def", "inner9", ["a9"], [["assign", "t9", ["bin", "+", ["var", "a9"], ["var", name]]]],
                        [["var", "t9"]], {"mark": "mut"}])
        m = dict(prog)
        m["body"] = nb
        yield "nested-function-reads-outer-variable", f"top-{idx}-{name}", m, "mut", False


def classify_refusal(kind, exc, rel, exact, span=1):
    """-> None when the refusal carries the right position, else (violation kind, text)."""
    msg = str(exc)
    lines = [int(x) for x in _LINE.findall(msg)]
    if not lines:
        return ("refusal-without-position", f"{type(exc).__name__}: {msg[:200]}")
    if exact and not any(rel <= l < rel + span for l in lines):
        return ("refusal-with-wrong-position", f"expected line {rel}, message has {lines}: {msg[:200]}")
    return None


def check_mutants(item):
    prog = item["prog"]
    text = sg.body_text(prog)
    counts = {"mutants": 0, "refused-with-position": 0, "accepted-supported": 0, "extra_evaluations": 0}
    viols = {}
    nkeys = []
    base = sg.compact(prog)
    # the base must itself be accepted (otherwise a refusal of the mutant says nothing about the mutation)
    try:
        ld = sgrun.decorate(prog)
        ld.close()
    except sgrun.Refused:
        return {"status": "skip", "skip": "base-refused", "outcome": "base-refused", "nkey": base, "show": text}
    lines0, marks0 = render_base(prog)

    def record(kind, site, exc, rel, required, exact, src, span=1):
        counts["mutants"] += 1
        counts["extra_evaluations"] += 1
        counts["mut:" + kind] = counts.get("mut:" + kind, 0) + 1
        nkeys.append(f"{base}#{kind}@{site}")
        if exc is None:
            if required:
                viols.setdefault(f"C02|mutant-accepted|{kind}",
                                 {"what": "a program outside the documented subset was accepted", "source": src[-1500:]})
            else:
                counts["accepted-supported"] += 1
            return
        v = classify_refusal(kind, exc, rel, exact, span)
        if v is None:
            counts["refused-with-position"] += 1
        elif v[0] == "refusal-without-position":
            what = re.sub(r"'[^']*'|\d+", "#", str(exc).split("\n")[0])[:60]
            counts["refused-without-position:" + kind] = counts.get("refused-without-position:" + kind, 0) + 1
            viols.setdefault(f"C02|refusal-without-position|{type(exc).__name__}: {what}",
                             {"what": v[1], "mutation": kind, "source": src[-1500:]})
        else:
            viols.setdefault(f"C02|{v[0]}|{kind}|{type(exc).__name__}", {"what": v[1], "source": src[-1500:]})

    for kind, site, src, off, required, span in text_mutants(prog):
        rel = rel_line(marks0, off, prog)
        exc = None
        try:
            mod, fname, modname = sgrun.load_source(src, "m")
            import linecache
            import sys
            sys.modules.pop(modname, None)
            linecache.cache.pop(fname, None)
        except Exception as e:  # noqa: BLE001
            exc = e
        record(kind, site, exc, rel, required, True, src, span)
    for kind, site, m, mark, required in ast_mutants(prog):
        src, marks = sg.render(m, with_marks=True)
        rel = rel_line(marks, marks[mark], m) if mark else None
        if m.get("_module_globals"):
            # module-level assignment placed right before the first decorated function (marks are not used by this kind)
            i = src.index("@script")
            src = src[:i] + "import numpy as np\n" + m["_module_globals"] + "\n" + src[i:]
        exc = None
        try:
            mod, fname, modname = sgrun.load_source(src, "m")
            import linecache
            import sys
            sys.modules.pop(modname, None)
            linecache.cache.pop(fname, None)
        except Exception as e:  # noqa: BLE001
            exc = e
        record(kind, site, exc, rel, required, mark is not None and kind != "return-inside-control-flow", src)
    res = {"status": "viol" if viols else "ok", "outcome": "mutants-" + ("violation" if viols else "all-refused-or-supported"),
           "nkey": nkeys or [base], "counts": counts, "show": text}
    if viols:
        res["viols"] = [{"key": k, "detail": v} for k, v in sorted(viols.items())]
    return res
