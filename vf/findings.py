"""Known findings, replay artefacts, minimisation."""
from __future__ import annotations

import hashlib
import json
import os

ROOT = os.path.dirname(os.path.dirname(os.path.abspath(__file__)))
KNOWN = os.path.join(ROOT, "known_findings.jsonl")


def load_known():
    """-> (known: {(prop,key): entry}, fixed: [entries]).  Never written at run time."""
    known, fixed = {}, []
    if os.path.exists(KNOWN):
        with open(KNOWN) as f:
            for line in f:
                line = line.strip()
                if not line or line.startswith("#"):
                    continue
                if line.startswith("fixed:"):
                    # "fixed: property=<id> <commit> <what failed>" - a record only, suppresses nothing
                    fixed.append({"line": line})
                    continue
                e = json.loads(line)
                if e.get("status") == "fixed":
                    fixed.append(e)
                else:
                    known[(e["property"], e["key"])] = e
    return known, fixed


def write_replay(prop, key, payload):
    d = os.path.join(ROOT, "replays", prop)
    os.makedirs(d, exist_ok=True)
    h = hashlib.sha1(key.encode()).hexdigest()[:12]
    p = os.path.join(d, f"{h}.json")
    payload = dict(payload)
    payload["property"] = prop
    payload["key"] = key
    with open(p, "w") as f:
        json.dump(payload, f, indent=1, default=repr)
    return p


def minimise(picks, still_fails):
    """Greedy: reset each non-default pick to default while the case still fails.

    ``still_fails(picks) -> bool`` must re-run driver + oracle (False on Prune / divergence).
    Also tries dropping the tail (shorter sequences mean the default continuation).
    """
    picks = list(picks)
    changed = True
    while changed:
        changed = False
        for i in range(len(picks) - 1, -1, -1):
            if i < len(picks) and picks[i] != 0:
                for cand in (picks[:i], picks[:i] + [0] + picks[i + 1:]):
                    try:
                        ok = still_fails(cand)
                    except Exception:
                        ok = False
                    if ok:
                        picks = cand
                        changed = True
                        break
    while picks and picks[-1] == 0:
        picks.pop()
    return picks
