"""mz - model builder shared by the optimizer / rewriter / version-converter checks (DESIGN 2.5).

Two layers.

1. ``build(spec, bind)``: a small JSON *spec* (graph inputs, nodes with operand references, outputs, wrapper,
   opset) -> ``Built`` (checker-valid ``ModelProto`` + feed description).  Operand references::

       {"x": "name"}                         a true graph input
       {"n": i, "k": k}                      output k of node i
       {"c": T, "src": kind [, "ov": [T..]]} a constant tensor T = {"t": dtype, "s": shape, "v": flat values}
                                             drawn from one of the SOURCE KINDS below
       None                                  omitted optional input

   SOURCE KINDS: ``const`` (Constant node next to the consumer), ``init`` (initializer owned by the graph
   that holds the consumer: the branch / loop body when wrapped), ``init_in`` (initializer that is ALSO a
   graph input - a default the caller may override; always in the main graph), ``input`` (plain graph
   input fed with the value at run time, invisible to the optimizer), ``outer`` (Constant node in the main
   graph captured by the wrapped body).

   WRAPPERS: ``none``; ``if_then`` / ``if_else`` (the nodes live in the taken branch of an ``If`` whose
   condition comes from ``wsrc`` in {const, init, init_in, input}; the other branch computes the same
   chain followed by Neg/Not so that taking the wrong branch is visible); ``loop`` (nodes live in a Loop
   body executed twice, capturing outer values, results are scan outputs); ``func`` (nodes live in a
   model-local function; every attribute of the last node is passed as an attribute reference).
   COMPOSED / REPEATED WRAPPERS (``wrap`` grammar ``<outer>[_if][*2]``): ``func_if`` / ``loop_if`` / ``if_if`` put the
   nodes in the taken branch of a constant-condition ``If`` (condition: Constant node next to it) that itself
   sits in the function body / Loop body / taken branch of the outer If; a branch is a real graph, so ``init``
   operands are initializers OWNED BY THE BRANCH even inside a function.  ``*2`` emits the wrapped instance twice
   (two If / Loop nodes, two calls of F): the sibling subgraphs reuse the same inner value names (legal ONNX
   scoping) and capture the same outer values; the second instance's results are extra graph outputs.

   CONSTANT FORMS (``form`` of a const/outer operand): ``value`` (tensor attribute), ``attr`` (value_float(s) /
   value_int(s) / value_string(s) when the tensor is f32 / i64 / str of rank <= 1, else ``value``), ``sparse``
   (sparse_value, numeric rank >= 1, else ``value``).

2. The op -> configs table ``CONFIGS`` (operand roles with value pools, primary-operand kinds) and the
   helpers that lower a *chain* of configs to a spec (``chain_spec``).  The optimizer-relevant alphabet is
   read from the live code (``live_alphabet``).

Nothing here samples: pools are fixed lists, entry 0 is the default.
"""
from __future__ import annotations

import itertools

import numpy as np
import onnx
from onnx import TensorProto as TP
from onnx import helper as h
from onnx import numpy_helper as nh

import ml_dtypes  # noqa: E402  (bfloat16 numpy dtype; shipped with onnx)

NP = {"f32": np.float32, "f16": np.float16, "f64": np.float64, "i64": np.int64, "i32": np.int32,
      "u8": np.uint8, "i8": np.int8, "b": np.bool_, "str": object, "bf16": ml_dtypes.bfloat16}
OT = {"f32": TP.FLOAT, "f16": TP.FLOAT16, "f64": TP.DOUBLE, "i64": TP.INT64, "i32": TP.INT32,
      "u8": TP.UINT8, "i8": TP.INT8, "b": TP.BOOL, "str": TP.STRING, "bf16": TP.BFLOAT16}
OT_INV = {v: k for k, v in OT.items()}
INT64_MAX = 9223372036854775807
LOCAL_DOMAIN = "vf.local"


# ------------------------------------------------------------------------------------------------
# tensors as JSON
# ------------------------------------------------------------------------------------------------
def T(t, v):
    a = np.asarray(v, dtype=NP[t])
    return {"t": t, "s": list(a.shape), "v": a.ravel().tolist()}


def f(v):
    return T("f32", v)


def i(v):
    return T("i64", v)


def arr(ts):
    return np.asarray(ts["v"], dtype=NP[ts["t"]]).reshape(ts["s"])


def s_(v):
    return T("str", v)


def tshow(ts):
    a = arr(ts)
    if a.size <= 8:
        return f"{ts['t']}{a.tolist()!r}".replace(" ", "")
    return f"{ts['t']}{list(a.shape)}"


# ------------------------------------------------------------------------------------------------
# input valuations (deterministic patterns; DESIGN: 0, +-1, a negative, large)
# ------------------------------------------------------------------------------------------------
_FPAT = [
    [-2.5, -1.0, 0.0, 1.0, 2.5, 0.5, 3.0, -0.25, 7.0, -6.0, 1.5, 4.0],
    [0.0],
    [1.0, -1.0],
    [1e5, -2.5, 0.1, -1e5, 0.3],
    [-3.0, -0.5, -7.0],
]
_IPAT = [[-2, -1, 0, 1, 2, 3, 7, -5], [0], [1, -1], [40, -3, 4], [-3, -1, -7]]  # no huge ints: they size tensors
_UPAT = [[0, 1, 2, 3, 250, 255, 7, 128], [0], [1, 255], [200, 3, 4], [5, 6, 7]]
_SPAT = [["a", "b", "", "abc", "B", "a b", "0", "b"], [""], ["x", "y"], ["12", "-3", "4"], ["b", "a", "b"]]
N_VALUATIONS = len(_FPAT)


def valuation(t, shape, k):
    n = int(np.prod(shape)) if len(shape) else 1
    if t == "b":
        base = [[True, False, False, True, True], [False], [True], [True, False], [False, False, True]][k % 5]
    elif t == "str":
        base = _SPAT[k % 5]
    elif t in ("u8",):
        base = _UPAT[k % 5]
    elif t.startswith("i"):
        base = _IPAT[k % 5]
    else:
        base = _FPAT[k % 5]
    vals = list(itertools.islice(itertools.cycle(base), n))
    return np.asarray(vals, dtype=NP[t]).reshape(shape)


def concrete_shape(shape, bind, name=""):
    """Unnamed dims are bound per input and position: keys '?<input name><index>', then '?<index>', then '?'."""
    out = []
    for j, d in enumerate(shape):
        if isinstance(d, int):
            out.append(d)
        elif d is None:
            out.append(int(bind.get(f"?{name}{j}", bind.get(f"?{j}", bind.get("?", 2)))))
        else:
            out.append(int(bind.get(d, 2)))
    return out


# ------------------------------------------------------------------------------------------------
# spec -> model
# ------------------------------------------------------------------------------------------------
class Built:
    def __init__(self):
        self.model = None
        self.true_inputs = []   # [(name, dtype, declared shape)]
        self.fixed = {}         # name -> array (source kind "input": always fed with this value)
        self.init_in = {}       # name -> default array (overridable initializer)
        self.overrides = {}     # name -> [arrays] candidate override values
        self.cond_name = None   # name of the If condition when it is a feedable input
        self.problem = None     # why the model is not valid (None = valid)

    def feeds(self, k, bind=None):
        bind = bind or {}
        d = {n: valuation(t, concrete_shape(s, bind, n), k) for (n, t, s) in self.true_inputs}
        d.update(self.fixed)
        return d


class _G:
    def __init__(self):
        self.nodes, self.inits, self.inputs = [], [], []


def _vi(name, t, shape):
    return h.make_tensor_value_info(name, OT[t], shape)


def _attr(name, v):
    if isinstance(v, dict) and "t" in v:
        return h.make_attribute(name, nh.from_array(arr(v)))
    if isinstance(v, dict) and "tp" in v:   # TYPE_PROTO attribute: {"tp": [dtype, shape]}
        return h.make_attribute(name, h.make_tensor_type_proto(OT[v["tp"][0]], v["tp"][1]))
    if isinstance(v, list) and not v:
        return h.make_attribute(name, v, attr_type=onnx.AttributeProto.INTS)
    return h.make_attribute(name, v)


def _ref_attr(name, v):
    a = _attr(name, v)
    r = onnx.AttributeProto()
    r.name = name
    r.type = a.type
    r.ref_attr_name = name
    return r


def const_form_applies(ts, form):
    """Does the Constant attribute form ``form`` denote something else than the plain tensor form for tensor ts?"""
    if form == "attr":
        return ts["t"] in ("f32", "i64", "str") and len(ts["s"]) <= 1
    if form == "sparse":
        return ts["t"] not in ("str", "b", "bf16") and len(ts["s"]) >= 1 and all(d > 0 for d in ts["s"])
    return form == "value"


def const_node(name, a, t, form="value"):
    """Constant node producing array ``a`` (dtype key t) written in the given attribute form."""
    A = onnx.AttributeProto
    if form == "attr" and t in ("f32", "i64", "str") and a.ndim <= 1:
        n = h.make_node("Constant", [], [name])
        if t == "f32":
            at = h.make_attribute("value_float", float(a)) if a.ndim == 0 else \
                h.make_attribute("value_floats", [float(x) for x in a], attr_type=A.FLOATS)
        elif t == "i64":
            at = h.make_attribute("value_int", int(a)) if a.ndim == 0 else \
                h.make_attribute("value_ints", [int(x) for x in a], attr_type=A.INTS)
        else:
            at = h.make_attribute("value_string", str(a.item())) if a.ndim == 0 else \
                h.make_attribute("value_strings", [str(x) for x in a], attr_type=A.STRINGS)
        n.attribute.append(at)
        return n
    if form == "sparse" and t not in ("str", "b", "bf16") and a.ndim >= 1 and a.size:
        flat = a.ravel()
        nz = np.flatnonzero(flat != 0)
        sp = h.make_sparse_tensor(nh.from_array(flat[nz], name + "_values"), nh.from_array(nz.astype(np.int64), name + "_idx"),
                                  list(a.shape))
        return h.make_node("Constant", [], [name], sparse_value=sp)
    return h.make_node("Constant", [], [name], value=nh.from_array(a, name))


def parse_wrap(wrap):
    """'func_if*2' -> ('func', True, 2)"""
    base, _, rep = wrap.partition("*")
    inner_if = False
    if base.endswith("_if") and base != "_if":
        base, inner_if = base[:-3], True
        if base == "if":
            base = "if_then"
    return base, inner_if, int(rep or 1)


def build(spec, check=True):
    """-> Built.  ``Built.problem`` is set (and model may be None) when the spec does not denote a valid model."""
    B = Built()
    opset = spec.get("opset", 18)
    wrap_full = spec.get("wrap", "none")
    wrap, inner_if, reps = parse_wrap(wrap_full)
    wsrc = spec.get("wsrc", "const")
    main = _G()
    for (n, t, s) in spec["ins"]:
        main.inputs.append(_vi(n, t, s))
        B.true_inputs.append((n, t, s))
    nodes = spec["nodes"]
    ref_node = spec.get("ref_node", len(nodes) - 1)   # func wrapper: the node whose attributes become attribute references
    captured = []  # names from the main scope used inside a function body, in order of first use
    main_defined = set()  # main-scope constants already emitted (a repeated instance captures the same ones)

    def cap(name):
        if name not in captured:
            captured.append(name)
        return name

    def emit(G, prefix, force_const, counter, is_graph):
        """Append the spec's nodes to G.  -> list of output names of the spec's outs.
        is_graph: G is a real graph (main / branch / loop body) that may own initializers; False: a function body."""
        for idx, nd in enumerate(nodes):
            ins = []
            for r in nd["i"]:
                if r is None:
                    ins.append("")
                elif "x" in r:
                    ins.append(cap(r["x"]) if wrap == "func" else r["x"])
                elif "n" in r:
                    ins.append(f"{prefix}v{r['n']}_{r.get('k', 0)}")
                else:
                    src = "const" if force_const else r.get("src", "const")
                    form = "value" if force_const else r.get("form", "value")
                    a = arr(r["c"])
                    t = r["c"]["t"]
                    name = f"{prefix}k{next(counter)}"
                    if src == "init" and not is_graph:
                        src = "init_main"
                    if src == "const":
                        G.nodes.append(const_node(name, a, t, form))
                    elif src == "init":
                        G.inits.append(nh.from_array(a, name))
                    elif name in main_defined:
                        pass  # second instance: same main-scope value
                    elif src == "init_main":
                        main.inits.append(nh.from_array(a, name))
                    elif src == "init_in":
                        main.inits.append(nh.from_array(a, name))
                        main.inputs.append(_vi(name, t, list(a.shape)))
                        B.init_in[name] = a
                        B.overrides[name] = [arr(o) for o in r.get("ov", [])]
                    elif src == "input":
                        main.inputs.append(_vi(name, t, list(a.shape)))
                        B.fixed[name] = a
                    elif src == "outer":
                        main.nodes.append(const_node(name, a, t, form))
                    else:
                        raise ValueError(src)
                    if src in ("init_main", "init_in", "input", "outer"):
                        main_defined.add(name)
                        if wrap == "func":
                            cap(name)
                    ins.append(name)
            while ins and ins[-1] == "":
                ins.pop()
            outs = [f"{prefix}v{idx}_{k}" for k in range(nd.get("no", 1))]
            n = h.make_node(nd["op"], ins, outs, name=f"{prefix}n{idx}", domain=nd.get("dom", ""))
            use_ref = wrap == "func" and not inner_if and idx == ref_node and not force_const
            for an, av in (nd.get("a") or {}).items():
                n.attribute.append(_ref_attr(an, av) if use_ref else _attr(an, av))
            G.nodes.append(n)
        return [f"{prefix}v{r['n']}_{r.get('k', 0)}" for r in spec["outs"]]

    _plain = []

    def plain_output_types():
        """Output types of the unwrapped nodes (the untaken branch perturbs every output according to its type)."""
        if not _plain:
            plain = dict(spec)
            plain["wrap"] = "none"
            _plain.append(build(plain, check=False))
        return _plain[0]

    def perturb(G, names, prefix):
        """Append Neg / Not / BitwiseNot (per output type) after every name; -> new names, or None (B.problem set)."""
        pb = plain_output_types()
        if pb.problem:
            B.problem = pb.problem
            return None
        out = []
        for j, o in enumerate(names):
            nm = f"{prefix}o{j}"
            ot = pb.model.graph.output[j].type
            if ot.WhichOneof("value") != "tensor_type":
                pop = "Identity"
            else:
                et = ot.tensor_type.elem_type
                pop = "Not" if et == TP.BOOL else "BitwiseNot" if et in (TP.UINT8, TP.UINT16, TP.UINT32, TP.UINT64) \
                    else "Identity" if et == TP.STRING else "Neg"
            G.nodes.append(h.make_node(pop, [o], [nm], name=f"{prefix}p{j}"))
            out.append(nm)
        return out

    def emit_if(G, prefix, counter, cname, then_taken, oprefix):
        """If node in G whose taken branch holds the spec's nodes; -> output names, or None (B.problem set).
        The other branch computes the same chain (constants only) followed by Neg / Not / BitwiseNot so that taking
        the wrong branch is visible."""
        taken, other = _G(), _G()
        t_out = emit(taken, prefix, False, counter, True)
        o_mid = emit(other, prefix + "e_", True, counter, True)
        o_out = perturb(other, o_mid, prefix + "e_")
        if o_out is None:
            return None

        def mk_branch(Gb, name, onames):
            return h.make_graph(Gb.nodes, name, [], [onnx.ValueInfoProto(name=o) for o in onames], initializer=Gb.inits)
        tg, og = mk_branch(taken, "taken", t_out), mk_branch(other, "other", o_out)
        kw = dict(then_branch=tg, else_branch=og) if then_taken else dict(then_branch=og, else_branch=tg)
        onames = [f"{oprefix}{j}" for j in range(len(t_out))]
        G.nodes.append(h.make_node("If", [cname], onames, name="wrap_if" if oprefix == "o" else f"{oprefix}_if", **kw))
        return onames

    def emit_body(G, counter, is_graph, oprefix):
        """The spec's nodes, directly or inside a constant-condition If (``inner_if``), appended to G."""
        if not inner_if:
            return emit(G, "", False, counter, is_graph)
        cname = f"{oprefix}icond"
        G.nodes.append(const_node(cname, np.array(True), "b"))
        return emit_if(G, "", counter, cname, True, f"{oprefix}i")

    extra_imports = []
    functions = []
    onames = []
    if wrap == "none":
        onames = emit(main, "", False, itertools.count(), True)
    elif wrap in ("if_then", "if_else"):
        cval = np.array(wrap == "if_then")
        cname = "cond"

        def add_cond():
            # (emitted after the first instance's operands: keeps the node / input order of the one-instance form)
            if wsrc == "const":
                main.nodes.insert(len(main.nodes) - 1, h.make_node("Constant", [], [cname], value=nh.from_array(cval, cname)))
            elif wsrc == "init":
                main.inits.append(nh.from_array(cval, cname))
            elif wsrc == "init_in":
                main.inits.append(nh.from_array(cval, cname))
                main.inputs.append(_vi(cname, "b", []))
                B.init_in[cname] = cval
                B.overrides[cname] = [np.array(not bool(cval))]
            elif wsrc == "input":
                main.inputs.append(_vi(cname, "b", []))
                B.fixed[cname] = cval
                B.cond_name = cname
            else:
                raise ValueError(wsrc)
        for rep in range(reps):
            op_ = "o" if rep == 0 else f"r{rep}o"
            if not inner_if:
                got = emit_if(main, "", itertools.count(), cname, wrap == "if_then", op_)
            else:
                # outer If (condition per wsrc) whose taken branch holds the constant-condition inner If
                taken, other = _G(), _G()
                t_out = emit_body(taken, itertools.count(), True, "w")
                if t_out is None:
                    return B
                o_out = perturb(other, emit(other, "f_", True, itertools.count(), True), "f_")
                if o_out is None:
                    return B
                tg = h.make_graph(taken.nodes, "outer_taken", [], [onnx.ValueInfoProto(name=o) for o in t_out],
                                  initializer=taken.inits)
                og = h.make_graph(other.nodes, "outer_other", [], [onnx.ValueInfoProto(name=o) for o in o_out],
                                  initializer=other.inits)
                kw = dict(then_branch=tg, else_branch=og) if wrap == "if_then" else dict(then_branch=og, else_branch=tg)
                got = [f"{op_}{j}" for j in range(len(t_out))]
                main.nodes.append(h.make_node("If", [cname], got, name="wrap_if" if rep == 0 else f"{op_}_if", **kw))
            if got is None:
                return B
            if rep == 0:
                add_cond()
            onames += got
    elif wrap == "loop":
        for rep in range(reps):
            op_ = "o" if rep == 0 else f"r{rep}o"
            body = _G()
            b_out = emit_body(body, itertools.count(), True, "w")
            if b_out is None:
                return B
            body.nodes.append(h.make_node("Identity", ["cond_in"], ["cond_out"], name="keep_going"))
            bg = h.make_graph(body.nodes, "body", [_vi("iter", "i64", []), _vi("cond_in", "b", [])],
                              [_vi("cond_out", "b", [])] + [onnx.ValueInfoProto(name=o) for o in b_out],
                              initializer=body.inits)
            got = [f"{op_}{j}" for j in range(len(b_out))]
            if rep == 0:
                main.inits.append(nh.from_array(np.array(2, dtype=np.int64), "loop_M"))
                main.inits.append(nh.from_array(np.array(True), "loop_c"))
            main.nodes.append(h.make_node("Loop", ["loop_M", "loop_c"], got, name="wrap_loop" if rep == 0 else f"{op_}_loop", body=bg))
            onames += got
    elif wrap == "func":
        body = _G()
        f_out = emit_body(body, itertools.count(), False, "w")
        if f_out is None:
            return B
        last = nodes[ref_node]
        attr_names = [] if inner_if else list((last.get("a") or {}).keys())
        fn = h.make_function(LOCAL_DOMAIN, "F", list(captured), f_out, body.nodes,
                             opset_imports=[h.make_opsetid("", opset)], attributes=attr_names)
        functions.append(fn)
        for rep in range(reps):
            op_ = "o" if rep == 0 else f"r{rep}o"
            got = [f"{op_}{j}" for j in range(len(f_out))]
            call = h.make_node("F", list(captured), got, name="wrap_call" if rep == 0 else f"{op_}_call", domain=LOCAL_DOMAIN)
            if not inner_if:
                for an, av in (last.get("a") or {}).items():
                    call.attribute.append(_attr(an, av))
            main.nodes.append(call)
            onames += got
        extra_imports.append(h.make_opsetid(LOCAL_DOMAIN, 1))
    else:
        raise ValueError(wrap)
    outs = [onnx.ValueInfoProto(name=o) for o in onames]

    def assemble():
        g = h.make_graph(main.nodes, "g", main.inputs, outs, initializer=main.inits)
        return h.make_model(g, opset_imports=[h.make_opsetid("", opset)] + extra_imports,
                            functions=functions, ir_version=10 if opset >= 21 else 8, producer_name="vf.mz")

    m = assemble()
    try:
        mi = onnx.shape_inference.infer_shapes(m, strict_mode=True, data_prop=True)
    except Exception as e:  # noqa: BLE001
        B.problem = "infer: " + str(e).split("\n")[0][:160]
        return B
    for o in mi.graph.output:
        if not o.type.WhichOneof("value"):
            B.problem = "output type not inferred"
            return B
    if check:
        try:
            onnx.checker.check_model(mi, full_check=True)
        except Exception as e:  # noqa: BLE001
            B.problem = "checker: " + str(e).split("\n")[0][:160]
            return B
    # keep the model free of inferred intermediate value_info: the optimizer input is what an exporter
    # would hand over *after* declaring inputs/outputs; (value_info dimension is explored separately)
    if not spec.get("keep_value_info", False):
        del mi.graph.value_info[:]
    if spec.get("sym_out_dims", False):
        for j, vi_ in enumerate(mi.graph.output):
            tt = vi_.type.tensor_type
            if vi_.type.WhichOneof("value") == "tensor_type" and tt.HasField("shape"):
                for k_, d in enumerate(tt.shape.dim):
                    d.ClearField("dim_value")
                    d.dim_param = f"o{j}_d{k_}"
    if spec.get("anon_out_dims", False):
        # write the unknown dims that shape inference named unk__N anonymously (neither dim_value nor dim_param)
        for vi_ in list(mi.graph.output) + list(mi.graph.value_info):
            tt = vi_.type.tensor_type
            if tt.HasField("shape"):
                for d in tt.shape.dim:
                    if d.dim_param.startswith("unk__"):
                        d.ClearField("dim_param")
    B.model = mi
    return B


def render(model, limit=1200):
    """Short text rendering for evidence samples."""
    try:
        s = onnx.printer.to_text(model)
    except Exception:  # noqa: BLE001
        s = str([n.op_type for n in model.graph.node])
    return s[:limit]


# ------------------------------------------------------------------------------------------------
# live optimizer alphabet
# ------------------------------------------------------------------------------------------------
def live_alphabet():
    """-> dict(registry=[op...], rules=[(rule name, [op types producer->consumer])], ops=set of op types)."""
    from onnxscript import rewriter
    from onnxscript.optimizer import _constant_folding as cf
    reg = sorted(op for (dom, op) in cf.registry.op_evaluators if dom == "")
    rules = []
    ops = set(reg)
    for r in rewriter._DEFAULT_REWRITE_RULES:
        names = []
        try:
            for n in r._target_pattern:
                names.append(str(n.op))
        except Exception:  # noqa: BLE001
            names = []
        nm = r.name or getattr(getattr(r, "_target_pattern", None), "_name", None) or "rule"
        rules.append((str(nm), names))
        ops.update(names)
    return dict(registry=reg, rules=rules, ops=ops)


# ------------------------------------------------------------------------------------------------
# op -> configs
# ------------------------------------------------------------------------------------------------
class Cfg:
    """One way of using an op: attributes + operand roles.

    kin:   tuple of primary-operand kinds accepted (F1..F4 float rank, I2 int64 rank 2, B2 bool, S1 int64 vector,
           S0 int64 scalar, Q sequence of float tensors, U4 uint8 NCHW, H2 float16 rank 2, J1 int32 vector,
           T1 string vector, G2 bfloat16 rank 2 (constants only), O optional tensor)
    kout:  kind of output 0 ("=" same as input, "+1"/"-1" rank change, or a kind)
    ops:   list of operands in input order; the string "P" marks the primary operand, None an omitted
           optional input, {"x": name} another graph input, otherwise a pool (list of tensor specs; entry 0 default)
    roles: names of the pooled operands (data / shape / axes / bound / index / cond ...), for keys and evidence
    """

    def __init__(self, op, tag, kin, kout, ops=("P",), attrs=None, nout=1, roles=None, opsets=(18,), xs=None):
        self.op, self.tag, self.kin, self.kout = op, tag, tuple(kin), kout
        self.ops, self.attrs, self.nout, self.opsets = list(ops), dict(attrs or {}), nout, tuple(opsets)
        self.pooled = [j for j, o in enumerate(self.ops) if isinstance(o, list)]
        self.roles = list(roles) if roles else [f"in{j}" for j in self.pooled]
        self.xs = xs  # extra graph inputs needed [(name, t, shape)]
        self.id = f"{op}.{tag}"

    def out_kind(self, k):
        if self.kout == "=":
            return k
        if self.kout in ("+1", "-1"):
            r = int(k[1]) + (1 if self.kout == "+1" else -1)
            return f"{k[0]}{r}" if 0 <= r <= 4 else None
        return self.kout


# ---- pools ------------------------------------------------------------------------------------
FS = [f(0.0), f(1.0), f(-1.0), f(-2.5), f(1e-7), f(0.9999999), f([1.0]), f([[1.0]]), f([0.0]), f([[0.0]]),
      f(6.0), f(3.0)]
FD = [f([1.0, 2.0, 3.0]), f([[0.0, 0.0, 0.0], [0.0, 0.0, 0.0]]), f([[1.0, 1.0, 1.0], [1.0, 1.0, 1.0]]),
      f([[1.0], [2.0]]), f([0.0, 0.0, 0.0]), T("f32", np.zeros((0,))), T("f32", np.zeros((0, 3)))]
FB = FS[:10] + FD  # second operand of float binary ops
IS = [i([1]), i([0]), i([-1]), i([-5]), i(1), i(0), i([[1]]), i([2]), i([3]), T("i64", np.zeros((0,)))]
F_KINDS = ("F1", "F2", "F3", "F4")

CONFIGS: list[Cfg] = []


def _add(*a, **k):
    CONFIGS.append(Cfg(*a, **k))


def _table():
    # --- float binary (no-op rules, Min/Max fusions) -------------------------------------------
    for op in ("Add", "Sub", "Mul", "Div"):
        _add(op, "xc", F_KINDS, "=", ["P", FB], roles=["other"])
        _add(op, "cx", F_KINDS, "=", [FB, "P"], roles=["other"])
    _add("Add", "xx", F_KINDS + ("I2", "S1"), "=", ["P", "P"])
    _add("Mul", "xx", F_KINDS, "=", ["P", "P"])
    _add("Pow", "xc", F_KINDS, "=", ["P", [f(2.0), f(1.0), f(0.0), f(0.5), f(-1.0)]], roles=["exp"])
    for op in ("Min", "Max"):
        _add(op, "xc", F_KINDS, "=", ["P", FB], roles=["bound"])
        _add(op, "xcc", F_KINDS, "=", ["P", FS, [f(3.0)] + FS], roles=["bound", "bound2"])
        _add(op, "cx", F_KINDS, "=", [FS, "P"], roles=["bound"])
        _add(op, "x", F_KINDS, "=", ["P"])
    CL = [f(-1.0), f(0.0), f(1.0), f(-2.5), f(3.0), f([1.0]), f([[1.0]]), f(-3.0), f(6.0)]
    CH = [f(2.0), f(6.0), f(0.0), f(-1.0), f(-2.0), f([2.0]), f([[2.0]]), f(-3.0), f(1.0)]
    _add("Clip", "minmax", F_KINDS, "=", ["P", CL, CH], roles=["min", "max"])
    _add("Clip", "min", F_KINDS, "=", ["P", CL], roles=["min"])
    _add("Clip", "max", F_KINDS, "=", ["P", None, CH], roles=["max"])
    _add("Clip", "none", F_KINDS, "=", ["P"])
    for op in ("Relu", "Neg", "Abs", "Tanh", "Sigmoid", "Sqrt", "Log", "Exp", "Reciprocal", "Floor", "Sign",
               "Erf", "Identity", "Softplus", "Ceil"):
        _add(op, "x", F_KINDS, "=", ["P"])
    _add("LeakyRelu", "a", F_KINDS, "=", ["P"], attrs={"alpha": 0.1})
    _add("HardSigmoid", "d", F_KINDS, "=", ["P"])
    _add("Softmax", "d", ("F2", "F3"), "=", ["P"])
    _add("Softmax", "ax0", ("F2", "F3"), "=", ["P"], attrs={"axis": 0})
    # --- integer / bool elementwise --------------------------------------------------------------
    IB = [i(1), i(0), i(-1), i(-5), i([1]), i([[1]]), i([1, 2, 3])]
    for op in ("Add", "Sub", "Mul", "Div"):
        _add(op, "ixc", ("I2",), "=", ["P", IB], roles=["other"])
        _add(op, "icx", ("I2",), "=", [IB, "P"], roles=["other"])
    for op in ("Neg", "Abs", "Identity", "Sign"):
        _add(op, "ix", ("I2",), "=", ["P"])
    _add("Not", "x", ("B2",), "=", ["P"])
    _add("Identity", "bx", ("B2",), "=", ["P"])
    _add("And", "xc", ("B2",), "=", ["P", [T("b", True), T("b", False), T("b", [True, False, True])]], roles=["other"])
    _add("Where", "cxy", ("B2",), "F2", ["P", [f(1.0), f([1.0, 2.0, 3.0])], [f(0.0), f(-1.0)]], roles=["then", "else"])
    for op in ("Equal", "Greater", "Less", "GreaterOrEqual"):
        _add(op, "xc", F_KINDS, "B" + "2", ["P", [f(0.0), f(1.0), f([1.0, 2.0, 3.0])]], roles=["other"])
    _add("IsNaN", "x", F_KINDS, "B2", ["P"])
    # --- casts -----------------------------------------------------------------------------------
    _add("Cast", "f32", F_KINDS + ("H2", "I2", "B2"), "F2", ["P"], attrs={"to": TP.FLOAT})
    _add("Cast", "f16", F_KINDS, "H2", ["P"], attrs={"to": TP.FLOAT16})
    _add("Cast", "bf16", F_KINDS, "H2", ["P"], attrs={"to": TP.BFLOAT16})
    _add("Cast", "i64", F_KINDS + ("I2", "S1", "S0", "J1"), "I2", ["P"], attrs={"to": TP.INT64})
    _add("Cast", "i32", F_KINDS + ("I2",), "I2", ["P"], attrs={"to": TP.INT32})
    _add("Cast", "bool", F_KINDS + ("I2",), "B2", ["P"], attrs={"to": TP.BOOL})
    _add("Cast", "f64", F_KINDS, "F2", ["P"], attrs={"to": TP.DOUBLE})
    _add("Cast", "s.i64", ("S1", "S0"), "=", ["P"], attrs={"to": TP.INT64})
    _add("Cast", "s.i32", ("S1",), "J1", ["P"], attrs={"to": TP.INT32})
    _add("Cast", "s.f32", ("S1",), "F1", ["P"], attrs={"to": TP.FLOAT})
    _add("Cast", "h.f32", ("H2",), "F2", ["P"], attrs={"to": TP.FLOAT})
    _add("Cast", "h.f16", ("H2",), "H2", ["P"], attrs={"to": TP.FLOAT16})
    LK = [f(0.0), T("f16", 1.0), i(1), T("f64", [1.0]), T("b", True), T("i32", 3)]
    _add("CastLike", "xc", F_KINDS + ("I2", "H2"), "F2", ["P", LK], roles=["like"])
    _add("CastLike", "xx", F_KINDS, "=", ["P", "P"])
    # --- Dropout -----------------------------------------------------------------------------------
    RT = [f(0.0), f(0.5), f([0.0]), f(1.0)]
    TM = [T("b", False), T("b", True), T("b", [False])]
    _add("Dropout", "x", F_KINDS, "=", ["P"], opsets=(18, 10, 12))
    _add("Dropout", "x2", F_KINDS, "=", ["P"], nout=2, opsets=(18, 10, 12))
    _add("Dropout", "xr", F_KINDS, "=", ["P", RT], roles=["ratio"], attrs={"seed": 1})
    _add("Dropout", "xrt", F_KINDS, "=", ["P", RT, TM], roles=["ratio", "training"], attrs={"seed": 1})
    _add("Dropout", "xrt2", F_KINDS, "=", ["P", RT, TM], roles=["ratio", "training"], attrs={"seed": 1}, nout=2)
    _add("Dropout", "x_t", F_KINDS, "=", ["P", None, TM], roles=["training"], attrs={"seed": 1})
    # training mode ON with a non-zero ratio as the DEFAULT, so that one deviation (the source of `training`: graph
    # input / overridable initializer) reaches "training_mode only known at run time and true" (a seeded defect)
    RT_ON = [f(0.5), f(0.0)]
    TM_ON = [T("b", True), T("b", False)]
    _add("Dropout", "xrt_on", F_KINDS, "=", ["P", RT_ON, TM_ON], roles=["ratio", "training"], attrs={"seed": 1})
    _add("Dropout", "xrt2_on", F_KINDS, "=", ["P", RT_ON, TM_ON], roles=["ratio", "training"], attrs={"seed": 1}, nout=2)
    _add("Dropout", "attr", F_KINDS, "=", ["P"], attrs={"ratio": 0.0}, opsets=(10,))
    _add("Dropout", "attr2", F_KINDS, "=", ["P"], attrs={"ratio": 0.5}, nout=2, opsets=(10,))
    # --- Expand / Reshape / Squeeze / Unsqueeze / Transpose / Flatten ----------------------------------
    ES = [i([2, 3]), i([1, 3]), i([1, 1]), i([1]), i([3]), i([2, 2, 3]), i([1, 2, 3]), i([2, 1]), i([4, 3]),
          i([0, 3]), T("i64", np.zeros((0,))), i([[2, 3]])]
    _add("Expand", "xs", ("F1", "F2", "F3", "I2"), "=", ["P", ES], roles=["shape"])
    RS = [i([3, 2]), i([2, 3]), i([-1]), i([0, -1]), i([6]), i([1, 2, 3]), i([2, -1]), i([0, 3]), i([-1, 0]),
          i([2, 2]), i([1, 6]), i([6, 1]), i([2, 0]), T("i64", np.zeros((0,))), i([0, 0]), i([-1, 3])]
    _add("Reshape", "xs", ("F1", "F2", "F3", "I2"), "F2", ["P", RS], roles=["shape"])
    _add("Reshape", "xs.az", ("F1", "F2", "F3"), "F2", ["P", RS], roles=["shape"], attrs={"allowzero": 1})
    AX = [i([0]), i([1]), i([-1]), i([2]), i([0, 1]), i(0), i([-3])]
    _add("Unsqueeze", "xa", ("F1", "F2", "F3", "S0"), "+1", ["P", AX], roles=["axes"])
    _add("Squeeze", "xa", ("F2", "F3", "F4"), "-1", ["P", AX], roles=["axes"])
    _add("Squeeze", "x", ("F1", "F2", "F3", "F4", "S1"), "-1", ["P"])
    _add("Squeeze", "attr", ("F2", "F3"), "-1", ["P"], attrs={"axes": [0]}, opsets=(11,))
    # several unit dims of which the axes select only some (seeded C03e: a Squeeze implementation of another opset
    # version ignored the attribute and squeezed every unit dim)
    _add("Squeeze", "attr.u", ("E3",), "F2", ["P"], attrs={"axes": [0]}, opsets=(11, 1))
    _add("Squeeze", "attr.u1", ("E3",), "F2", ["P"], attrs={"axes": [1]}, opsets=(11,))
    _add("Squeeze", "xa.u", ("E3",), "F2", ["P", [i([0]), i([1]), i([0, 1]), i([-3])]], roles=["axes"])
    for tag, perm in (("none", None), ("10", [1, 0]), ("01", [0, 1]), ("021", [0, 2, 1]), ("012", [0, 1, 2]),
                      ("201", [2, 0, 1]), ("120", [1, 2, 0]), ("0132", [0, 1, 3, 2]), ("0123", [0, 1, 2, 3])):
        kin = F_KINDS if perm is None else (f"F{len(perm)}",)
        _add("Transpose", tag, kin, "=", ["P"], attrs={} if perm is None else {"perm": perm})
    for tag, ax in (("d", None), ("0", 0), ("2", 2), ("m1", -1), ("1", 1)):
        _add("Flatten", tag, F_KINDS, "F2", ["P"], attrs={} if ax is None else {"axis": ax})
    # --- Slice / Concat / Gather / Split ---------------------------------------------------------------
    ST = [i([0]), i([1]), i([-1]), i([0, 0]), i(0)]
    EN = [i([INT64_MAX]), i([2]), i([3]), i([1]), i([100]), i([-1]), i([2, 3]), i([0])]
    SA = [i([0]), i([1]), i([-1]), i([0, 1])]
    SP = [i([1]), i([2]), i([-1]), i([1, 1])]
    _add("Slice", "se", F_KINDS + ("S1",), "=", ["P", ST, EN], roles=["starts", "ends"])
    _add("Slice", "sea", F_KINDS, "=", ["P", ST, EN, SA], roles=["starts", "ends", "axes"])
    _add("Slice", "seas", F_KINDS + ("S1",), "=", ["P", ST, EN, SA, SP], roles=["starts", "ends", "axes", "steps"])
    CD = [f([[7.0, 8.0, 9.0]]), T("f32", np.zeros((0, 3))), f([[1.0, 2.0, 3.0], [4.0, 5.0, 6.0]]),
          T("f32", np.zeros((2, 0))), f([[1.0], [2.0]])]
    for tag, ax in (("0", 0), ("1", 1), ("m1", -1)):
        _add("Concat", "xc" + tag, ("F2",), "=", ["P", CD], roles=["other"], attrs={"axis": ax})
        _add("Concat", "cx" + tag, ("F2",), "=", [CD, "P"], roles=["other"], attrs={"axis": ax})
    _add("Concat", "x", F_KINDS + ("S1",), "=", ["P"], attrs={"axis": 0})
    _add("Concat", "xx", F_KINDS + ("S1",), "=", ["P", "P"], attrs={"axis": 0})
    _add("Concat", "xcc", ("F2",), "=", ["P", CD, [T("f32", np.zeros((0, 3)))] + CD], roles=["other", "other2"],
         attrs={"axis": 0})
    GI = [i([0]), i(1), i([-1]), i([[0, 1]]), i([1, 0]), i(0), i(-1)]
    for tag, ax in (("d", None), ("0", 0), ("1", 1), ("m1", -1)):
        _add("Gather", "xi" + tag, ("F1", "F2", "F3", "I2"), "=", ["P", GI], roles=["indices"],
             attrs={} if ax is None else {"axis": ax})
    _add("Split", "n2", ("F2",), "=", ["P"], attrs={"num_outputs": 2, "axis": 0}, nout=2)
    _add("Split", "s", ("F2",), "=", ["P", [i([1, 2]), i([3, 0]), i([2, 1])]], roles=["split"], attrs={"axis": 1}, nout=2)
    # --- shape computations ------------------------------------------------------------------------------
    for tag, at in (("d", {}), ("0_1", {"start": 0, "end": 1}), ("1_", {"start": 1}), ("m1_", {"start": -1}),
                    ("0_m1", {"start": 0, "end": -1}), ("_1", {"end": 1}), ("0_0", {"start": 0, "end": 0}),
                    ("1_2", {"start": 1, "end": 2}), ("0_", {"start": 0})):
        _add("Shape", tag, F_KINDS + ("I2", "B2", "H2"), "S1", ["P"], attrs=at)
    _add("Size", "x", F_KINDS + ("I2", "S1"), "S0", ["P"])
    SB = [i([-5]), i([1]), i([0]), i([-1]), i(1), i(-5), i([2]), i([[1]]), i([1, 1])]
    for op in ("Add", "Sub", "Mul"):
        _add(op, "sc", ("S1", "S0"), "=", ["P", SB], roles=["other"])
        _add(op, "cs", ("S1", "S0"), "=", [SB, "P"], roles=["other"])
    _add("Div", "sc", ("S1", "S0"), "=", ["P", [i([1]), i([2]), i(1)]], roles=["other"])
    for op in ("Abs", "Neg", "Identity"):
        _add(op, "s", ("S1", "S0"), "=", ["P"])
    _add("Max", "sc", ("S1", "S0"), "=", ["P", [i([1]), i([0])]], roles=["bound"])
    GS = [i([0]), i([-1]), i([1]), i(0), i(-1), i([0, 1]), i([0, 0]), i(1), i([[0]])]
    _add("Gather", "si", ("S1",), "S1", ["P", GS], roles=["indices"], attrs={"axis": 0})
    _add("Gather", "si.d", ("S1",), "S1", ["P", GS], roles=["indices"])
    SC = [i([3]), i([1]), i([-1]), i([0]), T("i64", np.zeros((0,))), i([2, 3])]
    _add("Concat", "sc", ("S1",), "S1", ["P", SC], roles=["other"], attrs={"axis": 0})
    _add("Concat", "cs", ("S1",), "S1", [SC, "P"], roles=["other"], attrs={"axis": 0})
    _add("Unsqueeze", "s0", ("S0",), "S1", ["P", [i([0]), i([-1])]], roles=["axes"])
    _add("Squeeze", "s1", ("S1",), "S0", ["P", [i([0]), i([-1])]], roles=["axes"])
    _add("Reshape", "s", ("S1", "S0"), "S1", ["P", [i([-1]), i([1]), i([2]), i([1, -1])]], roles=["shape"])
    _add("ReduceProd", "s", ("S1",), "S0", ["P"], attrs={"keepdims": 0})
    _add("ConstantOfShape", "d", ("S1",), "F2", ["P"])
    _add("ConstantOfShape", "f1", ("S1",), "F2", ["P"], attrs={"value": f([1.0])})
    _add("ConstantOfShape", "i7", ("S1",), "I2", ["P"], attrs={"value": i([7])})
    _add("ConstantOfShape", "b", ("S1",), "B2", ["P"], attrs={"value": T("b", [True])})
    XF = [f([[1.0, 2.0, 3.0]]), f([[1.0, 2.0, 3.0], [4.0, 5.0, 6.0]]), f(1.0), f([1.0, 2.0, 3.0])]
    _add("Expand", "cs", ("S1",), "F2", [XF, "P"], roles=["data"])
    _add("Reshape", "cs", ("S1",), "F2", [[f([1.0, 2.0, 3.0, 4.0, 5.0, 6.0]), f([[1.0, 2.0, 3.0], [4.0, 5.0, 6.0]])], "P"],
         roles=["data"])
    _add("Range", "0s1", ("S0",), "S1", [[i(0), i(1)], "P", [i(1), i(2), i(-1)]], roles=["start", "delta"])
    _add("Tile", "xs", ("F1",), "=", ["P", [i([1]), i([2]), i([0])]], roles=["repeats"])
    # --- sequences -----------------------------------------------------------------------------------------
    _add("SequenceConstruct", "xx", ("F2",), "Q", ["P", "P"])
    _add("SequenceConstruct", "xc", ("F2",), "Q", ["P", [f([[7.0, 8.0, 9.0]]), f([[1.0, 2.0, 3.0], [4.0, 5.0, 6.0]])]],
         roles=["other"])
    _add("SequenceConstruct", "x", ("F2",), "Q", ["P"])
    SPL = [i(1), i(2), i([1, 1]), i([2, 1]), i([1, 2]), i(3), i([3])]  # scalar 0 crashes onnx shape inference (SIGFPE)
    for tag, at in (("d", {}), ("a1", {"axis": 1}), ("a1k0", {"axis": 1, "keepdims": 0}), ("am1", {"axis": -1}),
                    ("a0k0", {"axis": 0, "keepdims": 0})):
        _add("SplitToSequence", "xs." + tag, ("F2", "F3"), "Q", ["P", SPL], roles=["split"], attrs=at, opsets=(18, 13, 12))
        _add("SplitToSequence", "x." + tag, ("F2", "F3"), "Q", ["P"], attrs=at, opsets=(18, 13, 12))
    PS = [i(0), i(1), i(-1), i([0]), i(5), T("i32", 1), i(2), i(-2)]
    _add("SequenceAt", "qp", ("Q",), "F2", ["P", PS], roles=["position"])
    for tag, at in (("a0", {"axis": 0}), ("a1", {"axis": 1}), ("a0n", {"axis": 0, "new_axis": 1}),
                    ("a1n", {"axis": 1, "new_axis": 1}), ("am1n", {"axis": -1, "new_axis": 1}), ("am1", {"axis": -1})):
        _add("ConcatFromSequence", tag, ("Q",), "F2", ["P"], attrs=at, opsets=(18, 13, 12))
    _add("SequenceLength", "q", ("Q",), "S0", ["P"])
    _add("Identity", "q", ("Q",), "Q", ["P"])
    _add("SequenceInsert", "qc", ("Q",), "Q", ["P", [f([[7.0, 8.0, 9.0]])]], roles=["tensor"])
    # --- MatMul / Gemm / Conv family --------------------------------------------------------------------------
    W32 = [f([[1.0, 0.0], [0.0, 1.0], [2.0, -1.0]]), f([1.0, -1.0, 0.5]), f(np.zeros((3, 2))), f([[[1.0, 0.0], [0.0, 1.0], [2.0, -1.0]]])]
    _add("MatMul", "xw", ("F2", "F3"), "=", ["P", W32], roles=["w"])
    _add("MatMul", "wx", ("F2",), "=", [[f([[1.0, 2.0], [0.0, -1.0]]), f([1.0, -1.0])], "P"], roles=["w"])
    GB = [f([0.0, 0.0]), f([1.0, -1.0]), f(0.0), f([[0.0, 0.0]]), f([[0.0, 0.0], [0.0, 0.0]]), f([-0.0, 0.0]), f(1.0)]
    _add("Gemm", "xw", ("F2",), "=", ["P", W32[:1] + [W32[2]]], roles=["w"])
    _add("Gemm", "xwb", ("F2",), "=", ["P", W32[:1], GB], roles=["w", "bias"])
    _add("Gemm", "xwb.ab", ("F2",), "=", ["P", W32[:1], GB], roles=["w", "bias"], attrs={"alpha": 0.5, "beta": 2.0})
    _add("Gemm", "xwb.tB", ("F2",), "=", ["P", [f([[1.0, 0.0, 2.0], [0.0, 1.0, -1.0]])], GB], roles=["w", "bias"],
         attrs={"transB": 1})
    _add("Gemm", "xwb.tA", ("F2",), "=", ["P", [f([[1.0, 0.0], [0.0, 1.0]])], [f([0.0, 0.0]), f([1.0, 2.0])]],
         roles=["w", "bias"], attrs={"transA": 1})
    WC = [f(((np.arange(36) % 5) - 2.0).reshape(2, 2, 3, 3)), f(np.ones((2, 2, 1, 1)))]
    WG = [f(((np.arange(18) % 5) - 2.0).reshape(2, 1, 3, 3))]
    CB = [f([0.0, 0.0]), f([1.0, -1.0]), f([-0.0, 0.0])]
    conv_attrs = [("d", {}), ("p1", {"pads": [1, 1, 1, 1]}), ("su", {"auto_pad": "SAME_UPPER"}),
                  ("sl", {"auto_pad": "SAME_LOWER"}), ("va", {"auto_pad": "VALID"}), ("s2", {"strides": [2, 2]}),
                  ("su.s2", {"auto_pad": "SAME_UPPER", "strides": [2, 2]}), ("d2", {"dilations": [2, 2], "pads": [2, 2, 2, 2]}),
                  ("su.d2", {"auto_pad": "SAME_UPPER", "dilations": [2, 2]}), ("ks", {"kernel_shape": [3, 3]}),
                  ("p12", {"pads": [1, 2, 0, 1]}), ("ns", {"auto_pad": "NOTSET", "pads": [0, 1, 0, 1]})]
    for tag, at in conv_attrs:
        _add("Conv", "xw." + tag, ("F4",), "=", ["P", WC], roles=["w"], attrs=at)
        _add("Conv", "xwb." + tag, ("F4",), "=", ["P", WC[:1], CB], roles=["w", "bias"], attrs=at)
    _add("Conv", "xw.g2", ("F4",), "=", ["P", WG], roles=["w"], attrs={"group": 2})
    _add("Conv", "xwb.g2", ("F4",), "=", ["P", WG, CB], roles=["w", "bias"], attrs={"group": 2})
    for tag, at in (("d", {}), ("p1", {"pads": [1, 1, 1, 1]}), ("s2", {"strides": [2, 2]}),
                    ("op", {"strides": [2, 2], "output_padding": [1, 1]}), ("su", {"auto_pad": "SAME_UPPER"})):
        _add("ConvTranspose", "xw." + tag, ("F4",), "=", ["P", WC[:1]], roles=["w"], attrs=at)
        _add("ConvTranspose", "xwb." + tag, ("F4",), "=", ["P", WC[:1], CB], roles=["w", "bias"], attrs=at)
    PD = [i([0, 0, 1, 1, 0, 0, 1, 1]), i([0, 0, 0, 0, 0, 0, 0, 0]), i([0, 0, 1, 2, 0, 0, 0, 1]), i([0, 1, 0, 0, 0, 0, 0, 0]),
          i([0, 0, -1, 0, 0, 0, 0, 0]), i([1, 0, 0, 0, 0, 0, 0, 0])]
    PV = [f(0.0), f(1.0), f([0.0]), f(-0.0)]
    _add("Pad", "xp", ("F4",), "=", ["P", PD], roles=["pads"])
    _add("Pad", "xpv", ("F4",), "=", ["P", PD, PV], roles=["pads", "value"])
    _add("Pad", "xp.refl", ("F4",), "=", ["P", PD], roles=["pads"], attrs={"mode": "reflect"})
    _add("Pad", "xp.edge", ("F4",), "=", ["P", PD], roles=["pads"], attrs={"mode": "edge"})
    _add("Pad", "xp.const", ("F4",), "=", ["P", PD], roles=["pads"], attrs={"mode": "constant"})
    _add("Pad", "xpva", ("F4",), "=", ["P", [i([1, 1, 1, 1]), i([1, 0, 0, 1]), i([0, 0, 0, 0])], [f(0.0), f(1.0)],
                                       [i([2, 3]), i([-2, -1]), i([3, 2]), i([0, 1]), i([1, 2])]],
         roles=["pads", "value", "axes"])
    _add("Pad", "xp_a", ("F4",), "=", ["P", [i([1, 1, 1, 1])], None, [i([2, 3]), i([-2, -1]), i([3, 2])]],
         roles=["pads", "axes"])
    _add("Pad", "f2", ("F2",), "=", ["P", [i([0, 1, 0, 1]), i([0, 0, 0, 0])]], roles=["pads"])
    V2 = [f([1.0, 2.0]), f([1.0, 1.0]), f([0.0, 0.0]), f([0.5, -1.0])]
    VV = [f([1.0, 4.0]), f([1.0, 1.0]), f([0.0, 0.0])]
    V3 = [f([1.0, 2.0, 0.5]), f([1.0, 1.0, 1.0])]
    for tag, at in (("d", {}), ("eps", {"epsilon": 0.1}), ("eps0", {"epsilon": 0.0})):
        _add("BatchNormalization", "c2." + tag, ("F4", "F2"), "=", ["P", V2, V2[1:] + V2[:1], V2[2:] + V2[:2], VV],
             roles=["scale", "bias", "mean", "var"], attrs=at)
    _add("BatchNormalization", "c3", ("F2",), "=", ["P", V3, V3[1:] + V3[:1], V3[1:] + V3[:1], V3[1:] + V3[:1]],
         roles=["scale", "bias", "mean", "var"])
    # --- quantized conv -----------------------------------------------------------------------------------------
    WU = [T("u8", (np.arange(36) % 7).reshape(2, 2, 3, 3))]
    ZP = [T("u8", 0), T("u8", 1), T("u8", [0]), T("u8", 128)]
    _add("ConvInteger", "xw", ("U4",), "I2", ["P", WU], roles=["w"])
    _add("ConvInteger", "xwz", ("U4",), "I2", ["P", WU, ZP], roles=["w", "x_zp"])
    _add("ConvInteger", "xwzz", ("U4",), "I2", ["P", WU, ZP, ZP], roles=["w", "x_zp", "w_zp"])
    _add("ConvInteger", "xwz.su", ("U4",), "I2", ["P", WU, ZP], roles=["w", "x_zp"], attrs={"auto_pad": "SAME_UPPER"})
    _add("ConvInteger", "xwz.p1", ("U4",), "I2", ["P", WU, ZP], roles=["w", "x_zp"], attrs={"pads": [1, 1, 1, 1]})
    PDU = [T("u8", 0), T("u8", 1), T("u8", 128)]
    _add("Pad", "u.xp", ("U4",), "=", ["P", PD], roles=["pads"])
    _add("Pad", "u.xpv", ("U4",), "=", ["P", PD, PDU], roles=["pads", "value"])
    QB = [T("i32", [0, 0]), T("i32", [1, -1])]
    QS = [f(0.5), f(1.0)]
    _add("QLinearConv", "nob", ("U4",), "=", ["P", QS, ZP[:2], WU, QS, ZP[:1], QS, ZP[:2]],
         roles=["x_scale", "x_zp", "w", "w_scale", "w_zp", "y_scale", "y_zp"])
    _add("QLinearConv", "b", ("U4",), "=", ["P", QS, ZP[:2], WU, QS, ZP[:1], QS, ZP[:2], QB],
         roles=["x_scale", "x_zp", "w", "w_scale", "w_zp", "y_scale", "y_zp", "bias"])
    # --- ScatterND ---------------------------------------------------------------------------------------------
    SI = [i([[0], [1]]), i([[1], [0]]), i([[0]]), i([[0], [0]]), i([[1]])]
    SU = [f([[9.0, 8.0, 7.0], [6.0, 5.0, 4.0]]), f([[9.0, 8.0, 7.0]])]
    for tag, at in (("d", {}), ("none", {"reduction": "none"}), ("add", {"reduction": "add"}), ("mul", {"reduction": "mul"}),
                    ("max", {"reduction": "max"})):
        _add("ScatterND", "xiu." + tag, ("F2",), "=", ["P", SI, SU], roles=["indices", "updates"], attrs=at)
        _add("ScatterND", "ciu." + tag, ("F2",), "=", [[f(np.zeros((2, 3))), f(np.ones((2, 3)))], SI, "P"],
             roles=["data", "indices"], attrs=at)
    # --- neutral producers / consumers ---------------------------------------------------------------------------
    RA = [i([1]), i([0]), i([-1]), i([0, 1]), T("i64", np.zeros((0,)))]
    _add("ReduceSum", "xa", ("F2", "F3", "F4"), "=", ["P", RA], roles=["axes"])
    _add("ReduceSum", "xa.k0", ("F2", "F3"), "-1", ["P", RA], roles=["axes"], attrs={"keepdims": 0})
    _add("ReduceSum", "x", ("F2", "F3", "I2"), "=", ["P"])
    _add("ReduceSum", "x.noop", ("F2",), "=", ["P"], attrs={"noop_with_empty_axes": 1})
    _add("ReduceMean", "xa", ("F2", "F3"), "=", ["P", RA[:4]], roles=["axes"])
    _add("ReduceMax", "xa", ("F2",), "=", ["P", RA[:4]], roles=["axes"])
    _add("ArgMax", "a1", ("F2",), "I2", ["P"], attrs={"axis": 1})
    _add("TopK", "k2", ("F2",), "=", ["P", [i([2]), i([1])]], roles=["k"], nout=2)
    _add("CumSum", "a", ("F2",), "=", ["P", [i(1), i(0), i(-1)]], roles=["axis"])
    _add("Trilu", "d", ("F2",), "=", ["P"])
    _add("NonZero", "x", ("F2", "I2"), "I2", ["P"])
    _add("Sum", "xcx", ("F2",), "=", ["P", [f(0.0), f([1.0, 2.0, 3.0])], "P"], roles=["other"])
    _add("Mean", "xc", ("F2",), "=", ["P", [f(0.0), f([1.0, 2.0, 3.0])]], roles=["other"])
    _add("Mod", "xc", ("I2",), "=", ["P", [i(3), i(-3), i(1)]], roles=["other"])
    _add("PRelu", "xc", ("F2",), "=", ["P", [f(0.25), f([0.1, 0.2, 0.3])]], roles=["slope"])
    _add("Tile", "f2", ("F2",), "=", ["P", [i([1, 1]), i([2, 1]), i([0, 1])]], roles=["repeats"])
    _add("OneHot", "s", ("S1",), "F2", ["P", [i(4)], [f([0.0, 1.0])]], roles=["depth", "values"])
    # --- type-generic consumer that keeps a (folded) value alive as an INTERMEDIATE value: Where(runtime cond, v, v) -------
    _add("Where", "rpp", F_KINDS + ("I2", "B2", "S1", "S0", "H2", "J1", "U4", "T1"), "=",
         [{"x": "xc"}, "P", "P"], xs=[("xc", "b", [])])
    # --- string tensors (kind T1: string vector) ---------------------------------------------------------------------
    # (appended after the numeric table so that representative / per-op selections of the numeric alphabet are unchanged)
    TS = [s_(["c"]), s_(["d", "e"]), T("str", np.zeros((0,), dtype=object)), s_([""]), s_(["a", "b", "c"])]
    _add("Identity", "t", ("T1",), "=", ["P"])
    _add("Concat", "t.xc", ("T1",), "=", ["P", TS], roles=["other"], attrs={"axis": 0})
    _add("Concat", "t.cx", ("T1",), "=", [TS, "P"], roles=["other"], attrs={"axis": 0})
    _add("Concat", "t.xx", ("T1",), "=", ["P", "P"], attrs={"axis": 0})
    _add("Gather", "t.xi", ("T1",), "=", ["P", [i([0]), i(1), i([-1]), i([1, 0])]], roles=["indices"])
    _add("Reshape", "t.xs", ("T1",), "T2", ["P", [i([3, 1]), i([-1]), i([1, 3])]], roles=["shape"])
    _add("Unsqueeze", "t.xa", ("T1",), "T2", ["P", [i([0]), i([1])]], roles=["axes"])
    _add("Expand", "t.xs", ("T1",), "T2", ["P", [i([2, 3]), i([3]), i([1])]], roles=["shape"])
    _add("Slice", "t.se", ("T1",), "=", ["P", [i([0]), i([1])], [i([2]), i([INT64_MAX])]], roles=["starts", "ends"])
    _add("Tile", "t.xs", ("T1",), "=", ["P", [i([2]), i([1])]], roles=["repeats"])
    _add("Shape", "t", ("T1",), "S1", ["P"])
    _add("Size", "t", ("T1",), "S0", ["P"])
    _add("Where", "t.cxy", ("T1",), "=", [[T("b", [True, False, True]), T("b", True)], "P", [s_(["x", "y", "z"]), s_("q")]],
         roles=["cond", "else"])
    _add("Equal", "t.xc", ("T1",), "B1", ["P", [s_(["a", "b", "c"]), s_("a")]], roles=["other"], opsets=(19,))
    _add("StringNormalizer", "t.up", ("T1",), "=", ["P"], attrs={"case_change_action": "UPPER"})
    _add("Cast", "t.i64", ("T1",), "S1", ["P"], attrs={"to": TP.INT64})
    _add("Cast", "s.str", ("S1",), "T1", ["P"], attrs={"to": TP.STRING})
    # --- bfloat16 constants (kind G2; the runtimes cannot feed / fetch bfloat16 through numpy: constants only) -----------
    _add("Cast", "g.f32", ("G2",), "F2", ["P"], attrs={"to": TP.FLOAT})
    _add("CastLike", "g.xc", ("G2",), "F2", ["P", [f(0.0)]], roles=["like"])
    # --- optional-typed values (kind O) --------------------------------------------------------------------------------------
    _add("Optional", "x", ("F2",), "O", ["P"])
    _add("Optional", "none", ("F2",), "O", [], attrs={"type": {"tp": ["f32", [2, 3]]}})
    _add("OptionalHasElement", "o", ("O",), "B0", ["P"])
    _add("OptionalGetElement", "o", ("O",), "F2", ["P"])
    _add("Identity", "o", ("O",), "O", ["P"])
    _add("OptionalHasElement", "x", ("F2", "I2"), "B0", ["P"])
    _add("OptionalGetElement", "x", ("F2",), "=", ["P"])


_table()
BY_ID = {c.id: c for c in CONFIGS}
assert len(BY_ID) == len(CONFIGS), "duplicate config id"

# primary operand: (kind) -> list of (label, dtype, declared shape) ; entry 0 default
X_SHAPES = {
    "F1": [("6", "f32", [6]), ("N", "f32", ["N"]), ("1", "f32", [1]), ("0", "f32", [0])],
    "F2": [("2x3", "f32", [2, 3]), ("Nx3", "f32", ["N", 3]), ("?x3", "f32", [None, 3]), ("1x3", "f32", [1, 3]),
           ("0x3", "f32", [0, 3]), ("NxM", "f32", ["N", "M"]), ("1x1", "f32", [1, 1]), ("2x2", "f32", [2, 2])],
    "F3": [("1x2x3", "f32", [1, 2, 3]), ("Nx2x3", "f32", ["N", 2, 3]), ("2x1x3", "f32", [2, 1, 3])],
    "E3": [("1x1x3", "f32", [1, 1, 3]), ("Nx1x3", "f32", ["N", 1, 3]), ("1x1x1", "f32", [1, 1, 1])],
    "F4": [("1x2x4x4", "f32", [1, 2, 4, 4]), ("Nx2x4x4", "f32", ["N", 2, 4, 4]), ("1x2xHxW", "f32", [1, 2, "H", "W"])],
    "I2": [("2x3", "i64", [2, 3]), ("Nx3", "i64", ["N", 3])],
    "B2": [("2x3", "b", [2, 3]), ("Nx3", "b", ["N", 3])],
    "H2": [("2x3", "f16", [2, 3])],
    "U4": [("1x2x4x4", "u8", [1, 2, 4, 4]), ("Nx2x4x4", "u8", ["N", 2, 4, 4])],
    "S1": [("2", "i64", [2]), ("1", "i64", [1]), ("N", "i64", ["N"])],
    "S0": [("", "i64", [])],
    "J1": [("2", "i32", [2])],
    "T1": [("3", "str", [3]), ("N", "str", ["N"]), ("1", "str", [1])],
    "G2": [("2x3", "bf16", [2, 3])],
}
PRODUCED_KINDS = ("Q", "O")   # kinds that only exist as the output of a producer node (sequence, optional)
X_SRCS = ["in", "init", "const", "init_in"]   # how the primary value enters the model
C_SRCS = ["const", "init", "init_in", "input", "outer"]
WRAPS = ["none", "if_then", "if_else", "loop", "func"]
WRAPS_EXT = ["if_then*2", "loop*2", "func*2", "func_if", "func_if*2", "loop_if", "if_if"]   # composed / repeated
C_FORMS = ["value", "attr", "sparse"]
BIND_DEFAULT = {"N": 2, "M": 3, "H": 4, "W": 4, "?": 2}


def x_concrete(shape):
    return concrete_shape(shape, BIND_DEFAULT)


def chain_spec(steps, xsel=("F2", 0), xsrc="in", wrap="none", wsrc="const", opset=18, outs="last", keep_vi=False,
               cform="value", ref_step=None):
    """Lower a chain to a build() spec.

    steps: list of {"cfg": id, "ops": [[value index, src], ...] one per pooled operand, "ov": bool}
    The primary operand of step 0 is the model's primary value ``x`` (kind/shape ``xsel``, source ``xsrc``);
    the primary operand of step j>0 is output 0 of step j-1.
    outs: "last" (all outputs of the last node), "all" (every node's outputs) or "dup" (the last node's outputs and
          output 0 once more: two graph outputs aliasing one value).
    cform: Constant attribute form of every operand whose source is a Constant node (const / outer), see const_node.
    """
    kind, xi = xsel
    label, t, shape = X_SHAPES[kind][xi]
    ins = []
    nodes = []
    if xsrc == "in":
        ins.append(["x", t, shape])
        prim = {"x": "x"}
    else:
        cs = x_concrete(shape)
        val = T(t, valuation(t, cs, 0))
        prim = {"c": val, "src": xsrc}
        if cform != "value":
            prim["form"] = cform
        if xsrc == "init_in":
            prim["ov"] = [T(t, valuation(t, cs, 2)), T(t, valuation(t, cs, 4))]
    for j, st in enumerate(steps):
        c = BY_ID[st["cfg"]]
        p = prim if j == 0 else {"n": j - 1, "k": 0}
        sel = st.get("ops") or []
        refs = []
        pj = 0
        for o in c.ops:
            if o == "P":
                refs.append(dict(p))
            elif o is None:
                refs.append(None)
            elif isinstance(o, dict):
                refs.append(dict(o))
            else:
                vi, src = sel[pj] if pj < len(sel) else (0, "const")
                pj += 1
                r = {"c": o[vi], "src": src}
                if cform != "value":
                    r["form"] = cform
                if src == "init_in":
                    r["ov"] = override_values(o, vi)
                refs.append(r)
        nodes.append({"op": c.op, "a": c.attrs, "i": refs, "no": c.nout})
        for extra in (c.xs or []):
            if extra not in ins:
                ins.append(list(extra))
    if outs == "last":
        orefs = [{"n": len(nodes) - 1, "k": k} for k in range(nodes[-1]["no"])]
    elif outs == "dup":
        orefs = [{"n": len(nodes) - 1, "k": k} for k in range(nodes[-1]["no"])] + [{"n": len(nodes) - 1, "k": 0}]
    else:
        orefs = [{"n": j, "k": k} for j, nd in enumerate(nodes) for k in range(nd["no"])]
    spec = {"ins": ins, "nodes": nodes, "outs": orefs, "wrap": wrap, "wsrc": wsrc, "opset": opset}
    if ref_step is not None:
        spec["ref_node"] = ref_step
    if keep_vi:
        spec["keep_value_info"] = True
    return spec


def override_values(pool, vi, n=2):
    """Override candidates for an overridable initializer: other pool entries of the same dtype and shape
    (so the declared input type still fits), else default+1 / negated default."""
    d = pool[vi]
    out = [p for j, p in enumerate(pool) if j != vi and p["t"] == d["t"] and p["s"] == d["s"] and p["v"] != d["v"]]
    a = arr(d)
    if len(out) < n and a.size:
        if d["t"] == "b":
            cand = [~a]
        elif d["t"] == "str":
            cand = [a + "x", a + "yz"]
        else:
            cand = [a + np.asarray(1, a.dtype), (a * np.asarray(2, a.dtype)) + np.asarray(1, a.dtype)]
        for c2 in cand:
            t2 = T(d["t"], c2)
            if t2["v"] != d["v"] and t2 not in out:
                out.append(t2)
    return out[:n]


def coverage_of_live_alphabet():
    live = live_alphabet()
    have = {c.op for c in CONFIGS} | {"If"}  # If is covered by the wrappers
    return dict(live_ops=sorted(live["ops"]), uncovered=sorted(live["ops"] - have),
                n_configs=len(CONFIGS), n_ops=len({c.op for c in CONFIGS}))
