"""sggen - the two bounded-exhaustive sub-explorations over the sg grammar (DESIGN C01).

dataflow : size-bounded enumeration of control skeletons x def/use placements of {u, v}
operator : one expression statement from the full operator/literal/attribute alphabet, in a context
Both are drivers for vf.explore (every grammar production is a ``ch.all`` choice; peripheral dimensions are
cost-1 ``ch.choose`` choices with the simplest answer first).
"""
from __future__ import annotations

import numpy as np

from vf import explore, sg

V = lambda n: ["var", n]  # noqa: E731
L = lambda v: ["lit", v]  # noqa: E731
A = lambda n: ["attr", n]  # noqa: E731


def CAST_I(name="i"):
    return ["call", "Cast", [V(name)], [["to", ["py", 1]]]]


# ------------------------------------------------------------------------------------------------
# dataflow
# ------------------------------------------------------------------------------------------------

def df_exprs(t, o, ivar=None, alphabet="full"):
    """The fixed 6-expression alphabet for target t (o = the other variable) (+1 inside for bodies)."""
    ex = [
        ("fresh", ["bin", "+", V("x"), L(1)]),
        ("self", ["bin", "+", V(t), V("x")]),
        ("other", ["bin", "*", V(o), L(2)]),
        ("both", ["bin", "-", V("u"), V("v")]),
        ("copy", V(o)),
        ("param", V("x")),
    ]
    if ivar is not None:
        ex.append(("ivar", ["bin", "+", V(t), CAST_I(ivar)]))
    return ex


REDUCED = [("u", "fresh"), ("v", "fresh"), ("u", "other"), ("v", "copy"), ("u", "self")]
MINI = [("u", "fresh"), ("v", "fresh"), ("u", "other")]
ALIAS = [("u", "fresh"), ("v", "copy"), ("u", "self"), ("v", "fresh")]


def df_stmts(ivar, alphabet):
    if alphabet == "slices":
        # slicing subscripts in every position of a control skeleton (the converter shares 1-D int constants between
        # subscript expressions; a seeded defect shared them across subgraph scopes)
        return [["assign", "u", ["sub", V("x"), 0, 2]], ["assign", "v", ["sub", V("x"), 1, 3]],
                ["assign", "u", ["sub", V("v"), 0, 1]], ["assign", "v", ["bin", "+", V("u"), V("x")]]]
    out = []
    for t, o in (("u", "v"), ("v", "u")):
        for tag, e in df_exprs(t, o, ivar):
            if alphabet == "reduced" and (t, tag) not in REDUCED:
                continue
            if alphabet == "mini" and (t, tag) not in MINI:
                continue
            if alphabet == "alias" and (t, tag) not in ALIAS:
                continue
            out.append(["assign", t, e])
    return out


PROLOGUES = [
    ("uc,vc", [["assign", "u", ["bin", "+", V("x"), L(1)]], ["assign", "v", ["bin", "*", V("x"), L(2)]]]),
    ("ux,vc", [["assign", "u", V("x")], ["assign", "v", ["bin", "*", V("x"), L(2)]]]),
    ("uc", [["assign", "u", ["bin", "+", V("x"), L(1)]]]),
    ("vc", [["assign", "v", ["bin", "*", V("x"), L(2)]]]),
    ("none", []),
    # a parameter name is re-assigned (python: plain rebinding; ONNX: needs a fresh value name)
    ("xr,uc,vc", [["assign", "x", ["bin", "*", V("x"), L(2)]], ["assign", "u", ["bin", "+", V("x"), L(1)]],
                  ["assign", "v", ["bin", "*", V("x"), L(2)]]]),
]
RETURNS = [("u,v", ["u", "v"]), ("u", ["u"]), ("v", ["v"]), ("v,u", ["v", "u"]), ("u,u", ["u", "u"]),
           ("x,u", ["x", "u"])]
CONDS = [("b", V("b")), ("k>1", ["bin", ">", V("k"), L(1)]), ("flag", A("flag"))]
RANGES = [("k", V("k")), ("2", L(2)), ("0", L(0)), ("n", A("n"))]
KINDS = ["if", "for", "while", "forb", "whileb"]


# renamings of the local variables u, v (ch.all): locals named like the parameter (plain rebinding of x) and like
# the names the translator generates (<name>_<counter>, tmp, return_val, cond...). A seeded defect stopped probing
# generated names against the names in use; HEAD returned a graph input directly after 'v = x; x = ...; return v'.
RENAMES = [
    ("u=x", {"u": "x"}),
    ("v=u_0", {"v": "u_0"}), ("v=u_1", {"v": "u_1"}), ("v=u_2", {"v": "u_2"}), ("v=u_3", {"v": "u_3"}),
    ("u=v_0", {"u": "v_0"}), ("u=v_1", {"u": "v_1"}), ("u=v_2", {"u": "v_2"}),
    ("v=x_0", {"v": "x_0"}), ("v=x_1", {"v": "x_1"}),
    ("u=x,v=x_0", {"u": "x", "v": "x_0"}), ("u=x,v=x_1", {"u": "x", "v": "x_1"}),
    ("u=x,v=x_2", {"u": "x", "v": "x_2"}), ("u=x,v=x_3", {"u": "x", "v": "x_3"}),
    ("v=tmp", {"v": "tmp"}), ("v=tmp_0", {"v": "tmp_0"}), ("v=tmp_1", {"v": "tmp_1"}),
    ("u=tmp,v=tmp_0", {"u": "tmp", "v": "tmp_0"}), ("u=tmp,v=tmp_1", {"u": "tmp", "v": "tmp_1"}),
    ("v=return_val", {"v": "return_val"}), ("v=return_val0", {"v": "return_val0"}),
    ("u=return_val1,v=return_val0", {"u": "return_val1", "v": "return_val0"}),
    ("v=cond", {"v": "cond"}), ("v=cond_in", {"v": "cond_in"}), ("v=cond_out", {"v": "cond_out"}),
    ("v=i_0", {"v": "i_0"}), ("v=i_1", {"v": "i_1"}),
]
RENAMES_QUICK = ["u=x", "v=u_0", "v=u_1", "v=u_2", "v=x_0", "u=x,v=x_0", "u=x,v=x_1", "u=x,v=x_2", "v=tmp", "v=tmp_0",
                 "u=tmp,v=tmp_0", "v=return_val", "v=return_val0", "v=cond"]


def rename_prog(node, m):
    """Rename variables (uses and assignment targets) of an sg program / statement / expression."""
    if isinstance(node, dict):
        out = dict(node)
        out["body"] = rename_prog(node["body"], m)
        out["ret"] = rename_prog(node["ret"], m)
        return out
    if not isinstance(node, list):
        return node
    if len(node) == 2 and node[0] == "var" and isinstance(node[1], str):
        return ["var", m.get(node[1], node[1])]
    if node and node[0] == "assign":
        return ["assign", m.get(node[1], node[1]), rename_prog(node[2], m)]
    if node and node[0] in ("massign", "passign"):
        return [node[0], [m.get(t, t) for t in node[1]], rename_prog(node[2], m)]
    if node and node[0] == "for":
        return ["for", m.get(node[1], node[1]), rename_prog(node[2], m), rename_prog(node[3], m),
                m.get(node[4], node[4]) if node[4] else node[4]]
    if node and node[0] == "while":
        return ["while", m.get(node[1], node[1]), rename_prog(node[2], m), m.get(node[3], node[3]) if node[3] else node[3]]
    return [rename_prog(c, m) for c in node]


class DFConfig:
    def __init__(self, size, depth, alphabet="full", kinds=KINDS, periph=0, top_items=3, ivar_after=True,
                 renames=None, prologues=None, returns=None, nested_ranges=False, ranges_all=False, hoist_while=False):
        self.hoist_while = hoist_while       # a while nested in a loop/if may have its counter and condition initialised
        #                                      once, at function level, instead of right before the while statement
        self.nested_ranges = nested_ranges   # inside a for body, range(1 - i) / range(i) are in the range menu
        self.ranges_all = ranges_all         # every range of the menu is explored (instead of deviation-bounded)
        self.renames = renames          # list of (label, mapping): every one is explored (ch.all)
        self.prologues = prologues      # labels of PROLOGUES explored exhaustively (ch.all) instead of by deviation
        self.returns = returns          # labels of RETURNS explored exhaustively
        self.ivar_after = ivar_after
        self.size = size
        self.depth = depth
        self.alphabet = alphabet
        self.kinds = kinds
        self.periph = periph
        self.top_items = top_items


def df_driver(cfg):
    def drive(ch):
        state = {"budget": cfg.size, "for_depth": 0, "while_depth": 0}

        def item(depth, ivar, must):
            """-> list of statements for one item (a compound expands to prefix statements + itself)."""
            b = state["budget"]
            opts = []
            if not must:
                opts.append("end")
            opts.append("s")
            if depth < cfg.depth and b >= 2:
                opts += cfg.kinds
            kind = ch.all("item", opts)
            if kind == "end":
                return None
            if kind == "s":
                state["budget"] -= 1
                return [ch.all("stmt", df_stmts(ivar, cfg.alphabet))]
            state["budget"] -= 1
            if kind == "if":
                cond = ch.choose("cond", CONDS)[1]
                then = block(depth + 1, ivar, True)
                els = block(depth + 1, ivar, False)
                return [["if", cond, then, els]]
            if kind in ("for", "forb"):
                menu = list(RANGES)
                if ivar is not None and cfg.nested_ranges:
                    # trip count of a nested loop that varies with the enclosing loop's variable: 1-i gives 1,0,0,...
                    # trips (a zero-trip pass after one that ran), i gives 0,1,2,...
                    menu += [("1-i", ["bin", "-", L(1), V(ivar)]), ("i", V(ivar))]
                rng = (ch.all("range", menu) if cfg.ranges_all else ch.choose("range", menu))[1]
                iv = "i" if state["for_depth"] == 0 else f"i{state['for_depth']}"
                state["for_depth"] += 1
                body = block(depth + 1, iv, True)
                state["for_depth"] -= 1
                brk = None
                if kind == "forb":
                    brk = "d" if depth == 0 else f"d{depth}"
                    body = body + [["assign", brk, ["bin", ">=", V(iv), L(1)]]]
                return [["for", iv, rng, body, brk]]
            if kind in ("while", "whileb"):
                sfx = "" if state["while_depth"] == 0 else str(state["while_depth"])
                j, c = "j" + sfx, "c" + sfx
                state["while_depth"] += 1
                body = block(depth + 1, ivar, True)
                state["while_depth"] -= 1
                body = body + [["assign", j, ["bin", "+", V(j), L(1)]], ["assign", c, ["bin", "<", V(j), V("k")]]]
                brk = None
                if kind == "whileb":
                    brk = "e" + sfx
                    body = body + [["assign", brk, ["bin", ">=", V(j), L(2)]]]
                init = [["assign", j, ["bin", "*", V("k"), L(0)]], ["assign", c, ["bin", "<", V(j), V("k")]]]
                if cfg.hoist_while and depth > 0 and ch.all("while_init", ["local", "hoisted"]) == "hoisted":
                    # the condition variable is assigned before the enclosing construct and inside the while body
                    # only: in a later pass of an enclosing loop the while starts from the values the previous pass left
                    state.setdefault("hoisted", []).extend(init)
                    return [["while", c, body, brk]]
                return init + [["while", c, body, brk]]
            raise AssertionError(kind)

        def block(depth, ivar, nonempty):
            stmts = []
            n = 0
            while state["budget"] > 0 and (depth > 0 or n < cfg.top_items):
                it = item(depth, ivar, nonempty and n == 0)
                if it is None:
                    break
                stmts += it
                n += 1
            if nonempty and n == 0:
                raise explore.Prune()
            return stmts

        if cfg.prologues:
            pro = ch.all("prologue", [p for p in PROLOGUES if p[0] in cfg.prologues])
        else:
            pro = ch.choose("prologue", PROLOGUES)
        if cfg.returns:
            ret = ch.all("return", [r for r in RETURNS if r[0] in cfg.returns])
        else:
            ret = ch.choose("return", RETURNS)
        stale = ch.choose("ivar_after", [False, True]) if cfg.ivar_after else False
        body = block(0, None, True)
        full = list(pro[1]) + state.get("hoisted", []) + body
        if stale:
            if not any(s[0] == "for" for s in body):
                raise explore.Prune()
            full = [["assign", "i", ["bin", "+", V("k"), L(5)]]] + full + [
                ["assign", "u", ["bin", "+", V("u"), CAST_I("i")]]]
        prog = finish_prog(full, [V(r) for r in ret[1]])
        if cfg.renames:
            prog = rename_prog(prog, ch.all("rename", cfg.renames)[1])
        return {"sub": "df", "prog": prog}

    return drive


def _names_in(node, acc):
    if isinstance(node, list):
        if len(node) == 2 and node[0] in ("var", "attr", "ref") and isinstance(node[1], str):
            acc.add(node[1])
        if node and node[0] in ("while",) and isinstance(node[1], str):
            acc.add(node[1])
        for c in node:
            _names_in(c, acc)


ATTR_DECL = {"alpha": ["alpha", "float", 0.5], "n": ["n", "int", 2], "flag": ["flag", "bool", True]}
PARAM_KIND = {"x": "F", "y": "F", "k": "I0", "b": "B0"}


def finish_prog(body, ret, helpers=None, main="F", attr_defaults=None, rkinds=None):
    """Signature = exactly the tensor parameters / attribute parameters the body mentions (x always)."""
    names = set()
    _names_in(body, names)
    _names_in(ret, names)
    params = [["x", main]]
    if "y" in names:
        params.append(["y", main])
    if "k" in names:
        params.append(["k", "I0"])
    if "b" in names:
        params.append(["b", "B0"])
    attrs = []
    for a in ("alpha", "n", "flag"):
        if a in names:
            d = list(ATTR_DECL[a])
            if attr_defaults and a in attr_defaults:
                d[2] = attr_defaults[a]
            attrs.append(d)
    prog = {"name": "f", "params": params, "attrs": attrs, "body": body, "ret": ret, "rkinds": rkinds,
            "helpers": helpers or []}
    if rkinds is None:
        try:
            dts = sg.Typer(prog).ret_dtypes()
            prog["rkinds"] = [{"f": "F", "i": "I", "b": "B"}[d] for d in dts]
        except sg.Undefined:
            # unbound on the straight reading (e.g. variable defined on one path only): annotate as FLOAT
            prog["rkinds"] = ["F"] * len(ret)
    return prog


# ------------------------------------------------------------------------------------------------
# literal pairs: two literals that are equal under == (or hash alike) in one program, in every pair of scopes
# ------------------------------------------------------------------------------------------------

LP_POOL = [0.0, -0.0, 0, 1, 1.0, -1, -1.0, 2.5, True]
LP_CTX = ["top,top", "top,then", "then,then", "then,else", "top,loop", "loop,loop", "loop,top"]
LP_OPS = ["*", "+"]


def lp_driver():
    """u = 1.0 / (x <op> L1); v = 1.0 / (x <op> L2) with the two statements placed in every pair of scopes:
    1/(...) makes the sign of a zero operand observable (+-inf). A seeded defect reused the Constant of the first
    literal for an equal-comparing second one within a graph scope (0.0 vs -0.0)."""
    def drive(ch):
        l1 = ch.all("l1", LP_POOL)
        l2 = ch.all("l2", LP_POOL)
        op = ch.all("op", LP_OPS)
        ctx = ch.all("ctx", LP_CTX)
        s1 = ["assign", "u", ["bin", "/", L(1.0), ["bin", op, V("x"), lit_expr(l1)]]]
        s2 = ["assign", "v", ["bin", "/", L(1.0), ["bin", op, V("x"), lit_expr(l2)]]]
        init = [["assign", "u", V("x")], ["assign", "v", V("x")]]
        a, b = ctx.split(",")
        cond = ["bin", ">", V("k"), L(1)]
        if (a, b) == ("top", "top"):
            body = [s1, s2]
        elif (a, b) == ("top", "then"):
            body = [init[1], s1, ["if", cond, [s2], [["assign", "v", ["bin", "+", V("v"), L(3)]]]]]
        elif (a, b) == ("then", "then"):
            body = init + [["if", cond, [s1, s2], [["assign", "u", ["bin", "+", V("u"), L(3)]]]]]
        elif (a, b) == ("then", "else"):
            body = init + [["if", cond, [s1], [s2]]]
        elif (a, b) == ("top", "loop"):
            body = [init[1], s1, ["for", "i", V("k"), [s2], None]]
        elif (a, b) == ("loop", "loop"):
            body = init + [["for", "i", V("k"), [s1, s2], None]]
        else:
            body = [init[0], ["for", "i", V("k"), [s1], None], s2]
        prog = finish_prog(body, [V("u"), V("v")])
        prog["xs"] = [[1.0, -2.0, 0.0, -0.0]]
        return {"sub": "df", "prog": prog}

    return drive


def df_valuations(prog, tier):
    """Fixed pool: all (k, b, n, flag) combinations over the parameters the program has."""
    pn = [p[0] for p in prog["params"]]
    an = [a[0] for a in prog["attrs"]]
    xs = [np.array(v, dtype=np.float32) for v in prog.get("xs", [[1.0, -2.5, 0.0]])]
    ks = [0, 1, 3] if "k" in pn else [None]
    bs = [False, True] if "b" in pn else [None]
    ns = [None, 0, 3] if "n" in an else [None]
    fl = [None, False] if "flag" in an else [None]
    out = []
    for x in xs:
        for k in ks:
            for b in bs:
                for n in ns:
                    for f in fl:
                        feeds = {"x": x}
                        if k is not None:
                            feeds["k"] = np.array(k, dtype=np.int64)
                        if b is not None:
                            feeds["b"] = np.array(b)
                        attrs = {}
                        if n is not None:
                            attrs["n"] = n
                        if f is not None:
                            attrs["flag"] = f
                        out.append((feeds, attrs))
    # one valuation with a rank-0 x and one with a size-0 dim (same control values as the first / last)
    for x in (np.array(-2.5, dtype=np.float32), np.zeros((2, 0), dtype=np.float32)):
        f0, a0 = out[-1]
        f1 = dict(f0)
        f1["x"] = x
        out.append((f1, dict(a0)))
    return out


# ------------------------------------------------------------------------------------------------
# operator
# ------------------------------------------------------------------------------------------------

LITS = [0, 1, -3, 2.5, True]
ATTRS = ["alpha", "n", "flag"]


def lit_expr(v):
    if isinstance(v, bool) or v >= 0:
        return L(v)
    return ["neg", L(-v)]


def slot_alternatives(role):
    """Default operand first, then every literal, every attribute parameter, then the cross-typed variables."""
    base = {"T1": [V("x")], "T2": [V("y")], "T3": [V("x")], "I": [V("k")], "B": [V("b")], "M": [V("m")],
            "K1": [L([1]), L([2]), L(1), V("k")], "AX": [L([0]), L([-1]), L(0)],
            "E": [L(2), L(0), L(-1), L(0.5)]}[role]
    if role in ("K1", "AX", "E"):
        extra = [V("x")] if role == "E" else []
        return base + extra
    alts = list(base) + [lit_expr(v) for v in LITS] + [A(a) for a in ATTRS]
    cross = {"T1": [V("k"), V("y")], "T2": [V("k"), V("x"), V("b")], "T3": [V("y")], "I": [V("x")],
             "B": [V("m")], "M": [V("b")]}[role]
    return alts + cross


def _bin(sym):
    return lambda a, b: ["bin", sym, a, b]


def _call(name, attrs=(), kw=None):
    def mk(*args):
        al = []
        for j, a in enumerate(args):
            if kw and kw[j]:
                al.append(["kw", kw[j], a])
            else:
                al.append(a)
        return ["call", name, al, [list(x) for x in attrs]]
    return mk


PY = lambda v: ["py", v]  # noqa: E731
REF = lambda n: ["ref", n]  # noqa: E731

# (id, roles, builder, number of outputs)
OP_CONFIGS = []


def _cfg(cid, roles, build, nout=1):
    OP_CONFIGS.append((cid, roles, build, nout))


for _s in ["+", "-", "*", "/", "%", "<", "<=", ">", ">=", "==", "!="]:
    _cfg("x" + _s + "y", ["T1", "T2"], _bin(_s))
_cfg("x**e", ["T1", "E"], _bin("**"))
_cfg("m&b", ["M", "B"], _bin("&"))
_cfg("m|b", ["M", "B"], _bin("|"))
_cfg("-x", ["T1"], lambda a: ["neg", a])
_cfg("Add(x,y)", ["T1", "T2"], _call("Add"))
_cfg("Sub(A=,B=)", ["T1", "T2"], _call("Sub", kw=["A", "B"]))
_cfg("Mul(x,B=)", ["T1", "T2"], _call("Mul", kw=[None, "B"]))
_cfg("Div(x,y)", ["T1", "T2"], _call("Div"))
_cfg("Pow(x,e)", ["T1", "E"], _call("Pow"))
_cfg("Less(x,y)", ["T1", "T2"], _call("Less"))
_cfg("Abs(x)", ["T1"], _call("Abs"))
_cfg("Neg(x)", ["T1"], _call("Neg"))
_cfg("Identity(x)", ["T1"], _call("Identity"))
_cfg("Not(m)", ["M"], _call("Not"))
_cfg("ReduceSum(x)", ["T1"], _call("ReduceSum"))
_cfg("ReduceSum(x,k0)", ["T1"], _call("ReduceSum", [("keepdims", PY(0))]))
_cfg("ReduceSum(x,ax,k0)", ["T1", "AX"], _call("ReduceSum", [("keepdims", PY(0))]))
_cfg("ReduceSum(x,k=flag)", ["T1"], _call("ReduceSum", [("keepdims", REF("flag"))]))
_cfg("Cast(x,f)", ["T1"], _call("Cast", [("to", PY(1))]))
_cfg("Cast(x,i)", ["T1"], _call("Cast", [("to", PY(7))]))
_cfg("Cast(x,b)", ["T1"], _call("Cast", [("to", PY(9))]))
_cfg("Cast(k,f)", ["I"], _call("Cast", [("to", PY(1))]))
_cfg("Cast(b,i)", ["B"], _call("Cast", [("to", PY(7))]))
_cfg("CastLike(x,k)", ["T1", "I"], _call("CastLike"))
_cfg("CastLike(k,x)", ["I", "T1"], _call("CastLike"))
_cfg("Where(m,x,y)", ["M", "T1", "T2"], _call("Where"))
_cfg("Where(b,x,y)", ["B", "T1", "T2"], _call("Where"))
_cfg("Max(x,y)", ["T1", "T2"], _call("Max"))
_cfg("Max(x,y,x)", ["T1", "T2", "T3"], _call("Max"))
_cfg("Max(x)", ["T1"], _call("Max"))
_cfg("Min(x,y)", ["T1", "T2"], _call("Min"))
_cfg("Clip(x,lo,hi)", ["T1", "T2s", "T3s"], _call("Clip"))
_cfg("Clip(x,None,hi)", ["T1", "T3s"], lambda a, h: ["call", "Clip", [a, ["none"], h], []])
_cfg("Clip(x,lo)", ["T1", "T2s"], _call("Clip"))
_cfg("Clip(x,max=)", ["T1", "T3s"], _call("Clip", kw=[None, "max"]))
_cfg("Clip(x,min=,max=)", ["T1", "T2s", "T3s"], _call("Clip", kw=[None, "min", "max"]))
_cfg("LeakyRelu(x)", ["T1"], _call("LeakyRelu"))
_cfg("LeakyRelu(x,a=.1)", ["T1"], _call("LeakyRelu", [("alpha", PY(0.1))]))
_cfg("LeakyRelu(x,a=alpha)", ["T1"], _call("LeakyRelu", [("alpha", REF("alpha"))]))
_cfg("Concat(x,y,0)", ["T1", "T2"], _call("Concat", [("axis", PY(0))]))
_cfg("Concat(x,ax=-1)", ["T1"], _call("Concat", [("axis", PY(-1))]))
_cfg("Shape(x)", ["T1"], _call("Shape"))
_cfg("Split2", ["T1"], _call("Split", [("num_outputs", PY(2))]), 2)
_cfg("Split2ax-1", ["T1"], _call("Split", [("num_outputs", PY(2)), ("axis", PY(-1))]), 2)
_cfg("Split3", ["T1"], _call("Split", [("num_outputs", PY(3))]), 3)
_cfg("Split(n)", ["T1"], _call("Split", [("num_outputs", REF("n"))]), 2)
_cfg("TopK", ["T1", "K1"], _call("TopK"), 2)
_cfg("TopK(smallest)", ["T1", "K1"], _call("TopK", [("largest", PY(0))]), 2)
_cfg("TopK(largest=flag)", ["T1", "K1"], _call("TopK", [("largest", REF("flag"))]), 2)
_cfg("TopK(ax0)", ["T1", "K1"], _call("TopK", [("axis", PY(0))]), 2)
_cfg("TopK(K=)", ["T1", "K1"], _call("TopK", kw=[None, "K"]), 2)


def _fcall(name, kws=(), pos_extra=()):
    def mk(a):
        return ["fcall", name, [a] + [list(p) if isinstance(p, tuple) else p for p in pos_extra],
                [[k, v] for k, v in kws]]
    return mk


_cfg("g(x)", ["T1"], _fcall("g"))
_cfg("g(x,beta=3.0)", ["T1"], _fcall("g", [("beta", L(3.0))]))
_cfg("g(x,beta=alpha)", ["T1"], _fcall("g", [("beta", A("alpha"))]))
_cfg("g(x,3.0)", ["T1"], _fcall("g", pos_extra=[L(3.0)]))
_cfg("g(p=x)", ["T1"], lambda a: ["fcall", "g", [], [["p", a]]])
_cfg("g2(x,beta=1.5)", ["T1"], _fcall("g2", [("beta", L(1.5))]))
_cfg("g2(x,beta=alpha)", ["T1"], _fcall("g2", [("beta", A("alpha"))]))
_cfg("g2(x)", ["T1"], _fcall("g2"))
_cfg("h(x)", ["T1"], _fcall("h"), 2)
_cfg("gb(x,neg=flag)", ["T1"], _fcall("gb", [("neg", A("flag"))]))
_cfg("gn(x,times=n)", ["T1"], _fcall("gn", [("times", A("n"))]))


def helpers_for(name, main):
    P = V("p")
    if name == "g":
        return {"name": "g", "params": [["p", main]], "attrs": [["beta", "float", 2.0]], "body": [],
                "ret": [["bin", "+", ["bin", "*", P, A("beta")], L(1)]], "rkinds": [main], "helpers": []}
    if name == "g2":
        return {"name": "g2", "params": [["p", main]], "attrs": [["beta", "float", None]], "body": [],
                "ret": [["bin", "-", P, A("beta")]], "rkinds": [main], "helpers": []}
    if name == "h":
        return {"name": "h", "params": [["p", main]], "attrs": [], "body": [],
                "ret": [["bin", "+", P, L(1)], ["bin", "*", P, L(2)]], "rkinds": [main, main], "helpers": []}
    if name == "gb":
        return {"name": "gb", "params": [["p", main]], "attrs": [["neg", "bool", False]],
                "body": [["if", A("neg"), [["assign", "r", ["neg", P]]], [["assign", "r", ["call", "Identity", [P], []]]]]],
                "ret": [V("r")], "rkinds": [main], "helpers": []}
    if name == "gn":
        return {"name": "gn", "params": [["p", main]], "attrs": [["times", "int", 1]],
                "body": [["assign", "r", ["call", "Identity", [P], []]],
                         ["for", "i", A("times"), [["assign", "r", ["bin", "+", V("r"), P]]], None]],
                "ret": [V("r")], "rkinds": [main], "helpers": []}
    raise KeyError(name)


CONTEXTS = ["top", "then", "else", "for", "if-flag", "for-n", "while",
            # nesting depth 2 (seeded C02e: a domain used only at depth >= 2 was not imported by the outer scopes)
            "for>then", "then>for", "then>then", "for>for"]
CHAINS = [None, ("u+1", lambda u: ["bin", "+", u, L(1)]), ("Abs(u)", lambda u: ["call", "Abs", [u], []]),
          ("u*alpha", lambda u: ["bin", "*", u, A("alpha")]), ("Identity(u)", lambda u: ["call", "Identity", [u], []]),
          ("u==u", lambda u: ["bin", "==", u, u])]


def op_build(spec):
    """spec: {"main", "op" (index in OP_CONFIGS), "operands": [alt index per slot], "context", "chain",
    "alpha_default"} (indices into the menus; 0 = default).  -> program, or raises explore.Prune."""
    main = spec["main"]
    cid, roles, build, nout = OP_CONFIGS[spec["op"]]
    operands = []
    for r, pick in zip(roles, spec["operands"]):
        operands.append(slot_menu(r)[pick])
    ctx = CONTEXTS[spec["context"]]
    chain = CHAINS[spec["chain"]]
    alpha_default = [0.5, None][spec["alpha_default"]]
    expr = build(*operands)
    names = set()
    _names_in(expr, names)
    pro = []
    if "m" in names:
        pro.append(["assign", "m", ["bin", ">", V("x"), L(0)]])
    targets = ["u"] if nout == 1 else ["u", "v", "w"][:nout]
    if nout == 1:
        core = [["assign", "u", expr]]
    else:
        core = [["massign", targets, expr]]
    hl = []
    hn = set()
    _fn_names(expr, hn)
    for h in sorted(hn):
        hl.append(helpers_for(h, main))
    probe = finish_prog(pro + core, [V(t) for t in targets], helpers=hl, main=main)
    try:
        dts = sg.Typer(probe).ret_dtypes()
    except sg.Undefined:
        raise explore.Prune() from None
    if any(d is None for d in dts):
        raise explore.Prune()

    def fallback(dt):
        # the definition used on the other path of a context: must have the dtype of the result
        if dt == {"F": "f", "I": "i"}[main]:
            return ["call", "Identity", [V("x")], []]
        if dt == "f":
            return ["call", "Cast", [V("x")], [["to", ["py", 1]]]]
        if dt == "i":
            return ["call", "Cast", [V("x")], [["to", ["py", 7]]]]
        return ["bin", ">", V("x"), L(0)]

    fb = [["assign", t, fallback(d)] for t, d in zip(targets, dts)]
    if ctx == "top":
        body = pro + core
    elif ctx == "then":
        body = pro + [["if", V("b"), core, fb]]
    elif ctx == "else":
        body = pro + [["if", V("b"), fb, core]]
    elif ctx == "if-flag":
        body = pro + [["if", A("flag"), core, fb]]
    elif ctx == "for":
        body = pro + fb + [["for", "i", V("k"), core, None]]
    elif ctx == "for-n":
        body = pro + fb + [["for", "i", A("n"), core, None]]
    elif ctx == "while":
        body = pro + fb + [["assign", "j", ["bin", "*", V("k"), L(0)]], ["assign", "c", ["bin", "<", V("j"), V("k")]],
                           ["while", "c", core + [["assign", "j", ["bin", "+", V("j"), L(1)]],
                                                  ["assign", "c", ["bin", "<", V("j"), V("k")]]], None]]
    elif ctx == "for>then":
        body = pro + fb + [["for", "i", V("k"), [["if", V("b"), core, fb]], None]]
    elif ctx == "then>for":
        body = pro + [["if", V("b"), fb + [["for", "i", V("k"), core, None]], fb]]
    elif ctx == "then>then":
        body = pro + [["if", V("b"), [["if", ["bin", ">", V("k"), L(1)], core, fb]], fb]]
    elif ctx == "for>for":
        body = pro + fb + [["for", "i", V("k"), [["for", "j", L(2), core, None]], None]]
    else:
        raise AssertionError(ctx)
    ret = [V(t) for t in targets]
    if chain is not None:
        body = body + [["assign", "z", chain[1](V("u"))]]
        ret = ret + [V("z")]
    ad = {"alpha": alpha_default}
    prog = finish_prog(body, ret, helpers=hl, main=main, attr_defaults=ad)
    if alpha_default is None and not any(a[0] == "alpha" for a in prog["attrs"]):
        raise explore.Prune()
    try:
        sg.Typer(prog).ret_dtypes()
    except sg.Undefined:
        raise explore.Prune() from None
    return prog


def slot_menu(r):
    rr = r[:-1] if r.endswith("s") else r  # "T2s": scalar flavoured operand (same alternatives)
    alts = slot_alternatives(rr)
    if r.endswith("s"):
        alts = [lit_expr(1) if rr == "T3" else lit_expr(0)] + alts  # default: a literal bound
    return alts


def op_spec_label(spec):
    """Non-default choices of a spec, human readable (finding keys)."""
    cid, roles, build, nout = OP_CONFIGS[spec["op"]]
    parts = []
    for j, (r, pick) in enumerate(zip(roles, spec["operands"])):
        if pick:
            parts.append(f"arg{j}={sg.r_expr(slot_menu(r)[pick])}".replace(" ", ""))
    if spec["context"]:
        parts.append("ctx=" + CONTEXTS[spec["context"]])
    if spec["chain"]:
        parts.append("then=" + CHAINS[spec["chain"]][0])
    if spec["alpha_default"]:
        parts.append("alpha-required")
    return f"op:{cid}|main={spec['main']}|" + ",".join(parts)


def op_driver():
    def drive(ch):
        main = ch.all("main", ["F", "I"])
        opi = ch.all("op", list(range(len(OP_CONFIGS))))
        cid, roles, build, nout = OP_CONFIGS[opi]
        picks = []
        for r in roles:
            menu = slot_menu(r)
            picks.append(ch.choose("operand:" + r, list(range(len(menu)))))
        spec = {"main": main, "op": opi, "operands": picks,
                "context": ch.choose("context", list(range(len(CONTEXTS)))),
                "chain": ch.choose("chain", list(range(len(CHAINS)))),
                "alpha_default": ch.choose("alpha_default", [0, 1])}
        prog = op_build(spec)
        return {"sub": "op", "prog": prog, "cfg": cid, "spec": spec}

    return drive


def _fn_names(node, acc):
    if isinstance(node, list):
        if node and node[0] == "fcall":
            acc.add(node[1])
        for c in node:
            _fn_names(c, acc)


def _vals(main, shape, seedvals):
    n = int(np.prod(shape)) if shape else 1
    vals = [seedvals[j % len(seedvals)] for j in range(n)]
    return np.array(vals, dtype=sg.NP["f" if main == "F" else "i"]).reshape(shape)


def op_valuations(prog, tier):
    main = prog["params"][0][1]
    pn = [p[0] for p in prog["params"]]
    fv = [1.0, -2.5, 0.0, -1.0, 1e6]
    fv2 = [-1.0, 1e6, 1.0, 2.5, 0.0]
    iv = [1, -3, 0, -1, 7]
    iv2 = [-1, 7, 1, 2, 0]
    a, b_ = (fv, fv2) if main == "F" else (iv, iv2)
    nondef = {"alpha": -1.5, "n": 3, "flag": False}
    table = [
        ((3,), 3, True, False),
        ((), 0, False, True),
        ((1,), 1, True, False),
        ((0,), 3, False, False),
        ((2, 3), 1, False, True),
        ((1, 3, 0), 0, True, False),
        ((4,), 3, True, True),
    ]
    out = []
    for shape, k, b, nd in table:
        out.append(_mk_val(prog, pn, _vals(main, shape, a), _vals(main, shape, b_), k, b, nondef if nd else {}))
    # broadcasting between the two tensor operands
    out.append(_mk_val(prog, pn, _vals(main, (3,), a), _vals(main, (), b_[1:]), 1, False, {}))
    out.append(_mk_val(prog, pn, _vals(main, (2, 3), a), _vals(main, (3,), b_), 3, True, {}))
    # ties / equal values (TopK tiebreak, comparisons)
    out.append(_mk_val(prog, pn, _vals(main, (4,), [1, 1, -1, 1]), _vals(main, (4,), [1, -1, -1, 2]), 1, True, {}))
    if main == "F":
        x = np.array([np.nan, 1.0, -2.5], dtype=np.float32)
        out.append(_mk_val(prog, pn, x, _vals(main, (3,), fv2), 3, True, {}))
    return out


def _mk_val(prog, pn, x, y, k, b, attrs_nd):
    feeds = {"x": x}
    if "y" in pn:
        feeds["y"] = y
    if "k" in pn:
        feeds["k"] = np.array(k, dtype=np.int64)
    if "b" in pn:
        feeds["b"] = np.array(b)
    attrs = {}
    for name, ty, default in prog["attrs"]:
        if name in attrs_nd:
            attrs[name] = attrs_nd[name]
        elif default is None:
            attrs[name] = {"alpha": 0.25}.get(name, 1)
    return feeds, attrs


def valuations(item, tier):
    if item["sub"] == "df":
        return df_valuations(item["prog"], tier)
    return op_valuations(item["prog"], tier)


# ------------------------------------------------------------------------------------------------
# plans
# ------------------------------------------------------------------------------------------------

def enumerate_plan(tier, stats, with_rename=False):
    """-> list of items (deduplicated by program text), dict of per-family counts."""
    import json
    fams = []
    nowb = ["if", "for", "while", "forb"]  # 'while ... if e: break' only in the small families (one root cause,
    #                                          every such program shows it)
    if tier == "quick":
        fams.append(("df-full-s2-periph1", df_driver(DFConfig(size=2, depth=1)), 1))
        fams.append(("df-full-s3", df_driver(DFConfig(size=3, depth=1, kinds=nowb)), 0))
        fams.append(("df-reduced-s4", df_driver(DFConfig(size=4, depth=1, alphabet="reduced", kinds=["if", "for", "while"])), 0))
        fams.append(("df-mini-s5", df_driver(DFConfig(size=5, depth=1, alphabet="mini", kinds=["if", "for"], top_items=2)), 0))
        # nesting 2 (an if inside a loop, a loop inside an if) with the reduced alphabet: a seeded liveness defect
        # needed an if inside a while body together with a non-default return list
        fams.append(("df-mini-s4-d2-periph1", df_driver(DFConfig(size=4, depth=2, alphabet="mini", kinds=["if", "for", "while"])), 1))
        fams.append(("op-b1", op_driver(), 1))
        fams.append(("lit-pairs", lp_driver(), 0))
        # loops nested in loops whose inner trip count varies between outer iterations, every return list: a seeded
        # exposed-uses defect needed an inner loop that runs zero times after a pass in which it ran, and a variable
        # that is dead after the outer loop
        fams.append(("df-mini-s4-nestedloops", df_driver(DFConfig(size=4, depth=2, alphabet="mini", kinds=["for"],
                                                                     returns=["u", "v", "u,v"], nested_ranges=True,
                                                                     ranges_all=True, ivar_after=False)), 0))
    else:
        fams.append(("df-full-s2-periph1", df_driver(DFConfig(size=2, depth=1)), 1))
        fams.append(("df-full-s3-periph1", df_driver(DFConfig(size=3, depth=2, kinds=nowb, ivar_after=False)), 1))
        fams.append(("df-full-s4", df_driver(DFConfig(size=4, depth=2, kinds=nowb)), 0))
        fams.append(("df-reduced-s5", df_driver(DFConfig(size=5, depth=2, alphabet="reduced", kinds=["if", "for", "while"])), 0))
        fams.append(("op-b2", op_driver(), 2))
        fams.append(("lit-pairs", lp_driver(), 0))
        # (size 5 with peripheral deviations was 2.1M programs: not a feasible thorough tier; size 4 + deviations is 166k)
        fams.append(("df-reduced-s4-nestedloops", df_driver(DFConfig(size=4, depth=2, alphabet="reduced", kinds=["for", "while"],
                                                                        returns=["u", "v", "u,v"], nested_ranges=True,
                                                                        ranges_all=True, ivar_after=False)), 1))
    if tier == "quick":
        # a while nested in a loop whose counter/condition are initialised once at function level (seeded C01g: the
        # condition variable of an inner while dropped out of the enclosing loop's carried state)
        fams.append(("df-mini-s4-d2-whilehoist", df_driver(DFConfig(size=4, depth=2, alphabet="mini", kinds=["for", "while"],
                                                                      returns=["u", "u,v"], hoist_while=True, ivar_after=False)), 0))
    else:
        fams.append(("df-reduced-s4-d2-whilehoist", df_driver(DFConfig(size=4, depth=2, alphabet="reduced", kinds=["if", "for", "while"],
                                                                         returns=["u", "v", "u,v"], hoist_while=True, ivar_after=False)), 0))
    if with_rename:
        # C01 executes the renaming family that C02 only decorates: a local named like a name the translator
        # generates (u_0, x_0, tmp ...) that is read inside a body in which the colliding variable is carried
        # gives a well-typed model computing something else when the generated name shadows it (seeded C01e)
        quick = tier == "quick"
        fams.append(("df-rename", df_driver(DFConfig(
            size=3, depth=1, alphabet="alias" if quick else "reduced", kinds=["if", "for"],
            ivar_after=False, renames=[r for r in RENAMES if not quick or r[0] in RENAMES_QUICK],
            prologues=["vc", "none"] if quick else ["uc,vc", "vc", "none"],
            returns=["u,v", "v"] if quick else ["u,v", "v", "x,u"])), 0))
    import os
    only = os.environ.get("VERIF_C01_FAMS")
    if only:
        fams = [f for f in fams if any(f[0].startswith(o) for o in only.split(","))]
    items = []
    seen = set()
    counts = {}
    for name, drv, bound in fams:
        n0 = len(items)
        for picks, case in explore.explore(drv, bound=bound, stats=stats):
            key = json.dumps(case["prog"], sort_keys=True)
            if key in seen:
                continue
            seen.add(key)
            case["fam"] = name
            items.append(case)
        counts[name] = len(items) - n0
    return items, counts
