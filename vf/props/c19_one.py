"""Run ONE C19 configuration outside the framework:
    cd /verif && /venv/bin/python -m vf.props.c19_one <family> '<json overrides of the default configuration>' [--show]
e.g. gqa '{"mask": "sliding"}'   mha '{"out_reshape": "BS_D"}'   mha '{"rotary": "interleaved"}'
prints the per-fusion outcome and the violations (kind, fusion, detail)."""
import json
import sys

from vf.props import c19


def main(argv):
    fam = c19.FAMILIES[argv[0]]
    cfg = dict(json.loads(argv[1])) if len(argv) > 1 and not argv[1].startswith("--") else {}
    for k, v in c19.defaults(fam, cfg).items():
        cfg.setdefault(k, v)
    print("configuration:", json.dumps(cfg), "valid:", fam["valid"](cfg))
    r = c19._observe(fam, cfg)
    print(json.dumps({k: v for k, v in r.items() if k != "show"}, indent=1, default=str))
    if "--show" in argv:
        print(r.get("show"))


if __name__ == "__main__":
    main(sys.argv[1:])
