"""C09 - shape-based simplifications hold for every runtime binding of symbolic dims.

Models with symbolic / unknown input dims whose bodies mix shape computations (Shape/Size/Gather/Concat/Add/Abs/
Cast/Squeeze/Reshape/Slice ...) with data ops.  ONE optimize() per model; then original and optimized are run at
every binding of every symbol to {0,1,2,3,7} (all pairs; unnamed dims of different inputs bound independently).
"""
from __future__ import annotations

import collections
import copy
import itertools

from vf import explore, mz, optplan, optrun, runeq
from vf.props import c03 as _c03

ID = "C09"
LEVEL = "model_checking"
RULE = ("choice-tree exploration: input shape kinds x (shape source -> chain of shape ops (bounded length) -> sink) "
        "plus data-op templates (Slice/Flatten/Concat/Expand/Reshape/ScatterND/expand-before-binary-op) over symbolic "
        "dims; every leaf is optimized once and both models are run at all bindings of its symbols to {0,1,2,3,7} "
        "with 2 valuations each. distinct_nontrivial = distinct models with at least one binding admitted (ORT and "
        "onnx.reference agree on the original) and compared")
ASSUMPTIONS = ["onnxruntime (optimizations disabled) and onnx.reference define what the original computes at a binding; "
               "bindings the original rejects, or where the two disagree, conclude nothing and are counted",
               "only one direction is demanded: original accepts => optimized accepts and agrees; 'optimized accepts "
               "more' is counted as widened_acceptance",
               "dimension values are drawn from {0,1,2,3,7}"]

DIMS = [0, 1, 2, 3, 7]
i, f = mz.i, mz.f
TP = mz.TP

XKINDS = [["N", 3], ["N", "M"], ["N", "N"], [None, 3], [None, None], ["N", 1]]
YKINDS = [["M"], ["N"], ["M", 3], ["N", 3], [None, 3], [1, 3]]

SOURCES = [("Shape", {}), ("Shape", {"start": 0, "end": 1}), ("Shape", {"start": 1}), ("Shape", {"start": -1}),
           ("Shape", {"start": 0, "end": -1}), ("Shape", {"end": 1}), ("Shape", {"start": 1, "end": 2}),
           ("Size", {}), ("ShapeY", {})]


def _c(t):
    return {"c": t, "src": "const"}


# shape ops: (label, op, attrs, inputs template with "S" = the running value, rank_in (0/1/None any), rank_out fn)
def _sops():
    out = []
    for lab, idx, ro in (("g0", i([0]), 1), ("g1", i([1]), 1), ("gm1", i([-1]), 1), ("g01", i([0, 1]), 1), ("g0s", i(0), 0),
                         ("gm1s", i(-1), 0), ("g10", i([1, 0]), 1)):
        out.append(("Gather." + lab, "Gather", {"axis": 0}, ["S", _c(idx)], 1, ro))
    for op in ("Add", "Sub", "Mul"):
        for lab, c in (("0", 0), ("1", 1), ("m1", -1), ("m5", -5)):
            out.append((f"{op}.{lab}", op, {}, ["S", _c(i([c]))], None, "="))
        out.append((f"{op}.sc1", op, {}, ["S", _c(i(1))], None, "="))
        out.append((f"{op}.r5", op, {}, [_c(i([-5])), "S"], None, "="))
    out.append(("Add.ss", "Add", {}, ["S", "S"], None, "="))
    out.append(("Div.1", "Div", {}, ["S", _c(i([1]))], None, "="))
    out.append(("Abs", "Abs", {}, ["S"], None, "="))
    out.append(("Neg", "Neg", {}, ["S"], None, "="))
    out.append(("Identity", "Identity", {}, ["S"], None, "="))
    out.append(("Cast.i64", "Cast", {"to": TP.INT64}, ["S"], None, "="))
    out.append(("Cast.i32.i64", "CastRound", {}, ["S"], None, "="))
    out.append(("Squeeze", "Squeeze", {}, ["S"], 1, 0))
    out.append(("Squeeze.0", "Squeeze", {}, ["S", _c(i([0]))], 1, 0))
    out.append(("Unsqueeze.0", "Unsqueeze", {}, ["S", _c(i([0]))], 0, 1))
    out.append(("Concat.s3", "Concat", {"axis": 0}, ["S", _c(i([3]))], 1, 1))
    out.append(("Concat.1s", "Concat", {"axis": 0}, [_c(i([1])), "S"], 1, 1))
    out.append(("Concat.ss", "Concat", {"axis": 0}, ["S", "S"], 1, 1))
    out.append(("Concat.s", "Concat", {"axis": 0}, ["S"], 1, 1))
    out.append(("Concat.sm1", "Concat", {"axis": 0}, ["S", _c(i([-1]))], 1, 1))
    out.append(("Reshape.m1", "Reshape", {}, ["S", _c(i([-1]))], None, 1))
    out.append(("Slice.0_1", "Slice", {}, ["S", _c(i([0])), _c(i([1]))], 1, 1))
    out.append(("Slice.1_", "Slice", {}, ["S", _c(i([1])), _c(i([mz.INT64_MAX]))], 1, 1))
    out.append(("Slice.0_max", "Slice", {}, ["S", _c(i([0])), _c(i([mz.INT64_MAX]))], 1, 1))
    out.append(("Max.1", "Max", {}, ["S", _c(i([1]))], None, "="))
    out.append(("ReduceProd", "ReduceProd", {"keepdims": 1}, ["S"], 1, 1))
    return out


SOPS = _sops()
SOP_BY = {s[0]: s for s in SOPS}
CORE = ["Gather.g0", "Gather.gm1", "Gather.g0s", "Add.m5", "Add.1", "Add.0", "Mul.1", "Sub.0", "Abs", "Cast.i64",
        "Squeeze", "Unsqueeze.0", "Concat.s3", "Concat.1s", "Identity", "Slice.0_1", "Reshape.m1", "Cast.i32.i64"]

# sinks: how the computed shape value is consumed (rank needed)
SINKS = [("out", None), ("reshape_x", 1), ("reshape_x_az", 1), ("expand_x", 1), ("expand_c", 1), ("cos", 1),
         ("cos_cast", 1), ("range", 0), ("add_x", None), ("reshape_x_out2", 1), ("expand_y", 1)]


SINK_BY = dict(SINKS)
# per chain length: (x kinds, sources, alphabets per position, sinks); everything listed is enumerated completely
TIERS = {
    "quick": {
        0: dict(x=[0, 1, 2, 3, 4, 5], src=list(range(len(SOURCES))), ops=[], sinks=[s for s, _ in SINKS]),
        1: dict(x=[0, 1, 3], src=list(range(len(SOURCES))), ops=["ALL"], sinks=["out", "reshape_x", "expand_x", "cos", "range"]),
        "1w": dict(x=[0], src=list(range(len(SOURCES))), ops=["ALL"],
                   sinks=["reshape_x_az", "expand_c", "cos_cast", "add_x", "reshape_x_out2", "expand_y"]),
        2: dict(x=[0], src=[0, 1, 3, 7], ops=["ALL", "CORE"], sinks=["out"]),
        "2r": dict(x=[0], src=[0, 1], ops=["CORE", "CORE"], sinks=["reshape_x", "expand_x"]),
    },
    "thorough": {
        0: dict(x=[0, 1, 2, 3, 4, 5], src=list(range(len(SOURCES))), ops=[], sinks=[s for s, _ in SINKS]),
        1: dict(x=[0, 1, 2, 3, 4, 5], src=list(range(len(SOURCES))), ops=["ALL"], sinks=[s for s, _ in SINKS]),
        2: dict(x=[0, 1, 3], src=[0, 1, 2, 3, 7, 8], ops=["ALL", "CORE"], sinks=["out", "reshape_x", "expand_x"]),
        "2w": dict(x=[0, 2], src=[0, 1, 3, 7], ops=["CORE", "ALL"], sinks=["out", "reshape_x", "expand_x"]),
        3: dict(x=[0], src=[0, 1, 3, 7], ops=["CORE", "CORE", "CORE"], sinks=["out", "reshape_x"]),
    },
}


def drv_chain_factory(tier):
    groups = TIERS[tier]

    def drv(ch):
        gname = ch.all("group", list(groups))
        g = groups[gname]
        xk = ch.all("x", g["x"])
        src = ch.all("source", g["src"])
        rank = 0 if SOURCES[src][0] == "Size" else 1
        ops = []
        for j, alpha in enumerate(g["ops"]):
            lab = ch.all(f"op{j}", [s[0] for s in SOPS] if alpha == "ALL" else CORE)
            s = SOP_BY[lab]
            if s[4] is not None and s[4] != rank:
                raise explore.Prune()
            rank = rank if s[5] == "=" else s[5]
            ops.append(lab)
        sink = ch.all("sink", g["sinks"])
        need = SINK_BY[sink]
        if need is not None and need != rank:
            raise explore.Prune()
        yk = None
        if SOURCES[src][0] == "ShapeY" or sink == "expand_y":
            yk = ch.all("y", list(range(len(YKINDS))) if tier != "quick" else [0, 1, 3])
        vi = ch.choose("value_info", [False, True]) if len(ops) <= 1 else False
        return dict(fam="chain", x=xk, y=yk, source=src, ops=ops, sink=sink, vi=vi, api="optimize")
    return drv


DATA_TEMPLATES = ["expand_const", "slice", "flatten", "concat_zero", "expand_shape_of", "reshape_const", "scatter_dynamic", "expand_binary",
                  "squeeze_unsqueeze", "identity_shape", "matmul_reshape", "split_seq", "reshape_shape_mix", "gather_shape_dim"]


def drv_data(ch):
    t = ch.all("tmpl", DATA_TEMPLATES)
    xk = ch.all("x", list(range(len(XKINDS))))
    p = {}
    api = "optimize"
    if t == "expand_const":
        # Expand with a CONSTANT target of lower / equal / higher rank than the input (broadcasting aligns from the
        # right; a seeded defect aligned from the left)
        p["xs"] = ch.all("xs", [[3, "N"], ["N", 3], [1, "N"], ["N", 1], ["N", "M"], [3, 1], [None, 3]])
        import itertools as _it
        p["target"] = ch.all("target", [list(t_) for r in (1, 2, 3) for t_ in _it.product([1, 3, 2], repeat=r)])
        p["pre"] = ch.all("pre", [None, "Relu"])
    elif t == "slice":
        p["start"] = ch.all("start", [0, 1])
        p["end"] = ch.all("end", [mz.INT64_MAX, 3, 7, 2, 1, 100])
        p["axis"] = ch.all("axis", [0, 1, -1])
        p["step"] = ch.all("step", [1, 2, None])
    elif t == "flatten":
        p["axis"] = ch.all("axis", [None, 0, 1, 2, -1])
    elif t == "concat_zero":
        p["other"] = ch.all("other", [[0, 3], ["M", 3], [1, 3], [None, 3], ["N", 3]])
        p["axis"] = ch.all("axis", [0, 1, -1])
        p["order"] = ch.all("order", [0, 1])
    elif t == "expand_shape_of":
        p["y"] = ch.all("y", list(range(len(YKINDS))))
        p["via"] = ch.all("via", ["shape", "concat_gather", "shape_slice"])
    elif t == "reshape_const":
        p["shape"] = ch.all("shape", [[-1, 3], [0, 3], [0, -1], [-1], [3, -1], [0, 0], [-1, 1, 3], [1, -1, 3]])
        p["allowzero"] = ch.all("allowzero", [None, 1])
        p["second"] = ch.all("second", [None, [-1, 3], [0, -1], [-1]])
    elif t == "scatter_dynamic":
        p["axis"] = ch.all("axis", [0, 1, -1])
        p["u"] = ch.all("u", ["same", "N3", "M3"])
        p["red"] = ch.all("red", ["none", None])
    elif t == "expand_binary":
        p["op"] = ch.all("op", ["Add", "Mul", "Sub", "Less", "Div"])
        p["y"] = ch.all("y", [["N", 3], ["M", 3], [2, 3], [1, 3], ["N", 1], [3]])
        p["shape"] = ch.all("shape", ["c23", "c13", "shape_y", "shape_x", "concat_y0_3", "cN3?"])
        p["side"] = ch.all("side", [0, 1])
        api = ch.all("api", ["rewrite_expand", "optimize+expand"])
    elif t == "squeeze_unsqueeze":
        p["a1"] = ch.all("a1", [0, 1, -1, 2])
        p["a2"] = ch.all("a2", [0, 1, -1, None])
        p["second"] = ch.all("second", ["Squeeze", "Unsqueeze", "Reshape-1"])
    elif t == "identity_shape":
        p["op"] = ch.all("op", ["Identity", "Relu", "Cast"])
        p["then"] = ch.all("then", ["shape", "expand_self", "reshape_self", "none"])
    elif t == "matmul_reshape":
        p["b"] = ch.all("b", [[3, 2], ["M", 2], [3, "N"]])
        p["ra"] = ch.all("ra", [[-1, 3], [1, -1, 3], [0, 3]])
        p["rc"] = ch.all("rc", [[-1, 2], [0, 2], [-1]])
    elif t == "split_seq":
        p["axis"] = ch.all("axis", [0, 1])
        p["split"] = ch.all("split", [None, 1, 2, [1, 2], [1, 1, 1]])
        p["keepdims"] = ch.all("keepdims", [None, 0])
        p["use"] = ch.all("use", ["at0", "atm1", "concat", "len"])
    elif t == "reshape_shape_mix":
        p["a"] = ch.all("a", ["g0", "g1", "c3", "cm1", "c0", "size"])
        p["b"] = ch.all("b", ["g0", "g1", "c3", "cm1", "c0", "c1"])
        p["allowzero"] = ch.all("allowzero", [None, 1])
    elif t == "gather_shape_dim":
        p["idx"] = ch.all("idx", [0, 1, -1, -2, [0], [1, 0]])
        p["then"] = ch.all("then", ["out", "range", "cos", "eq"])
        p["axisattr"] = ch.all("axisattr", [0, None])
    vi = ch.choose("value_info", [False, True])
    # unknown output dims written anonymously (no dim_param), as some exporters do, instead of onnx's unk__N names
    anon = ch.choose("anon_out_dims", [False, True])
    return dict(fam="data", tmpl=t, x=xk, p=p, vi=vi, api=api, anon=anon)


# ------------------------------------------------------------------------------------------------
# item -> spec
# ------------------------------------------------------------------------------------------------
class _NB:
    """tiny node-list builder for specs"""

    def __init__(self):
        self.nodes = []

    def add(self, op, ins, attrs=None, no=1):
        self.nodes.append({"op": op, "a": dict(attrs or {}), "i": ins, "no": no})
        return {"n": len(self.nodes) - 1}


X = {"x": "x"}
Y = {"x": "y"}


def spec_of(item):
    nb = _NB()
    xs = XKINDS[item["x"]]
    ins = [["x", "f32", xs]]
    outs = []
    if item["fam"] == "chain":
        op, at = SOURCES[item["source"]]
        if item.get("y") is not None:
            ins.append(["y", "f32", YKINDS[item["y"]]])
        if op == "ShapeY":
            cur = nb.add("Shape", [Y])
        else:
            cur = nb.add(op, [X], at)
        for lab in item["ops"]:
            _, sop, sat, tmpl, _, _ = SOP_BY[lab]
            if sop == "CastRound":
                cur = nb.add("Cast", [cur], {"to": TP.INT32})
                cur = nb.add("Cast", [cur], {"to": TP.INT64})
                continue
            cur = nb.add(sop, [dict(cur) if t == "S" else copy.deepcopy(t) for t in tmpl], sat)
        sink = item["sink"]
        if sink == "out":
            outs = [cur]
        elif sink == "reshape_x":
            outs = [nb.add("Reshape", [X, cur])]
        elif sink == "reshape_x_az":
            outs = [nb.add("Reshape", [X, cur], {"allowzero": 1})]
        elif sink == "reshape_x_out2":
            outs = [nb.add("Reshape", [X, cur]), cur]
        elif sink == "expand_x":
            outs = [nb.add("Expand", [X, cur])]
        elif sink == "expand_y":
            outs = [nb.add("Expand", [Y, cur])]
        elif sink == "expand_c":
            outs = [nb.add("Expand", [_c(f([[1.0, 2.0, 3.0]])), cur])]
        elif sink == "cos":
            outs = [nb.add("ConstantOfShape", [cur], {"value": f([1.5])})]
        elif sink == "cos_cast":
            c0 = nb.add("ConstantOfShape", [cur])
            outs = [nb.add("Cast", [c0], {"to": TP.INT64})]
        elif sink == "range":
            outs = [nb.add("Range", [_c(i(0)), cur, _c(i(1))])]
        elif sink == "add_x":
            c0 = nb.add("Cast", [cur], {"to": TP.FLOAT})
            outs = [nb.add("Add", [X, c0])]
    else:
        t, p = item["tmpl"], item["p"]
        if t == "expand_const":
            ins[0] = ["x", "f32", p["xs"]]
            src = nb.add(p["pre"], [X]) if p["pre"] else X
            outs = [nb.add("Expand", [src, _c(i(p["target"]))])]
        elif t == "slice":
            sl = [X, _c(i([p["start"]])), _c(i([p["end"]])), _c(i([p["axis"]]))]
            if p["step"] is not None:
                sl.append(_c(i([p["step"]])))
            outs = [nb.add("Slice", sl)]
        elif t == "flatten":
            outs = [nb.add("Flatten", [X], {} if p["axis"] is None else {"axis": p["axis"]})]
        elif t == "concat_zero":
            oshape = p["other"]
            if all(isinstance(d, int) for d in oshape):
                other = _c(mz.T("f32", __import__("numpy").zeros(oshape)))
            else:
                ins.append(["y", "f32", oshape])
                other = Y
            outs = [nb.add("Concat", [X, other] if p["order"] == 0 else [other, X], {"axis": p["axis"]})]
        elif t == "expand_shape_of":
            ins.append(["y", "f32", YKINDS[p["y"]]])
            s = nb.add("Shape", [X])
            if p["via"] == "concat_gather":
                g0 = nb.add("Gather", [s, _c(i([0]))], {"axis": 0})
                g1 = nb.add("Gather", [s, _c(i([1]))], {"axis": 0})
                s = nb.add("Concat", [g0, g1], {"axis": 0})
            elif p["via"] == "shape_slice":
                a = nb.add("Shape", [X], {"start": 0, "end": 1})
                b = nb.add("Shape", [X], {"start": 1})
                s = nb.add("Concat", [a, b], {"axis": 0})
            outs = [nb.add("Expand", [Y, s])]
        elif t == "reshape_const":
            at = {} if p["allowzero"] is None else {"allowzero": p["allowzero"]}
            r = nb.add("Reshape", [X, _c(i(p["shape"]))], at)
            if p["second"] is not None:
                r = nb.add("Reshape", [r, _c(i(p["second"]))])
            outs = [r]
        elif t == "scatter_dynamic":
            ush = list(xs) if p["u"] == "same" else ["N", 3] if p["u"] == "N3" else ["M", 3]
            ins.append(["u", "f32", ush])
            s = nb.add("Shape", [X], {"start": 0})
            d = nb.add("Gather", [s, _c(i(p["axis"]))], {"axis": 0})
            r = nb.add("Range", [_c(i(0)), d, _c(i(1))])
            u = nb.add("Unsqueeze", [r, _c(i([-1]))])
            outs = [nb.add("ScatterND", [X, u, {"x": "u"}], {} if p["red"] is None else {"reduction": p["red"]})]
        elif t == "expand_binary":
            ins.append(["y", "f32", p["y"]])
            sh = p["shape"]
            if sh == "c23":
                s = _c(i([2, 3]))
            elif sh == "c13":
                s = _c(i([1, 3]))
            elif sh == "shape_y":
                s = nb.add("Shape", [Y])
            elif sh == "shape_x":
                s = nb.add("Shape", [X])
            elif sh == "concat_y0_3":
                a = nb.add("Shape", [Y], {"start": 0, "end": 1})
                s = nb.add("Concat", [a, _c(i([3]))], {"axis": 0})
            else:
                a = nb.add("Shape", [X], {"start": 0, "end": 1})
                s = nb.add("Concat", [a, _c(i([3]))], {"axis": 0})
            e = nb.add("Expand", [X, s])
            outs = [nb.add(p["op"], [e, Y] if p["side"] == 0 else [Y, e])]
        elif t == "squeeze_unsqueeze":
            u = nb.add("Unsqueeze", [X, _c(i([p["a1"]]))])
            if p["second"] == "Squeeze":
                outs = [nb.add("Squeeze", [u] if p["a2"] is None else [u, _c(i([p["a2"]]))])]
            elif p["second"] == "Unsqueeze":
                outs = [nb.add("Unsqueeze", [u, _c(i([0 if p["a2"] is None else p["a2"]]))])]
            else:
                sq = nb.add("Squeeze", [X])
                outs = [nb.add("Reshape", [sq, _c(i([-1]))])]
        elif t == "identity_shape":
            at = {"to": TP.FLOAT} if p["op"] == "Cast" else {}
            a = nb.add(p["op"], [X], at)
            if p["then"] == "shape":
                outs = [nb.add("Shape", [a]), a]
            elif p["then"] == "expand_self":
                s = nb.add("Shape", [X])
                outs = [nb.add("Expand", [a, s])]
            elif p["then"] == "reshape_self":
                s = nb.add("Shape", [a])
                outs = [nb.add("Reshape", [X, s])]
            else:
                outs = [a]
        elif t == "matmul_reshape":
            ins.append(["b", "f32", p["b"]])
            ra = nb.add("Reshape", [X, _c(i(p["ra"]))])
            mm = nb.add("MatMul", [ra, {"x": "b"}])
            outs = [nb.add("Reshape", [mm, _c(i(p["rc"]))])]
        elif t == "split_seq":
            at = {"axis": p["axis"]}
            if p["keepdims"] is not None:
                at["keepdims"] = p["keepdims"]
            sp = [X] if p["split"] is None else [X, _c(i(p["split"]))]
            q = nb.add("SplitToSequence", sp, at)
            if p["use"] == "at0":
                outs = [nb.add("SequenceAt", [q, _c(i(0))])]
            elif p["use"] == "atm1":
                outs = [nb.add("SequenceAt", [q, _c(i(-1))])]
            elif p["use"] == "concat":
                outs = [nb.add("ConcatFromSequence", [q], {"axis": p["axis"]})]
            else:
                outs = [nb.add("SequenceLength", [q])]
        elif t == "reshape_shape_mix":
            s = nb.add("Shape", [X])

            def part(k):
                if k == "g0":
                    return nb.add("Gather", [s, _c(i([0]))], {"axis": 0})
                if k == "g1":
                    return nb.add("Gather", [s, _c(i([1]))], {"axis": 0})
                if k == "size":
                    z = nb.add("Size", [X])
                    return nb.add("Unsqueeze", [z, _c(i([0]))])
                return _c(i([{"c3": 3, "cm1": -1, "c0": 0, "c1": 1}[k]]))
            a, b = part(p["a"]), part(p["b"])
            c = nb.add("Concat", [a, b], {"axis": 0})
            outs = [nb.add("Reshape", [X, c], {} if p["allowzero"] is None else {"allowzero": 1})]
        elif t == "gather_shape_dim":
            s = nb.add("Shape", [X])
            g = nb.add("Gather", [s, _c(i(p["idx"]))], {} if p["axisattr"] is None else {"axis": 0})
            if p["then"] == "out":
                outs = [g]
            elif p["then"] == "range":
                outs = [nb.add("Range", [_c(i(0)), g, _c(i(1))])]
            elif p["then"] == "cos":
                outs = [nb.add("ConstantOfShape", [nb.add("Reshape", [g, _c(i([-1]))])])]
            else:
                outs = [nb.add("Equal", [g, _c(i(3))])]
    spec = {"ins": ins, "nodes": nb.nodes, "outs": [dict(o, k=0) for o in outs], "wrap": "none", "opset": 18}
    if item.get("vi"):
        spec["keep_value_info"] = True
    if item.get("anon"):
        spec["anon_out_dims"] = True
    return spec


def symbols_of(spec):
    syms = []
    for (n, t, s) in spec["ins"]:
        for j, d in enumerate(s):
            k = d if isinstance(d, str) else f"?{n}{j}" if d is None else None
            if k is not None and k not in syms:
                syms.append(k)
    return syms


def bindings_of(spec):
    syms = symbols_of(spec)
    if len(syms) > 3:
        syms = syms[:3]
    return [dict(zip(syms, vals)) for vals in itertools.product(DIMS, repeat=len(syms))]


# ------------------------------------------------------------------------------------------------
def plan(tier, seed):
    fam = {}
    items = []
    if tier == "quick":
        items += optplan._run(drv_chain_factory("quick"), 0, fam, "chain")
        items += optplan._run(drv_data, 0, fam, "data")
    else:
        items += optplan._run(drv_chain_factory("thorough"), 1, fam, "chain")
        items += optplan._run(drv_data, 1, fam, "data")
    stats = dict(states=sum(x["states"] for x in fam.values()), transitions=sum(x["transitions"] for x in fam.values()),
                 leaves=sum(x["leaves"] for x in fam.values()), pruned=sum(x["pruned"] for x in fam.values()),
                 capped=False, bound={k: x["bound"] for k, x in fam.items()}, families=fam, exhaustive=True)
    stats["dimensions"] = {f"{k}.{d}": n for k, x in fam.items() for d, n in x["dimensions"].items()}
    stats["binding_values"] = DIMS
    items = optplan.apply_debug_filter(items, stats)
    return items, stats


worker_init = _c03.worker_init


def _label(item):
    if item["fam"] == "chain":
        return f"x{item['x']}:{SOURCES[item['source']][0]}{sorted(SOURCES[item['source']][1].items())}>" + \
            ">".join(item["ops"]) + ">" + item["sink"] + (f":y{item['y']}" if item.get("y") is not None else "") + \
            ("+vi" if item.get("vi") else "")
    return f"x{item['x']}:{item['tmpl']}:{sorted(item['p'].items())}:{item['api']}" + ("+vi" if item.get("vi") else "")


def run(item):
    spec = spec_of(item)
    built = mz.build(spec)
    if built.problem:
        return None, {"skip": "gen-invalid", "problem": built.problem, "c03": [], "counts": {}}, spec
    binds = bindings_of(spec)
    rec = optrun.evaluate(built, item, binds=binds, n_val=2, api=item.get("api", "optimize"), opts={}, entry="proto",
                          want_override=False, collect_all=True, widen=True)
    rec["n_binds"] = len(binds)
    return built, rec, spec


def _minimise(item, fails):
    """Drop chain ops / simplify sink, x kind and value_info while the case still fails."""
    cur = copy.deepcopy(item)
    budget = [16]

    def attempt(c):
        if budget[0] <= 0:
            return False
        budget[0] -= 1
        try:
            return fails(c)
        except Exception:  # noqa: BLE001
            return False
    changed = True
    while changed:
        changed = False
        cands = []
        if cur.get("vi"):
            c = copy.deepcopy(cur); c["vi"] = False; cands.append(c)
        if cur["fam"] == "chain":
            for j in range(len(cur["ops"])):
                c = copy.deepcopy(cur); del c["ops"][j]; cands.append(c)
            if cur["sink"] != "out":
                c = copy.deepcopy(cur); c["sink"] = "out"; cands.append(c)
            if cur["x"] != 0:
                c = copy.deepcopy(cur); c["x"] = 0; cands.append(c)
        for c in cands:
            if attempt(c):
                cur = c
                changed = True
                break
    return cur


def execute(item):
    _c03.watchdog(True)
    try:
        return _execute(item)
    finally:
        _c03.watchdog(False)


def _execute(item):
    built, rec, spec = run(item)
    label = _label(item)
    counts = dict(rec.get("counts") or {})
    out = {"counts": counts, "nkey": label}
    if rec.get("skip"):
        out.update(status="skip", skip=rec["skip"], outcome="skip:" + rec["skip"].split(":")[0])
        return out
    if rec.get("raised"):
        out.update(status="skip", skip="api-raised", outcome="api-raised")  # totality is C04's subject
        return out
    counts["bindings_total"] = rec["n_binds"]
    admitted_binds = {tuple(sorted((r or {}).items())) for r in []}
    viols = []
    if rec["c03"]:
        def fails(it):
            b2, r2, _ = run(it)
            return bool(r2.get("c03"))
        small = _minimise(item, fails)
        b2, r2, spec2 = (built, rec, spec) if small == item else run(small)
        if not r2.get("c03"):
            small, b2, r2, spec2 = item, built, rec, spec
        v = r2["c03"][0]
        bind = dict(mz.BIND_DEFAULT)
        bind.update(v.get("bind") or {})
        feeds = b2.feeds(v["k"], bind)
        exp, _ = optrun.Orig(b2.model).admit(feeds)

        def still_bad(m2):
            if exp is None:
                return False
            try:
                got = optrun.Sess(m2).run(feeds)
            except runeq.RunError:
                return True
            return runeq.compare(exp, got) is not None
        comp, dsig = optrun.attribute(b2.model, small.get("api", "optimize"), {}, "proto", still_bad)
        if dsig is None:
            dsig = r2.get("diff", "")
        failing = sorted({tuple(sorted((x.get("bind") or {}).items())) for x in r2["c03"]})
        n_adm = r2.get("admitted", 0)
        cls = "all-admitted-bindings" if len(r2["c03"]) >= n_adm else "some-bindings"
        shape_sig = ">".join(n["op"] for n in spec2["nodes"])
        p = small.get("p") or {}
        if small.get("tmpl") == "split_seq" and p.get("split") is not None and p.get("keepdims") == 0:
            key = "C09|not-equivalent|fold|split_to_sequence|keepdims=0-with-split-input"
        elif str(comp).startswith("rule:"):
            key = f"C09|not-equivalent|{comp}|{v.get('symptom')}|{cls}"
        else:
            key = f"C09|not-equivalent|{comp}|{dsig}|{shape_sig}|{cls}"
        viols.append({"key": key, "detail": {"case": label, "minimised": _label(small), "failing_bindings": [dict(b) for b in failing][:30],
                                             "n_failing_runs": len(r2["c03"]), "admitted_runs": n_adm,
                                             "first": {k: v.get(k) for k in ("symptom", "detail", "bind", "k", "expected", "got")}}})
    d = rec.get("diff")
    out["outcome"] = ("changed:" + d[:60]) if d else "unchanged"
    out["status"] = "viol" if viols else "ok"
    out["viols"] = viols
    out["show"] = mz.render(built.model, 700)
    return out


def on_crash(item, res):
    """Native crash of a worker: re-run only the ORIGINAL (all bindings) in a subprocess; if that dies too the case
    is skipped and counted, otherwise the crash is attributed to the optimized model => violation."""
    import json
    import os
    import subprocess
    import sys
    code = ("import json,sys\nfrom vf import mz, optrun\nfrom vf.props import c09\nitem=json.loads(sys.argv[1])\n"
            "spec=c09.spec_of(item)\nb=mz.build(spec)\no=optrun.Orig(b.model)\n"
            "[o.admit(b.feeds(k, dict(mz.BIND_DEFAULT, **bd))) for bd in c09.bindings_of(spec) for k in range(2)]\n"
            "print('ORIG-OK')\n")
    root = os.path.dirname(os.path.dirname(os.path.dirname(os.path.abspath(__file__))))
    try:
        p = subprocess.run([sys.executable, "-W", "ignore", "-c", code, json.dumps(item)], capture_output=True, text=True,
                           timeout=300, cwd=root)
    except subprocess.TimeoutExpired:
        return "original-hangs"
    return None if "ORIG-OK" in p.stdout else "original-crashes-runtime"


def summarize(items, results, tier):
    ch = collections.Counter()
    n_changed = 0
    for it, r in zip(items, results):
        if r.get("status") in ("ok", "viol") and str(r.get("outcome", "")).startswith("changed"):
            n_changed += 1
            ch[str(r["outcome"])[8:]] += 1
    return {"models_changed_by_optimizer": n_changed, "distinct_transformations_observed": len(ch),
            "top_transformations": dict(ch.most_common(50)),
            "note": "one-directional oracle: widened_acceptance (optimized accepts a binding the original rejects) is counted, not alarmed on"}
