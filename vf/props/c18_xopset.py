"""C18 family ``xopset``: one process traces the same operator at two opset versions.

A GraphBuilder graph must be the trace of the calls made on *that* builder; what another builder in the same process
traced before (at another opset) must not matter.  A seeded change (C18e) memoised the input/attribute split of an
operator per (domain, name) on the class, so ``Squeeze(x, [0])`` traced at opset 18 after a Squeeze at opset 12 put
``axes`` into an attribute: an invalid node, and only after that history.

Space (a walk over the finite schema registry, nothing sampled): every operator of the default domain with >= 2 schema
versions, every adjacent version pair (vOld, vNew) (the opsets used are vNew-1 and vNew), both orders, and for the
pairs in which a name moved between attributes and inputs additionally a third step back at the first opset.
Each history runs in a forked child of a pristine helper process (started per operator, imports onnxscript and nothing
of this check's other machinery), as does the *fresh* build of every single step; a history step must give exactly the
fresh outcome: the same serialized graph bytes, or a raise of the same type and message.
A step's call form is derived from the schema at that opset: required inputs are untyped-free typed graph inputs,
a name that is an input here and an attribute in the neighbouring version is passed as a Python literal operand,
required attributes get a type-correct dummy, attributes that are inputs in the neighbour get the same literal.

CLI (helper process): python -m vf.props.c18_xopset <op>   -> JSON on stdout
"""
from __future__ import annotations

import json
import os
import sys

MIN_OPSET = 7
MAX_OPSET = 23


def _schemas():
    import onnx
    from collections import defaultdict
    by = defaultdict(list)
    for s in onnx.defs.get_all_schemas_with_history():
        if s.domain == "" and not s.deprecated:
            by[s.name].append(s)
    for v in by.values():
        v.sort(key=lambda s: s.since_version)
    return by


def plan_ops():
    """-> list of (op, [(vOld, vNew, moved names)])"""
    out = []
    for name, ss in sorted(_schemas().items()):
        pairs = []
        for a, b in zip(ss, ss[1:]):
            if b.since_version > MAX_OPSET or b.since_version - 1 < MIN_OPSET:
                continue
            ia = {i.name for i in a.inputs}
            ib = {i.name for i in b.inputs}
            moved = (set(a.attributes) & ib) | (ia & set(b.attributes))
            pairs.append((a.since_version, b.since_version, sorted(moved)))
        if pairs:
            out.append((name, pairs))
    return out


# ------------------------------------------------------------------------------------------------ helper process

_LIT = {"axes": [0], "split": [1, 1], "pads": [0, 0, 0, 0], "starts": [0], "ends": [1], "shape": [2], "min": 0.0,
        "max": 1.0, "ratio": 0.5, "scales": [1.0, 1.0], "axis": 0}


def _dummy_attr(a):
    import onnx
    T = onnx.defs.OpSchema.AttrType
    return {T.INT: 1, T.INTS: [1, 1], T.FLOAT: 1.0, T.FLOATS: [1.0], T.STRING: "x", T.STRINGS: ["x"]}.get(a.type)


def _call_form(op, n, moved):
    """-> (list of positional specs, kwargs) | None when the schema cannot be called generically."""
    import onnx
    s = onnx.defs.get_schema(op, n, "")
    FP = onnx.defs.OpSchema.FormalParameterOption
    args = []
    for i in s.inputs:
        if i.name in moved:
            args.append(("lit", _LIT.get(i.name, [0])))
        elif i.option == FP.Optional:
            args.append(("none", None))
        elif i.option == FP.Variadic:
            args.append(("in", i.name + "0"))
            args.append(("in", i.name + "1"))
        else:
            args.append(("in", i.name))
    while args and args[-1][0] == "none":
        args.pop()
    kwargs = {}
    for name, a in s.attributes.items():
        if name in moved:
            kwargs[name] = _LIT.get(name, [0])
        elif a.required:
            d = _dummy_attr(a)
            if d is None:
                return None      # graph / tensor / type attributes: not built generically
            kwargs[name] = d
    return args, kwargs, max(len(s.outputs), 1) if all(o.option != FP.Variadic for o in s.outputs) else 1


def _build(op, n, moved):
    import onnx_ir as ir
    from onnxscript._internal import builder as B
    form = _call_form(op, n, moved)
    if form is None:
        return ["skip", "no generic call form"]
    args, kwargs, nout = form
    g = ir.Graph(name="x", inputs=[], outputs=[], nodes=[], opset_imports={"": n})
    gb = B.GraphBuilder(g)
    env = {}
    call = []
    for kind, v in args:
        if kind == "in":
            if v not in env:
                env[v] = gb.input(v, ir.DataType.FLOAT, [2, 2])
            call.append(env[v])
        elif kind == "lit":
            call.append(json.loads(json.dumps(v)))
        else:
            call.append(None)
    try:
        out = getattr(gb.op, op)(*call, **kwargs)
        outs = [out] if isinstance(out, ir.Value) else list(out)
        for o in outs:
            g.outputs.append(o)
        m = ir.serde.serialize_model(ir.Model(g, ir_version=10))
        text = m.SerializeToString(deterministic=True).hex()
        node = [nd for nd in m.graph.node if nd.op_type == op]
        shape = [[len(nd.input), sorted(a.name for a in nd.attribute)] for nd in node]
        return ["ok", text, shape]
    except Exception as e:  # noqa: BLE001 - a refusal is an outcome like any other; it must not depend on history
        return ["raise", type(e).__name__, str(e)[:300]]


def _in_child(fn):
    r, w = os.pipe()
    pid = os.fork()
    if pid == 0:
        try:
            os.close(r)
            res = fn()
            os.write(w, json.dumps(res).encode())
        except BaseException as e:  # noqa: BLE001
            os.write(w, json.dumps(["child-error", repr(e)[:300]]).encode())
        finally:
            os._exit(0)
    os.close(w)
    buf = b""
    while True:
        b = os.read(r, 1 << 16)
        if not b:
            break
        buf += b
    os.close(r)
    os.waitpid(pid, 0)
    return json.loads(buf.decode()) if buf else ["child-died"]


def helper_main(op):
    import onnxscript  # noqa: F401  (pristine: nothing traced in this process itself)
    pairs = dict((name, p) for name, p in plan_ops())[op]
    fresh = {}
    out = []
    for vold, vnew, moved in pairs:
        a, b = vnew - 1, vnew
        for n in (a, b):
            if (n, tuple(moved)) not in fresh:
                fresh[(n, tuple(moved))] = _in_child(lambda n=n: _build(op, n, moved))
        hists = [[a, b], [b, a]]
        if moved:
            hists += [[a, b, a], [b, a, b]]
        for h in hists:
            got = _in_child(lambda h=h: [_build(op, n, moved) for n in h])
            out.append({"op": op, "pair": [vold, vnew], "moved": moved, "hist": h, "got": got,
                        "fresh": [fresh[(n, tuple(moved))] for n in h]})
    print(json.dumps(out))


# ------------------------------------------------------------------------------------------------ check side

def plan_items():
    return [{"fam": "xopset", "x": "xopset", "op": op, "pairs": [list(p) for p in pairs]} for op, pairs in plan_ops()]


def execute(item):
    """-> list of per-history records {hist, status: ok|viol|skip, why, show}"""
    import subprocess
    root = os.path.dirname(os.path.dirname(os.path.dirname(os.path.abspath(__file__))))
    env = dict(os.environ)
    p = subprocess.run([sys.executable, "-W", "ignore", "-m", "vf.props.c18_xopset", item["op"]], cwd=root, env=env,
                       capture_output=True, text=True, timeout=600)
    if p.returncode != 0 or not p.stdout.strip():
        return [{"hist": None, "status": "viol", "why": "helper-failed", "show": (p.stderr or "")[-400:]}]
    recs = []
    for r in json.loads(p.stdout.strip().splitlines()[-1]):
        got, fresh = r["got"], r["fresh"]
        show = f"{r['op']} opsets {r['hist']} (schema versions {r['pair']}, moved {r['moved']})"
        if not isinstance(got, list) or len(got) != len(fresh) or (got and got[0] in ("child-error", "child-died")):
            recs.append({"hist": r["hist"], "status": "viol", "why": "child-failed", "show": show + f": {got}"})
            continue
        if all(f[0] == "skip" for f in fresh):
            recs.append({"hist": r["hist"], "status": "skip", "why": "no-call-form", "show": show})
            continue
        bad = None
        for k, (g, f) in enumerate(zip(got, fresh)):
            if g != f:
                bad = (k, g, f)
                break
        if bad is None:
            recs.append({"hist": r["hist"], "status": "ok", "why": ",".join(f[0] for f in fresh), "show": show})
        else:
            k, g, f = bad
            def brief(o):
                return f"{o[0]}:{o[2] if o[0] == 'ok' else o[1:]}"
            recs.append({"hist": r["hist"], "status": "viol", "why": "differs-from-fresh-build", "moved": bool(r["moved"]),
                         "show": show + f": step {k} (opset {r['hist'][k]}) fresh={brief(f)} after-history={brief(g)}"})
    return recs


if __name__ == "__main__":
    helper_main(sys.argv[1])
