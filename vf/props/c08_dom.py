"""C08 argument domains.  One driver per op family; every dimension is exhaustive (ch.all), so the explorer
enumerates the complete product.  A driver walks the ATen schema of the overload argument by argument and
chooses a value for each from a finite menu determined by the argument's schema type and name (never by a
per-op wrangler); arguments with a schema default also get the entry "omitted".

A case is {"op": qualified name, "g": {aten argument name: value spec}, "f": {label: feature value}}; value
specs are described in c08_core.  Feature values are short strings used for the case key and for the
minimised argument class of a finding.
"""
from __future__ import annotations

import os as _os

_os.environ.setdefault("TORCH_CPP_LOG_LEVEL", "ERROR")  # C++ TORCH_WARN lines would pollute the check's output

import itertools
import os

from vf import explore

_SCH = {}


def schema(qual):
    if qual not in _SCH:
        import torch  # parent process: schemas only
        ns, rest = qual.split("::")
        name, _, ovl = rest.partition(".")
        try:
            ov = getattr(getattr(getattr(torch.ops, ns), name), ovl or "default")
        except AttributeError:
            _SCH[qual] = None
            return None
        _SCH[qual] = [(a.name, str(a.type), a.kwarg_only, a.has_default_value()) for a in ov._schema.arguments]
    return _SCH[qual]


SHAPES_ALL = [(2, 3), (), (0,), (1,), (1, 3, 0), (2, 1, 3)]
SHAPES_QUICK = [(2, 3), (), (0,), (1,)]
DT_ALL = ["f32", "f16", "f64", "i32", "i64", "u8", "bool"]
DT_QUICK = ["f32", "i64", "bool"]
FLOATS = ("f16", "f32", "f64")


def cfg_for(tier):
    if tier == "quick":
        return {"tier": "quick", "shapes": SHAPES_QUICK, "dtypes": DT_QUICK}
    return {"tier": "thorough", "shapes": SHAPES_ALL, "dtypes": DT_ALL}


def fs(shape):
    return "(" + ",".join(str(d) for d in shape) + ")"


class Ctx:
    def __init__(self, ch, cfg, op):
        self.ch, self.cfg, self.op = ch, cfg, op
        self.g = {}
        self.f = {}
        self.meta = {}

    def pick(self, label, menu):
        """menu: list of (feature value, payload)."""
        if not menu:
            raise explore.Prune()
        feat, payload = self.ch.all(label, menu)
        self.f[label] = feat
        return payload

    def shape(self, label="shape", shapes=None):
        shapes = self.cfg["shapes"] if shapes is None else shapes
        return self.pick(label, [(fs(s), tuple(s)) for s in shapes])

    def dtype(self, label="dtype", dtypes=None):
        dtypes = self.cfg["dtypes"] if dtypes is None else [d for d in dtypes if d in self.cfg["dtypes"]]
        return self.pick(label, [(d, d) for d in dtypes])

    def case(self):
        return {"op": self.op, "g": self.g, "f": self.f}


def T(shape, dtype, pat="a"):
    return ["T", list(shape), dtype, pat]


def S(v):
    return ["S", v]


def L(v):
    return ["L", list(v)]


OMIT = object()


def note_dim(c, sh, d, label="size@dim"):
    """derived (not chosen) feature: the extent of the selected axis, so that a finding class can say
    'the reduced/squeezed axis has size 1' instead of listing (shape, dim) pairs"""
    if d is OMIT or d is None or isinstance(d, (list, tuple)) or isinstance(d, bool):
        return
    r = len(sh)
    if r == 0:
        c.f[label] = "0d"
    elif -r <= d < r:
        n = sh[d]
        c.f[label] = "0" if n == 0 else ("1" if n == 1 else ">1")


def note_dims(c, sh, dims):
    """derived features of an int[] dim argument: `axes` - the normalised, sorted set of selected axes (what torch's
    semantics depend on; sign and order of the entries are spelling), `size@dim` - has0 if an axis of extent 0 is
    selected, 1 if every selected axis has extent 1, else >1.  A finding class can then say 'an empty axis is
    reduced' or 'axes {1,2}' instead of listing every spelling of the pair."""
    if dims is OMIT or dims is None or not isinstance(dims, (list, tuple)) or len(dims) == 0:
        return
    r = len(sh)
    if r == 0:
        c.f["size@dim"] = "0d"
        return
    if not all(isinstance(d, int) and -r <= d < r for d in dims):
        return
    norm = sorted({d % r for d in dims})
    ext = [sh[d] for d in norm]
    c.f["size@dim"] = "has0" if 0 in ext else ("1" if all(e == 1 for e in ext) else ">1")
    c.f["axes"] = "{" + ",".join(str(d) for d in norm) + "}"


def axes(rank, neg=True):
    """every axis of a rank-r tensor (a 0-d tensor accepts 0 and -1)"""
    r = max(rank, 1)
    out = list(range(r))
    if neg:
        out += list(range(-r, 0))
    return out


def dim_lists(rank):
    """int[] dim menus: each single axis (both signs), EVERY ordered pair of distinct axes with both signs
    (not a hand-picked subset: a seeded defect needed (-2, -1)), all axes (non-negative and negative), empty"""
    out = [[d] for d in axes(rank)]
    if rank >= 2:
        ax = axes(rank)
        out += [[a, b] for a in ax for b in ax if a % rank != b % rank]
    if rank >= 3:
        out += [list(range(rank)), list(range(-rank, 0)), list(range(-1, -rank - 1, -1))]
    out.append([])
    return out


# ------------------------------------------------------------------------------------------------
# family 1: elementwise unary
# ------------------------------------------------------------------------------------------------

UNARY = [
    "abs", "acos", "acosh", "asin", "asinh", "atan", "atanh", "bitwise_not", "ceil", "cos", "cosh", "deg2rad",
    "erf", "erfc", "exp", "exp2", "expm1", "floor", "frac", "isfinite", "isinf", "isnan", "isneginf", "isposinf",
    "log", "log10", "log1p", "log2", "log_sigmoid", "logical_not", "mish", "neg", "rad2deg", "reciprocal", "relu",
    "relu6", "round", "rsqrt", "selu", "sigmoid", "sign", "signbit", "silu", "sin", "sinc", "sinh", "sqrt", "tan",
    "tanh", "trunc", "hardsigmoid", "hardswish", "special_erf", "special_erfc", "special_erfcx", "special_expm1",
    "special_sinc", "angle", "alias", "clone", "detach", "contiguous", "lift_fresh_copy", "resolve_conj",
    "resolve_neg", "conj", "_conj",
    # with scalar parameters
    "celu", "elu", "gelu", "hardtanh", "leaky_relu", "logit", "softplus", "round.decimals",
]
UNARY_PRIMS = ["abs", "acos", "acosh", "asin", "asinh", "atan", "atanh", "ceil", "cos", "cosh", "erf", "exp", "floor",
               "log", "neg", "round", "sin", "sinh", "sqrt", "tan", "tanh"]

_UNARY_SCALARS = {  # argument name -> values given besides "omitted"
    "alpha": [2.0, 0.5], "scale": [2.0], "input_scale": [0.5], "min_val": [-2.0, 0.25], "max_val": [0.5, 3],
    "negative_slope": [0.2, -1.0, 2], "eps": [0.25, 1e-6], "beta": [2.0, 0.5], "threshold": [1.0, 5],
    "decimals": [0, 1, -1, 2], "approximate": ["none", "tanh"],
}


def fam_unary(c):
    sch = schema(c.op)
    for (name, ty, kwo, has_def) in sch:
        if ty == "Tensor":
            sh = c.shape()
            dt = c.dtype()
            c.g[name] = T(sh, dt, "a")
        elif name in _UNARY_SCALARS:
            vals = _UNARY_SCALARS[name]
            menu = ([("omit", OMIT)] if has_def else []) + [(repr(v), v) for v in vals]
            v = c.pick(name, menu)
            if v is not OMIT:
                c.g[name] = ["STR", v] if isinstance(v, str) else S(v)
        elif name == "memory_format":
            pass  # left at its default (not a semantic argument on CPU eager)
        elif not has_def:
            raise AssertionError(f"{c.op}: no menu for required argument {name}: {ty}")
    return c.case()


# ------------------------------------------------------------------------------------------------
# family 2: binary, comparison, logical, bitwise (incl. alpha, rounding_mode), ternary elementwise
# ------------------------------------------------------------------------------------------------

BINARY = [
    "add.Tensor", "add.Scalar", "sub.Tensor", "sub.Scalar", "subtract.Tensor", "subtract.Scalar", "mul.Tensor",
    "multiply.Tensor", "div.Tensor", "div.Scalar", "div.Tensor_mode", "div.Scalar_mode", "divide.Tensor",
    "divide.Scalar", "true_divide.Tensor", "true_divide.Scalar", "floor_divide", "fmod.Tensor", "fmod.Scalar",
    "remainder.Tensor", "remainder.Scalar", "remainder.Scalar_Tensor", "pow.Tensor_Tensor", "pow.Tensor_Scalar",
    "pow.Scalar", "atan2", "maximum", "minimum", "logaddexp", "logaddexp2", "xlogy.Tensor", "xlogy.Scalar_Other",
    "xlogy.Scalar_Self", "heaviside",
    "eq.Tensor", "eq.Scalar", "ne.Tensor", "ne.Scalar", "lt.Tensor", "lt.Scalar", "le.Tensor", "le.Scalar",
    "gt.Tensor", "gt.Scalar", "ge.Tensor", "ge.Scalar", "greater.Tensor", "greater_equal.Tensor", "less.Tensor",
    "less_equal.Tensor", "isclose",
    "logical_and", "logical_or", "logical_xor",
    "bitwise_and.Tensor", "bitwise_and.Scalar", "bitwise_and.Scalar_Tensor", "bitwise_or.Tensor", "bitwise_or.Scalar",
    "bitwise_or.Scalar_Tensor", "bitwise_xor.Tensor", "bitwise_xor.Scalar", "bitwise_xor.Scalar_Tensor",
    "bitwise_left_shift.Tensor", "bitwise_left_shift.Tensor_Scalar", "bitwise_left_shift.Scalar_Tensor",
    "bitwise_right_shift.Tensor", "bitwise_right_shift.Tensor_Scalar", "bitwise_right_shift.Scalar_Tensor",
    "__lshift__.Scalar", "__rshift__.Scalar",
    "addcdiv", "addcmul", "lerp.Scalar", "lerp.Tensor",
]
BINARY_PRIMS = ["add", "sub", "mul", "div", "eq", "ge", "gt", "le", "lt", "ne", "pow", "remainder"]

_SHIFT = ("shift", "__lshift__", "__rshift__")


def _scalar_menu(op, dtype_of_tensor):
    """python scalars of every kind; the value classes matter (negative, fractional, bool)"""
    if any(s in op for s in _SHIFT):
        return [("int:1", 1), ("int:3", 3), ("int:0", 0)]
    return [("int:2", 2), ("int:-3", -3), ("float:2.5", 2.5), ("float:-0.5", -0.5), ("bool:True", True), ("int:0", 0)]


def _second_pat(op, dtype):
    """second operands: non-zero (integer division by zero is undefined in torch); shift amounts and integer
    exponents small and non-negative (negative ones are undefined / refused)"""
    if any(s in op for s in _SHIFT):
        return "c"
    if "pow" in op and dtype not in FLOATS:
        return "c"
    return "b"


def fam_binary(c):
    sch = schema(c.op)
    shift = any(s in c.op for s in _SHIFT)
    first = None  # (shape, dtype) of the first tensor operand
    for (name, ty, kwo, has_def) in sch:
        if ty == "Tensor":
            if first is None:
                sh = c.shape()
                dt = c.dtype()
                first = (sh, dt)
                c.g[name] = T(sh, dt, "a" if sch[0][0] == name else _second_pat(c.op, dt))
            else:
                # second/third operand: tensor of every shape, or a python scalar in the Tensor slot
                menu = [("t" + fs(s), ("t", s)) for s in c.cfg["shapes"]]
                if sum(1 for a in sch if a[1] == "Tensor") == 2:
                    # two-operand overloads: a python scalar may sit in the Tensor slot (x + 2 is add.Tensor(x, 2))
                    menu += [("py:" + k, ("s", v)) for k, v in _scalar_menu(c.op, first[1])]
                kind, v = c.pick(name, menu)
                if kind == "t":
                    c.g[name] = T(v, first[1], _second_pat(c.op, first[1]))
                else:
                    c.g[name] = S(v)
        elif ty == "number" and name in ("other", "exponent", "self", "weight", "value"):
            if name == "value":  # addcdiv/addcmul scale, keyword-only with default
                v = c.pick(name, [("omit", OMIT), ("2", 2), ("-0.5", -0.5)])
            else:
                v = c.pick(name, [(k, x) for k, x in _scalar_menu(c.op, None)])
            if v is not OMIT:
                c.g[name] = S(v)
        elif name == "alpha":
            v = c.pick("alpha", [("omit", OMIT), ("1", 1), ("2", 2), ("-1", -1), ("0.5", 0.5)])
            if v is not OMIT:
                c.g[name] = S(v)
        elif name == "rounding_mode":
            v = c.pick("rounding_mode", [("None", None), ("trunc", "trunc"), ("floor", "floor")])
            c.g[name] = ["N"] if v is None else ["STR", v]
        elif name in ("rtol", "atol"):
            v = c.pick(name, [("omit", OMIT), ("0.5", 0.5)])
            if v is not OMIT:
                c.g[name] = S(v)
        elif name == "equal_nan":
            v = c.pick(name, [("omit", OMIT), ("True", True)])
            if v is not OMIT:
                c.g[name] = S(v)
        elif not has_def:
            raise AssertionError(f"{c.op}: no menu for required argument {name}: {ty}")
    return c.case()


# ------------------------------------------------------------------------------------------------
# family 3: reductions + softmax family
# ------------------------------------------------------------------------------------------------

REDUCE = [
    "sum", "sum.dim_IntList", "mean", "mean.dim", "prod", "prod.dim_int", "amax", "amin", "max", "max.dim", "min",
    "min.dim", "argmax", "argmin", "all", "all.dim", "all.dims", "any", "any.dim", "any.dims", "logsumexp",
    "linalg_vector_norm", "softmax.int", "log_softmax.int", "_softmax", "_log_softmax", "special_softmax",
    "special_log_softmax", "logcumsumexp", "cumsum", "glu",
]
REDUCE_PRIMS = ["sum", "var"]


def fam_reduce(c):
    sch = schema(c.op)
    sh = None
    for (name, ty, kwo, has_def) in sch:
        if ty == "Tensor":
            sh = c.shape()
            dt = c.dtype()
            c.g[name] = T(sh, dt, "a")
        elif name in ("dim", "dims", "dimensions") and ty == "int":
            menu = ([("omit", OMIT)] if has_def else []) + [(str(d), d) for d in axes(len(sh))]
            v = c.pick("dim", menu)
            note_dim(c, sh, v)
            if v is not OMIT:
                c.g[name] = S(v)
        elif name in ("dim", "dims") and ty == "Optional[int]":
            menu = [("omit", OMIT), ("None", None)] + [(str(d), d) for d in axes(len(sh))]
            v = c.pick("dim", menu)
            if v is not OMIT:
                c.g[name] = ["N"] if v is None else S(v)
        elif name in ("dim", "dims") and ty in ("List[int]", "Optional[List[int]]"):
            menu = [("omit", OMIT)] if has_def else []
            if ty.startswith("Optional"):
                menu.append(("None", None))
            menu += [(str(d).replace(" ", ""), d) for d in dim_lists(len(sh))]
            v = c.pick("dim", menu)
            note_dims(c, sh, v)
            if v is not OMIT:
                c.g[name] = ["N"] if v is None else L(v)
        elif name == "keepdim":
            v = c.pick("keepdim", [("omit", OMIT), ("True", True), ("False", False)])
            if v is not OMIT:
                c.g[name] = S(v)
        elif name in ("dtype", "output_dtype"):
            menu = [("omit", OMIT), ("None", None)] + [(d, d) for d in ("f32", "f64", "i64") if True]
            if not has_def:
                menu = menu[1:]
            v = c.pick("dtype_arg", menu)
            if v is not OMIT:
                c.g[name] = ["N"] if v is None else ["D", v]
        elif name == "half_to_float":
            c.g[name] = S(c.pick(name, [("False", False), ("True", True)]))
        elif name == "ord":
            v = c.pick("ord", [("omit", OMIT), ("2", 2), ("1", 1), ("0", 0), ("inf", float("inf")),
                               ("-inf", float("-inf")), ("3", 3), ("0.5", 0.5)])
            if v is not OMIT:
                c.g[name] = S(v)
        elif name == "correction":
            v = c.pick("correction", [("omit", OMIT), ("0", 0.0), ("1", 1.0), ("None", None)])
            if v is not OMIT:
                c.g[name] = ["N"] if v is None else S(v)
        elif not has_def:
            raise AssertionError(f"{c.op}: no menu for required argument {name}: {ty}")
    return c.case()


# ------------------------------------------------------------------------------------------------
# registry of families
# ------------------------------------------------------------------------------------------------

def _q(names, ns="aten"):
    return [f"{ns}::{n}" for n in names]


FAMILIES = [
    ("unary", fam_unary, _q(UNARY) + _q(UNARY_PRIMS, "prims")),
    ("binary", fam_binary, _q(BINARY) + _q(BINARY_PRIMS, "prims")),
    ("reduce", fam_reduce, _q(REDUCE) + _q(REDUCE_PRIMS, "prims")),
]
QUICK_FAMILIES = ("unary", "binary", "reduce", "view", "index", "create", "clamp", "matmul", "norm")


def _families(tier):
    from vf.props import c08_dom2, c08_dom3
    every = FAMILIES + c08_dom2.FAMILIES2 + c08_dom3.FAMILIES3
    quick = QUICK_FAMILIES + c08_dom3.QUICK_FAMILIES3
    fams = [f for f in every if tier != "quick" or f[0] in quick]
    only = os.environ.get("C08_FAMILIES")  # debugging aid: restrict the families that are planned
    if only:
        fams = [f for f in every if f[0] in only.split(",")]
    return fams


def cases_for(tier, fam, op):
    """All cases of one overload, re-enumerated (workers regenerate them instead of receiving them)."""
    cfg = cfg_for(tier)
    fn = [f[1] for f in _families(tier) if f[0] == fam][0]

    def driver(ch):
        if schema(op) is None:
            return {"op": op, "fam": fam, "g": {}, "f": {}, "noschema": True}
        c = Ctx(ch, cfg, op)
        case = fn(c)
        case["fam"] = fam
        return case
    return [case for _, case in explore.explore(driver, bound=0)]


def driver_for(tier):
    cfg = cfg_for(tier)
    fams = _families(tier)
    table = [(fam, fn, op) for fam, fn, ops in fams for op in ops]

    def driver(ch):
        fam, fn, op = ch.all("op", table)
        if schema(op) is None:
            return {"op": op, "fam": fam, "g": {}, "f": {}, "noschema": True}
        c = Ctx(ch, cfg, op)
        case = fn(c)
        case["fam"] = fam
        return case
    return driver
