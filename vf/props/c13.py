"""C13 - ONNX -> Python (onnxscript.proto2python) -> exec -> ONNX round-trips to an equivalent model.

Choice tree: base proto (hand-written @script functions as ModelProto and as FunctionProto; onnx.helper models
as ModelProto and as FunctionProto; out-of-class models) x constants in slots (value from a pool, placement as
Constant node / initializer; deviation) x renaming of values through the name alphabet (deviation) x ALL 16
option tuples (exhaustive).  A leaf executes the real exporter, compiles and executes the emitted source in a
fresh module, converts back and runs original and round-tripped proto on the base's input pool.

The 16 option leaves of one case are executed together (one work item) so that the original is built, validated
and run once; they are still 16 leaves of the explored tree and are counted as such.
"""
from __future__ import annotations

import collections
import copy
import itertools
import json
import re
import threading

import numpy as np
import onnx
from onnx import helper as oh
from onnx import numpy_helper as nh

from vf import explore, runeq

ID = "C13"
LEVEL = "model_checking"
RULE = ("choice tree: 108 base protos (27 hand-written @script functions: 23 as to_model_proto(), 27 as "
        "to_function_proto(); 30 onnx.helper models incl. 5 out-of-class: 30 as ModelProto, 28 as FunctionProto) "
        "x per constant slot {pool value, Constant node | initializer} "
        "x per value name {keep | 11-name alphabet} (deviation bound 1 quick / 2 thorough over constants and names "
        "together) x all 16 (rename,use_operators,inline_const,skip_initializers) tuples (exhaustive). "
        "plus family sg: every accepted program of a bounded-exhaustive slice of the C01 script-program space "
        "(vf.sggen dataflow + operator families; see coverage.sg_families) as to_model_proto() and "
        "to_function_proto() x all 16 option tuples. "
        "distinct_nontrivial = distinct (base,kind,constants,renaming,options) leaves whose emitted source was "
        "compiled/executed and compared (ok or violating), not refused or skipped")
ASSUMPTIONS = [
    "onnxruntime CPU (ORT_DISABLE_ALL) defines what a model computes; onnx.reference is a second opinion on the "
    "original (Loop nodes with an omitted condition are given an explicit constant-true condition for the reference "
    "run: onnx 1.22 ReferenceEvaluator does not iterate when the condition is omitted); disagreement => case skipped",
    "value names outside C identifiers (a.b, 0, 1x) and Python keywords are in scope because the exporter documents "
    "handling them; sibling subgraphs may reuse names (ONNX IR scoping)",
    "the initializers left out by skip_initializers are supplied to the generated make_model() by parameter name "
    "(after the documented clean-up), or positionally under rename",
]

ALPHABET = ["a.b", "a_b", "0", "1x", "if", "class", "r_if", "opset18", "alpha", "v1", "x", "alpha_0", "alpha_1", "alpha.0"]
OPTION_NAMES = ("rename", "use_operators", "inline_const", "skip_initializers")
ALL_OPTS = [list(bits) for bits in itertools.product([0, 1], repeat=4)]
RUN_TIMEOUT_S = 10.0   # a round-tripped while-loop may never terminate (seen: names colliding after clean-up)
QUICK_REPRESENTATIVES = 4
THOROUGH_REPRESENTATIVES = 3

_B = None
_RT = None


def _mods():
    global _B, _RT
    if _B is None:
        from vf.props import c13_bases, c13_rt
        _B, _RT = c13_bases, c13_rt
    return _B, _RT


# =========================================================================================================
# building a case
# =========================================================================================================
def _basekinds():
    B, _ = _mods()
    out = []
    for name, s in B.SCRIPTS.items():
        if s["model"]:
            out.append([name, "model"])
        if s["fun"]:
            out.append([name, "function"])
    for name, h in B.HELPERS.items():
        out.append([name, "model"])
        if "nofunction" not in h["tags"] and "sparse" not in h["tags"] and "overridable" not in h["tags"]:
            out.append([name, "function"])
    return out


def _finalize_model(m, in_class):
    """Fill in graph output shapes by ONNX shape inference and validate with the checker."""
    try:
        inferred = onnx.shape_inference.infer_shapes(m, strict_mode=True)
        byname = {o.name: o for o in inferred.graph.output}
        for o in m.graph.output:
            if o.name in byname and byname[o.name].type.HasField("tensor_type") and o.type.HasField("tensor_type") \
                    and not o.type.tensor_type.HasField("shape") and byname[o.name].type.tensor_type.HasField("shape"):
                o.type.CopyFrom(byname[o.name].type)
        onnx.checker.check_model(m, full_check=True)
    except Exception as e:  # noqa: BLE001
        if in_class:
            return m, f"{type(e).__name__}: {str(e)[:200]}"
    return m, None


def _inits_to_constants(g):
    nodes = [oh.make_node("Constant", [], [i.name], value=i) for i in g.initializer] + list(g.node)
    for n in nodes:
        for a in n.attribute:
            if a.type == onnx.AttributeProto.GRAPH:
                _inits_to_constants(a.g)
    del g.node[:]
    g.node.extend(nodes)
    del g.initializer[:]


def _model_to_function(m, name, domain="c13.dom"):
    m = copy.deepcopy(m)
    g = m.graph
    init_names = {i.name for i in g.initializer}
    _inits_to_constants(g)
    nodes = list(g.node)
    ins = [i.name for i in g.input if i.name not in init_names]
    return oh.make_function(domain, name, ins, [o.name for o in g.output], nodes, opset_imports=list(m.opset_import))


def _rename_graph(g, mp):
    for coll in (g.input, g.output, g.value_info, g.initializer):
        for x in coll:
            if x.name in mp:
                x.name = mp[x.name]
    for n in g.node:
        _rename_node(n, mp)


def _rename_node(n, mp):
    for k, v in enumerate(n.input):
        if v in mp:
            n.input[k] = mp[v]
    for k, v in enumerate(n.output):
        if v in mp:
            n.output[k] = mp[v]
    for a in n.attribute:
        if a.type == onnx.AttributeProto.GRAPH:
            _rename_graph(a.g, mp)
        for sg in a.graphs:
            _rename_graph(sg, mp)


def _names_of_graph(g, acc):
    def add(x):
        if x and x not in acc:
            acc.append(x)
    for x in g.input:
        add(x.name)
    for x in g.initializer:
        add(x.name)
    for n in g.node:
        for v in n.input:
            add(v)
        for a in n.attribute:
            if a.type == onnx.AttributeProto.GRAPH:
                _names_of_graph(a.g, acc)
            for sg in a.graphs:
                _names_of_graph(sg, acc)
        for v in n.output:
            add(v)
    for x in g.output:
        add(x.name)
    return acc


def value_names(proto):
    acc = []
    if isinstance(proto, onnx.ModelProto):
        return _names_of_graph(proto.graph, acc)
    fake = onnx.GraphProto()
    fake.node.extend(proto.node)
    for x in proto.input:
        acc.append(x)
    _names_of_graph(fake, acc)
    for x in proto.output:
        if x not in acc:
            acc.append(x)
    return acc


def rename_proto(proto, mp):
    proto = copy.deepcopy(proto)
    if isinstance(proto, onnx.ModelProto):
        _rename_graph(proto.graph, mp)
    else:
        for k, v in enumerate(proto.input):
            if v in mp:
                proto.input[k] = mp[v]
        for k, v in enumerate(proto.output):
            if v in mp:
                proto.output[k] = mp[v]
        for n in proto.node:
            _rename_node(n, mp)
    return proto


def _ref_normalise(m):
    """Same model with every omitted Loop condition replaced by an explicit constant true (ONNX: omitted == true)."""
    m = copy.deepcopy(m)
    counter = [0]

    def walk_nodes(nodes):
        out = []
        for n in nodes:
            for a in n.attribute:
                if a.type == onnx.AttributeProto.GRAPH:
                    new = walk_nodes(list(a.g.node))
                    del a.g.node[:]
                    a.g.node.extend(new)
            if n.op_type == "Loop" and n.domain in ("", "ai.onnx") and (len(n.input) < 2 or n.input[1] == ""):
                counter[0] += 1
                cname = f"c13_true_{counter[0]}"
                out.append(oh.make_node("Constant", [], [cname], value=nh.from_array(np.array(True), name=cname)))
                ins = list(n.input) + [""] * (2 - len(n.input))
                ins[1] = cname
                del n.input[:]
                n.input.extend(ins)
            out.append(n)
        return out

    new = walk_nodes(list(m.graph.node))
    del m.graph.node[:]
    m.graph.node.extend(new)
    for f in m.functions:
        newf = walk_nodes(list(f.node))
        del f.node[:]
        f.node.extend(newf)
    return m


class RunTimeout(Exception):
    pass


def run_session(sess, feeds, timeout=None):
    """session.run with a watchdog: ORT polls RunOptions.terminate between nodes, also inside Loop bodies."""
    names = {i.name for i in sess.get_inputs()}
    ro = runeq.ort().RunOptions()
    fired = []

    def fire():
        fired.append(1)
        ro.terminate = True

    timer = threading.Timer(timeout or RUN_TIMEOUT_S, fire)
    timer.daemon = True
    timer.start()
    try:
        return sess.run(None, {k: v for k, v in feeds.items() if k in names}, ro)
    except Exception as e:  # noqa: BLE001
        if fired:
            raise RunTimeout() from None
        raise runeq.RunError("run", str(e)[:500]) from None
    finally:
        timer.cancel()


class Case:
    """One (base, kind, constants, renaming): the proto given to proto2python and everything needed to judge."""

    def __init__(self, base, kind, consts, ren):
        B, RT = _mods()
        self.base, self.kind, self.consts, self.ren = base, kind, consts, ren
        self.key = f"{base}|{kind}|{json.dumps(consts, sort_keys=True)}|{json.dumps(ren)}"
        self.invalid = None
        self.deps = []
        self.attrs = {}
        mp = {a: b for a, b in ren}
        if base in B.SCRIPTS:
            s = B.SCRIPTS[base]
            self.tags = s["tags"]
            self.in_class = True
            self.feeds = s["feeds"]
            fn = s["fn"]
            self.deps = [d.to_function_proto() for d in s["deps"]]
            if kind == "model":
                m = fn.to_model_proto()
                self.in_names = [i.name for i in m.graph.input]
                self.proto = rename_proto(m, mp)
                self.orig_model = self.proto
            else:
                f = fn.to_function_proto()
                self.in_names = list(f.input)
                if s["in_types"] is not None:
                    in_t, out_t = s["in_types"], s["out_types"]
                else:
                    m = fn.to_model_proto()
                    in_t = [i.type for i in m.graph.input]
                    out_t = [o.type for o in m.graph.output]
                self.in_types, self.out_types = in_t, out_t
                self.attrs = s["attrs"]
                self.proto = rename_proto(f, mp)
                self.orig_model = RT.function_harness(self.proto, in_t, out_t, self.attrs, self.deps)
        else:
            h = B.HELPERS[base]
            self.tags = h["tags"]
            self.in_class = h["in_class"]
            self.feeds = h["feeds"]
            ch = {k: tuple(v) for k, v in consts.items()}
            m = h["build"](ch)
            m, bad = _finalize_model(m, self.in_class)
            self.invalid = bad
            init_names = {i.name for i in m.graph.initializer}
            if kind == "model":
                self.in_names = [i.name for i in m.graph.input]
                self.proto = rename_proto(m, mp)
                self.orig_model = self.proto
            else:
                f = _model_to_function(m, "f_" + base)
                self.in_names = list(f.input)
                self.in_types = [i.type for i in m.graph.input if i.name not in init_names]
                self.out_types = [o.type for o in m.graph.output]
                self.proto = rename_proto(f, mp)
                self.orig_model = RT.function_harness(self.proto, self.in_types, self.out_types, {}, [])
        self.names = value_names(self.proto)
        self._admitted = None
        self.admit_reasons = collections.Counter()
        self.src_cache = {}

    # feeds keyed by the (renamed) input names of the runnable original
    def _feeds_for_original(self, fd):
        if self.kind == "model":
            mp = {a: b for a, b in self.ren}
            return {mp.get(k, k): v for k, v in fd.items()}
        return {f"hin{k}": fd[n] for k, n in enumerate(self.in_names) if n in fd}

    def positional(self, fd):
        return [fd.get(n) for n in self.in_names]

    def admitted(self):
        """[(feed, outputs)] for inputs on which the original is settled (ORT, and the reference when it runs)."""
        if self._admitted is not None:
            return self._admitted
        res = []
        try:
            sess = runeq.make_session(self.orig_model)
        except runeq.RunError:
            # ORT has no type support (complex tensors): the ONNX reference evaluator alone defines the result,
            # for the original and for the round-tripped model alike (self.engine == "ref")
            try:
                refm = _ref_normalise(self.orig_model)
                for fd in self.feeds:
                    res.append((fd, runeq.run_ref(refm, self._feeds_for_original(fd))))
                self.engine = "ref"
                self.admit_reasons["ref-only"] += len(res)
            except Exception:  # noqa: BLE001
                res = []
                self.admit_reasons["ort-load"] += len(self.feeds)
            self._admitted = res
            return res
        refm = None
        for fd in self.feeds:
            feeds = self._feeds_for_original(fd)
            try:
                o = run_session(sess, feeds)
            except runeq.RunError as e:
                self.admit_reasons["ort-" + e.kind] += 1
                continue
            except RunTimeout:
                self.admit_reasons["ort-timeout"] += 1
                continue
            try:
                if refm is None:
                    refm = _ref_normalise(self.orig_model)
                r = runeq.run_ref(refm, feeds)
            except Exception:  # noqa: BLE001  reference cannot load/run it: ORT alone
                self.admit_reasons["ort-only"] += 1
                res.append((fd, o))
                continue
            if runeq.compare(o, r, loose=10.0):
                self.admit_reasons["disagree"] += 1
                continue
            self.admit_reasons["both"] += 1
            res.append((fd, o))
        self._admitted = res
        return res


_CASES = collections.OrderedDict()
_LEAVES = {}


def get_case(base, kind, consts, ren):
    key = (base, kind, json.dumps(consts, sort_keys=True), json.dumps(ren))
    c = _CASES.get(key)
    if c is None:
        c = Case(base, kind, consts, ren)
        _CASES[key] = c
        if len(_CASES) > 400:
            old, oc = _CASES.popitem(last=False)
            for k in [k for k in _LEAVES if k[0] == oc.key]:
                del _LEAVES[k]
    return c


# =========================================================================================================
# one leaf
# =========================================================================================================
def _normalise(msg):
    s = str(msg).strip().split("\n")[0]
    s = re.sub(r"<c13-\d+-\d+>", "<gen>", s)
    s = re.sub(r"Unbound name: [^\s]+", "Unbound name: _", s)
    # the same refusal since fix 6f5e4de when the unbound name is assigned later in the function (one symptom class)
    s = s.replace(" (local variable referenced before assignment)", "")
    s = re.sub(r"'[^']*'", "'_'", s)
    s = re.sub(r"\bv\d+\b", "vN", s)
    s = re.sub(r"\d+", "N", s)
    return s[:110]


_STAGE_KIND = {"export": "raises", "compile": "no-compile", "exec": "decoration-fails", "fetch": "no-function",
               "to_proto": "decoration-fails"}


def _after_export(case, src, opts):
    """Everything after proto2python returned `src`.  -> dict(kind, symptom, detail)  (kind 'ok' when all holds)."""
    _, RT = _mods()
    try:
        if case.kind == "model":
            back, how = RT.back_to_model(case.proto, src, opts)
            diffs = RT.model_interface_diff(case.proto, back, opts["rename"], case.names)
            run_model = back
        else:
            fb = RT.back_to_function(case.proto, src, opts)
            diffs = RT.function_interface_diff(case.proto, fb, opts["rename"])
            run_model = None if diffs else RT.function_harness(fb, case.in_types, case.out_types, case.attrs, case.deps)
    except RT.Stage as s:
        exc_name = type(s.exc).__name__
        return dict(kind=_STAGE_KIND[s.stage], symptom=f"{exc_name}: {_normalise(s.exc)}", detail=RT._msg(s.exc),
                    unbound=_unbound(s.exc))
    if diffs:
        return dict(kind="signature", symptom=_normalise(re.sub(r"\(.*?\)|'.*?'", "", diffs[0])), detail="; ".join(diffs)[:400])
    adm = case.admitted()
    if not adm:
        return dict(kind="skip", symptom="no-admitted-input", detail=dict(case.admit_reasons))
    if getattr(case, "engine", "ort") == "ref":
        try:
            refm = _ref_normalise(run_model)
        except Exception as e:  # noqa: BLE001
            return dict(kind="invalid-model", symptom=_normalise(e), detail=str(e)[:400])
        for fd, exp in adm:
            names = [i.name for i in run_model.graph.input]
            feeds = {n: v for n, v in zip(names, case.positional(fd)) if v is not None}
            try:
                got = runeq.run_ref(refm, feeds)
            except Exception as e:  # noqa: BLE001
                return dict(kind="not-equivalent", symptom="run-fails", detail=str(e)[:300])
            d = runeq.compare(exp, got)
            if d:
                return dict(kind="not-equivalent", symptom="outputs-differ",
                            detail=dict(diff=d, expected=runeq.describe(exp), got=runeq.describe(got)))
        return dict(kind="ok", symptom="", detail=len(adm))
    try:
        sess = runeq.make_session(run_model)
    except runeq.RunError as e:
        lost = case.kind == "model" and len(case.proto.functions) > 0 and len(run_model.functions) == 0
        return dict(kind="invalid-model", symptom="functions-missing" if lost else _normalise(re.sub(r"^.*?: \d+ : ", "", e.msg)),
                    detail=e.msg[:400], lost_functions=lost)
    for fd, exp in adm:
        pos = case.positional(fd)
        names = [i.name for i in run_model.graph.input]
        feeds = {n: v for n, v in zip(names, pos) if v is not None}
        try:
            got = run_session(sess, feeds)
        except runeq.RunError as e:
            return dict(kind="not-equivalent", symptom="run-fails", detail=e.msg[:300])
        except RunTimeout:
            return dict(kind="not-equivalent", symptom="does-not-terminate",
                        detail=dict(what=f"the original terminates, the round-tripped model was stopped after {RUN_TIMEOUT_S}s",
                                    feed={k: runeq.describe(v) for k, v in fd.items()}))
        d = runeq.compare(exp, got)
        if d:
            return dict(kind="not-equivalent", symptom="outputs-differ",
                        detail=dict(diff=d, feed={k: runeq.describe(v) for k, v in fd.items()},
                                    expected=runeq.describe(exp), got=runeq.describe(got)))
    return dict(kind="ok", symptom="", detail=len(adm))


def _unbound(exc):
    m = re.search(r"Unbound name: ([^\s.]+(?:\.[^\s.]+)*)\.", str(exc))
    if m:
        return m.group(1)
    m = re.search(r"name '([^']+)' is not defined", str(exc))
    return m.group(1) if m else None


def eval_leaf(case, bits):
    """-> dict(kind, symptom, detail, src)   kind in ok|refused|late-refusal|skip|<violation kind>"""
    _, RT = _mods()
    lk = (case.key, tuple(bits))
    if lk in _LEAVES:
        return _LEAVES[lk]
    opts = {n: bool(b) for n, b in zip(OPTION_NAMES, bits)}
    res = None
    if case.invalid:
        res = dict(kind="skip", symptom="original-invalid", detail=case.invalid, src=None)
    else:
        try:
            src = RT.export(case.proto, opts)
        except RT.Stage as s:
            exc_name = type(s.exc).__name__
            res = dict(kind="raises" if case.in_class else "refused", symptom=f"{exc_name}: {_normalise(s.exc)}",
                       detail=RT._msg(s.exc), src=None)
    if res is None:
        hit = case.src_cache.get(src)
        if hit is None:
            hit = _after_export(case, src, opts)
            case.src_cache[src] = hit
            reused = False
        else:
            reused = True
        res = dict(hit)
        res["src"] = src
        res["reused"] = reused
        if not case.in_class:
            # outside the class a refusal is correct, also a late one (the emitted module does not load); emitted
            # text that is not Python, or a module that loads and denotes another interface/computation, is not
            if res["kind"] in ("decoration-fails", "no-function"):
                res["kind"], res["was"] = "late-refusal", res["kind"]
    _LEAVES[lk] = res
    return res


# =========================================================================================================
# attribution: which deviation / which options / which feature
# =========================================================================================================
def _has_nonfinite(key):
    B, _ = _mods()
    a = B.CONST_POOL[key]
    return a.dtype.kind == "f" and not np.isfinite(a).all()


def _is_negative(key):
    B, _ = _mods()
    a = B.CONST_POOL[key]
    return a.dtype.kind in "fi" and a.ndim == 0 and bool(np.signbit(a))


def _initializer_names(case):
    _, RT = _mods()
    return {i.name for i in RT.all_initializers(case.proto)} if isinstance(case.proto, onnx.ModelProto) else set()


def _dev_label(case, dev):
    _, RT = _mods()
    if dev[0] == "name":
        _, old, new = dev
        others = [n for n in case.names if n != new]
        if any(RT.spec_clean(n) == RT.spec_clean(new) for n in others):
            return "names-collide"
        if new in _initializer_names(case) and RT.spec_clean(new) != new:
            return "initializer-name-needs-cleanup"
        return f"name={new}"
    _, slot, key, place = dev
    if key.startswith("t:") and _mods()[0].CONST_POOL[key].dtype not in (np.float32, np.int64):
        return f"const={key}"             # typed constants: one key per element type / payload
    if _has_nonfinite(key):
        return "nonfinite-const"          # placement is irrelevant: initializers are exported as Constant nodes
    if _is_negative(key):
        return "negative-const"
    return f"const={key}" + ("@init" if place == "init" else "")


def _devs(consts, ren):
    return [("const", k, v[0], v[1]) for k, v in sorted(consts.items())] + [("name", a, b) for a, b in ren]


def _case_of(base, kind, devs):
    consts = {d[1]: [d[2], d[3]] for d in devs if d[0] == "const"}
    ren = [[d[1], d[2]] for d in devs if d[0] == "name"]
    return get_case(base, kind, consts, ren)


def _big_inits(case):
    _, RT = _mods()
    return RT.big_initializers(case.proto) if isinstance(case.proto, onnx.ModelProto) else []


def _has_loop(case, pred):
    def walk(nodes):
        for n in nodes:
            if n.op_type == "Loop" and pred(n):
                return True
            for a in n.attribute:
                if a.type == onnx.AttributeProto.GRAPH and walk(a.g.node):
                    return True
        return False
    return walk(case.proto.graph.node if isinstance(case.proto, onnx.ModelProto) else case.proto.node)


def _constant_py_names(case):
    """Cleaned names of Constant-node outputs / initializers (values the inline_const option may substitute)."""
    _, RT = _mods()
    out = set()

    def walk(nodes):
        for n in nodes:
            if n.op_type == "Constant":
                out.update(RT.spec_clean(o) for o in n.output if o)
            for a in n.attribute:
                if a.type == onnx.AttributeProto.GRAPH:
                    out.update(RT.spec_clean(i.name) for i in a.g.initializer)
                    walk(a.g.node)
    if isinstance(case.proto, onnx.ModelProto):
        out.update(RT.spec_clean(i.name) for i in case.proto.graph.initializer)
        walk(case.proto.graph.node)
    else:
        walk(case.proto.node)
    return out


def _base_feature(case, bits, leaf):
    """Name of the triaged defect for a violation that needs no deviation; 'other:...' when it is none of them."""
    opts = {n: bool(b) for n, b in zip(OPTION_NAMES, bits)}
    kind, sym = leaf["kind"], leaf["symptom"]
    is_model = case.kind == "model"
    tags = case.tags
    has_count = lambda n: len(n.input) > 0 and n.input[0] != ""  # noqa: E731
    has_cond = lambda n: len(n.input) > 1 and n.input[1] != ""  # noqa: E731
    if is_model and opts["skip_initializers"] and not _big_inits(case):
        if kind == "no-compile" and "IndentationError" in sym:
            return "no-large-initializer"
        if kind == "no-function" and case.proto.functions:
            return "no-large-initializer"
        if kind == "decoration-fails" and case.proto.functions and "sg" in tags:
            # same defect, third symptom: the indented main function becomes a nested definition at the end of the
            # preceding local function's body, and translating that nested definition fails (TranslationError /
            # AssertionError of the liveness analysis).  `opts` is the 1-minimal option set here, so the failure
            # disappears without skip_initializers.
            return "no-large-initializer"
    if is_model and opts["rename"] and kind == "decoration-fails" and "Unbound name" in sym and case.proto.graph.input \
            and re.fullmatch(r"v\d+", leaf.get("unbound") or ""):
        return "graph-inputs-not-renamed"
    if is_model and kind == "raises" and sym.startswith("IndexError") and _has_loop(case, lambda n: has_count(n) and not has_cond(n)):
        return "for-loop-in-main-graph"
    if kind == "decoration-fails" and "Instruction break" in sym:
        if _has_loop(case, lambda n: has_count(n) and has_cond(n)) or "break" in tags:
            return "loop-count-and-cond"
        if "iter-in-while" in tags:
            return "while-reads-iteration-number"
    if kind == "invalid-model" and leaf.get("lost_functions"):
        return "model-local-function-dropped"
    if "sg" in tags and opts["inline_const"] and kind == "decoration-fails" and "Unbound name" in sym \
            and leaf.get("unbound") in _constant_py_names(case):
        return "inlined-const-assigned"    # generated programs: the unbound name decides (a constant vs an attribute)
    if "attr-default" in tags and kind == "decoration-fails" and "Unbound name" in sym:
        return "attr-default-dropped"
    if "attr-ints" in tags and kind == "decoration-fails" and "NameError" in sym and leaf.get("unbound") == "Sequence":
        return "list-attr-annotation"
    if kind == "decoration-fails" and "default_opset must be specified" in sym:
        return "no-opset-call-left"
    if is_model and opts["skip_initializers"] and kind == "raises" and "Unable to generate random initializer" in sym:
        return "non-float-large-initializer"
    if is_model and opts["skip_initializers"] and "value-info" in tags and kind == "decoration-fails" and "NameError" in sym:
        return "value-info-type-not-imported"
    if opts["inline_const"] and kind == "decoration-fails" and "Unbound name" in sym \
            and leaf.get("unbound") in _constant_py_names(case):
        return "inlined-const-assigned"
    if "swap" in tags and kind == "not-equivalent":
        return "loop-carried-swap"
    if "overridable" in tags:
        return "overridable-initializer"
    slug = re.sub(r"[^A-Za-z0-9]+", "-", sym).strip("-")[:60]
    return f"other:{slug}@{case.base}"


_VIOL_KINDS = ("raises", "no-compile", "decoration-fails", "no-function", "signature", "invalid-model", "not-equivalent")
_STRUCTURAL = ("no-large-initializer", "graph-inputs-not-renamed", "non-float-large-initializer",
               "model-local-function-dropped", "for-loop-in-main-graph")


def attribute(case, bits, leaf):
    """Explain a violating leaf.  -> (option class, feature, masked)

    * If the same base without any deviation already violates the property under these options, nothing can be
      learnt from the deviations: the leaf is attributed to the base's defect (masked=True).
    * Otherwise greedily drop deviations, then options, for as long as the reduced configuration still shows the
      same (kind, symptom): a 1-minimal configuration names the defect."""
    devs = _devs(case.consts, case.ren)
    opts = [n for n, b in zip(OPTION_NAMES, bits) if b]
    masked = False
    if devs:
        try:
            c0 = _case_of(case.base, case.kind, [])
            l0 = eval_leaf(c0, bits)
        except Exception:  # noqa: BLE001
            l0 = None
        if l0 is not None and l0["kind"] in _VIOL_KINDS:
            case, leaf, devs, masked = c0, l0, [], True
    sig = (leaf["kind"], leaf["symptom"])

    def probe(dv, op):
        try:
            c2 = _case_of(case.base, case.kind, dv)
            b2 = [1 if n in op else 0 for n in OPTION_NAMES]
            l2 = eval_leaf(c2, b2)
        except Exception:  # noqa: BLE001  reduced case cannot be built
            return None
        return (c2, b2, l2) if (l2["kind"], l2["symptom"]) == sig else None

    cur = (case, list(bits), leaf)
    changed = True
    while changed:
        changed = False
        for d in list(devs):
            got = probe([x for x in devs if x != d], opts)
            if got:
                devs.remove(d)
                cur = got
                changed = True
        for o in list(opts):
            got = probe(devs, [x for x in opts if x != o])
            if got:
                opts.remove(o)
                cur = got
                changed = True
    c2, b2, l2 = cur
    optclass = "+".join(sorted(opts)) or "any"
    base_label = _base_feature(c2, b2, l2)
    if not devs or base_label in _STRUCTURAL:
        return optclass, base_label, masked
    labels = []
    for d in devs:
        lab = _dev_label(c2, d)
        if lab not in labels:
            labels.append(lab)
    if "names-collide" in labels:
        # one defect (the clean-up is not injective) whatever the options and the other deviation are
        return "any", "names-collide", masked
    if "initializer-name-needs-cleanup" in labels:
        return optclass, "initializer-name-needs-cleanup", masked
    return optclass, "+".join(labels), masked


# =========================================================================================================
# plan / execute
# =========================================================================================================
_STATIC = {}


def _static(base, kind):
    k = (base, kind)
    if k not in _STATIC:
        B, _ = _mods()
        c = Case(base, kind, {}, [])
        slots = B.HELPERS[base]["slots"] if base in B.HELPERS else {}
        _STATIC[k] = dict(names=list(c.names), slots=slots)
    return _STATIC[k]


def _representatives(names, in_names, n):
    """A few structurally different values: first input, last value (an output), a middle one, ..."""
    if len(names) <= n:
        return list(names)
    idx = sorted({0, len(names) - 1, len(names) // 2, len(names) // 4, (3 * len(names)) // 4})
    out = [names[i] for i in idx][:n]
    return out


def _driver(ch, tier):
    base, kind = ch.all("base", _basekinds())
    st = _static(base, kind)
    consts = {}
    for slot, (default, allowed) in st["slots"].items():
        menu = [default] + [a for a in allowed if a != default]
        key = ch.choose("const", menu)
        place = ch.choose("place", ["node", "init"]) if kind == "model" else "node"
        if key != default or place != "node":
            consts[slot] = [key, place]
    names = st["names"]
    reps = set(_representatives(names, None, QUICK_REPRESENTATIVES if tier == "quick" else THOROUGH_REPRESENTATIVES))
    if base in _mods()[0].SCRIPTS and "allnames" in _mods()[0].SCRIPTS[base]["tags"]:
        reps = set(names)      # small bases in which every value (also those bound inside subgraphs) is renamed
    ren = []
    taken = set(names)
    ndev = len(consts)
    for n in names:
        if tier == "quick" and n not in reps:
            continue
        if tier == "thorough" and n not in reps:
            # non-representative values: renamed only as the single deviation of the case
            if ndev or ren:
                continue
            menu = [None] + ALPHABET
            new = ch.choose("name", menu)
        else:
            new = ch.choose("name", [None] + ALPHABET)
        if new is not None:
            if new in taken:
                raise explore.Prune()
            taken.add(new)
            ren.append([n, new])
    bits = ch.all("opts", ALL_OPTS)
    return {"base": base, "kind": kind, "consts": consts, "ren": ren, "bits": bits}


def plan(tier, seed):
    bound = 1 if tier == "quick" else 2
    st = explore.Stats()
    groups = collections.OrderedDict()
    for _, leaf in explore.explore(lambda ch: _driver(ch, tier), bound=bound, stats=st):
        k = (leaf["base"], leaf["kind"], json.dumps(leaf["consts"], sort_keys=True), json.dumps(leaf["ren"]))
        g = groups.get(k)
        if g is None:
            g = groups[k] = {"base": leaf["base"], "kind": leaf["kind"], "consts": leaf["consts"], "ren": leaf["ren"],
                             "opts": []}
        g["opts"].append(leaf["bits"])
    items = list(groups.values())
    d = st.as_dict()
    d["exhaustive"] = not st.capped
    d["dimensions"] = {k: len(v) for k, v in st.dim_hist.items()}
    d["cases"] = len(items)
    d["leaves_per_item"] = 16
    d["name_alphabet"] = ALPHABET
    # family `sg`: protos obtained from generated script functions (c13_sg); a leaf = (program, proto kind, options)
    from vf.props import c13_sg
    st2 = explore.Stats()
    sg_items, sg_counts = c13_sg.plan_items(tier, st2)
    d2 = st2.as_dict()
    n_sg_leaves = len(sg_items) * 2 * len(ALL_OPTS)
    d["states"] += d2["states"] + n_sg_leaves
    d["transitions"] += d2["transitions"] + n_sg_leaves
    d["leaves"] += n_sg_leaves
    d["pruned"] += d2["pruned"]
    d["sg_programs"] = len(sg_items)
    d["sg_families"] = sg_counts
    items += sg_items
    return items, d


def worker_init(arg):
    import warnings
    warnings.simplefilter("ignore")
    _mods()


def _execute_sg(item):
    """One generated script program: decorate, then the 16 option leaves of its model and function protos."""
    from vf import sg, sgrun
    from vf.props import c13_sg
    it = item["sg"]
    text = sg.body_text(it["prog"])
    try:
        loaded, names = c13_sg.register(it)
    except sgrun.Refused as r:
        return {"status": "skip", "skip": "sg-program-refused-by-the-converter", "outcome": "sg:refused",
                "counts": {"sg-refused": 1}, "show": text}
    merged = {"status": "ok", "outcome": set(), "nkey": [], "counts": collections.Counter(), "viols": {}, "show": None}
    skel = c13_sg.skeleton(it)
    try:
        for name, kinds in names:
            for kind in kinds:
                r = execute({"base": name, "kind": kind, "consts": {}, "ren": [], "opts": ALL_OPTS})
                merged["outcome"].update("sg:" + o for o in r["outcome"].split(",") if o)
                merged["nkey"] += r["nkey"]
                merged["counts"].update(r["counts"])
                merged["counts"]["sg-proto:" + kind] += 1
                for v in r["viols"]:
                    key = v["key"]
                    if "@sg:" in key:      # not one of the triaged root causes: keyed by the program's structure
                        key = key.split("@sg:")[0] + "@sg/" + skel
                    v["detail"]["program"] = text
                    merged["viols"].setdefault(key, {"key": key, "detail": v["detail"]})
                if merged["show"] is None and r.get("show"):
                    merged["show"] = text + "\n# ---- proto2python ----\n" + r["show"]
    finally:
        c13_sg.unregister(loaded, names)
    viols = list(merged["viols"].values())
    res = {"status": "viol" if viols else ("ok" if merged["nkey"] else "skip"), "outcome": ",".join(sorted(merged["outcome"])),
           "nkey": merged["nkey"], "counts": dict(merged["counts"]), "viols": viols, "show": (merged["show"] or text)[-1500:],
           "nontrivial": bool(merged["nkey"])}
    if res["status"] == "skip":
        res["skip"] = "sg-no-leaf-reached-the-oracle"
    return res


def execute(item):
    if item.get("fam") == "sg":
        return _execute_sg(item)
    case = get_case(item["base"], item["kind"], item["consts"], item["ren"])
    counts = collections.Counter()
    outcomes = set()
    nkeys = []
    any_masked = False
    groups = collections.OrderedDict()   # (kind, option class, feature) -> [bits]
    details = {}
    show = None
    for bits in item["opts"]:
        leaf = eval_leaf(case, bits)
        kind = leaf["kind"]
        counts["leaf:" + kind] += 1
        if leaf.get("reused"):
            counts["leaf-same-source-as-other-options"] += 1
        if kind == "late-refusal":
            counts["late-refusal:" + leaf.get("was", "")] += 1
        outcomes.add(kind)
        lk = f"{case.key}|{''.join(map(str, bits))}"
        if kind in ("ok", "refused", "late-refusal", "skip"):
            if kind == "ok":
                nkeys.append(lk)
                counts["inputs-compared"] += int(leaf["detail"])
                if show is None:
                    show = leaf["src"]
            if kind == "skip":
                counts["skip:" + leaf["symptom"]] += 1
            continue
        optclass, feature, masked = attribute(case, bits, leaf)
        if masked:
            counts["leaf-masked-by-base-violation"] += 1
            any_masked = True
        else:
            nkeys.append(lk)
        g = (kind if not masked else "*", optclass, feature)
        groups.setdefault(g, []).append(bits)
        details.setdefault(g, leaf)
    for r, n in case.admit_reasons.items():
        counts["original-input:" + r] += n
    counts["extra_evaluations"] = len(item["opts"]) - 1
    viols = []
    for (kind, optclass, feature), bitlists in groups.items():
        leaf = details[(kind, optclass, feature)]
        if kind == "*":
            continue   # reported by the deviation-free case of this base
        key = f"C13|{kind}|{optclass}|{feature}"
        src = leaf.get("src") or ""
        viols.append({"key": key, "detail": {
            "case": {"base": case.base, "kind": case.kind, "consts": case.consts, "ren": case.ren},
            "options_showing_it": ["+".join(n for n, b in zip(OPTION_NAMES, bl) if b) or "default" for bl in bitlists],
            "symptom": leaf["symptom"], "what": leaf["detail"], "source": src[-1800:]}})
    if viols:
        status = "viol"
    elif any(o in ("ok", "refused", "late-refusal") for o in outcomes):
        status = "ok"
    else:
        status = "skip"
    res = {"status": status, "outcome": ",".join(sorted(outcomes)), "nkey": nkeys, "counts": dict(counts),
           "viols": viols, "show": (show or "")[-1500:], "nontrivial": bool(nkeys)}
    if status == "skip":
        res["skip"] = ("original-invalid" if case.invalid else
                       "all-leaves-masked-by-the-base-violation" if any_masked else "no-admitted-input")
    return res


def summarize(items, results, tier):
    per_base = collections.Counter()
    for it, r in zip(items, results):
        per_base["sg/" + it["sg"]["fam"] if it.get("fam") == "sg" else f"{it['base']}/{it['kind']}"] += 1
    leafc = collections.Counter()
    for r in results:
        for k, v in (r.get("counts") or {}).items():
            if k.startswith("leaf:"):
                leafc[k[5:]] += v
    return {"cases_per_base": dict(per_base), "leaf_outcomes": dict(leafc),
            "option_tuples": ["+".join(n for n, b in zip(OPTION_NAMES, bl) if b) or "default" for bl in ALL_OPTS]}
