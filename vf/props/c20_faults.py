"""Recording fault-injection layer for file-system calls (helper of C20).

``FaultLayer(root, fault_at=k, mode=...)`` is a context manager that replaces ``builtins.open`` / ``io.open``,
the mutating ``os`` functions, the ``os`` stat family and ``mmap.mmap``.  Only calls whose path lies under
``root`` (after resolving relative paths against the current directory) are *recorded* and can be faulted;
everything else passes straight through and is counted in ``outside`` (so "zero file-system calls" can be
checked against both).  Files opened under ``root`` are returned wrapped in ``_FileProxy`` whose
``write/flush/close/tell/seek/truncate/read...`` are recorded individually.

Each recorded call gets the next index.  *Faultable* calls (everything except the stat family and
``fileno``) raise ``OSError`` when their *fault index* equals ``fault_at``:

- mode "raise":   the call has no effect and raises (ENOSPC for write-side calls, EIO for read-side ones)
- mode "partial": only for ``write``: half of the bytes are really written, then ENOSPC is raised
                  (a short write as BufferedWriter reports it)

C-level writes (numpy ``ndarray.tofile`` writing through a dup'ed descriptor) cannot be seen here; they are
reached with ``fsize_budget`` which puts ``RLIMIT_FSIZE`` to ``b`` bytes for the duration of the layer, so that
every write crossing offset ``b`` of any file fails with EFBIG (SIGXFSZ is ignored).
"""
from __future__ import annotations

import builtins
import errno
import io
import mmap as _mmap_mod
import os
import resource
import signal

_WRITE_SIDE = {"open-w", "write", "flush", "close", "truncate", "replace", "rename", "remove", "makedirs",
               "mkdir", "rmdir", "os-open-w", "link", "symlink"}
_READ_SIDE = {"open-r", "read", "seek", "tell", "mmap", "os-open-r"}
_NOFAULT = {"stat", "fileno", "close-r"}

_REAL_OPEN = builtins.open


class InjectedFault(OSError):
    """The OSError raised by the layer (a subclass so that the oracle can tell it from genuine errors)."""


class _FileProxy:
    """Wraps a real file object; every I/O method is reported to the layer first."""

    def __init__(self, layer, real, path, writing):
        object.__setattr__(self, "_layer", layer)
        object.__setattr__(self, "_real", real)
        object.__setattr__(self, "_path", path)
        object.__setattr__(self, "_writing", writing)

    # -- recorded I/O ---------------------------------------------------------------------
    def write(self, data):
        lay = self._layer
        idx = lay._record("write", self._path, len(data) if hasattr(data, "__len__") else None)
        if lay._should_fault(idx):
            if lay.mode == "partial":
                half = bytes(data)[: len(data) // 2] if not isinstance(data, str) else data[: len(data) // 2]
                if half:
                    self._real.write(half)
                    self._real.flush()
            lay._raise("write", self._path)
        return self._real.write(data)

    def writelines(self, lines):
        for l in lines:
            self.write(l)

    def flush(self):
        self._layer._hit("flush", self._path)
        return self._real.flush()

    def close(self):
        if self._real.closed:
            return None
        lay = self._layer
        op = "close" if self._writing else "close-r"
        idx = lay._record(op, self._path)
        if lay._should_fault(idx):
            # as CPython does on a failing close: the descriptor is released, the error reported
            try:
                self._real.close()
            finally:
                lay._raise(op, self._path)
        return self._real.close()

    def tell(self):
        self._layer._hit("tell", self._path)
        return self._real.tell()

    def seek(self, *a):
        self._layer._hit("seek", self._path)
        return self._real.seek(*a)

    def truncate(self, *a):
        self._layer._hit("truncate", self._path)
        return self._real.truncate(*a)

    def read(self, *a):
        self._layer._hit("read", self._path)
        return self._real.read(*a)

    def readinto(self, b):
        self._layer._hit("read", self._path)
        return self._real.readinto(b)

    def readline(self, *a):
        self._layer._hit("read", self._path)
        return self._real.readline(*a)

    def readlines(self, *a):
        self._layer._hit("read", self._path)
        return self._real.readlines(*a)

    def fileno(self):
        self._layer._record("fileno", self._path)
        return self._real.fileno()

    # -- plumbing -------------------------------------------------------------------------
    def __enter__(self):
        return self

    def __exit__(self, *exc):
        self.close()
        return False

    def __iter__(self):
        return iter(self._real)

    def __getattr__(self, name):
        return getattr(self._real, name)

    def __del__(self):
        try:
            self._real.close()
        except Exception:
            pass


class FaultLayer:
    def __init__(self, root, fault_at=None, mode="raise", fsize_budget=None):
        self.root = os.path.realpath(root)
        self.fault_at = fault_at
        self.mode = mode
        self.fsize_budget = fsize_budget
        self.calls = []          # (op, relative path, extra) for calls under root, in order
        self.fault_index = []    # for each recorded call: its fault index or None (not faultable)
        self.n_faultable = 0
        self.outside = 0         # calls on paths outside root (passed through, not recorded)
        self.faulted = None      # (op, relpath) of the injected fault
        self.active = False
        self._busy = False
        self._saved = []

    # -- bookkeeping ----------------------------------------------------------------------
    def _inside(self, path):
        if self._busy:
            return None
        self._busy = True
        try:
            return self._inside0(path)
        finally:
            self._busy = False

    def _inside0(self, path):
        try:
            if isinstance(path, int):
                return None
            p = os.fspath(path)
            if isinstance(p, bytes):
                p = os.fsdecode(p)
            full = os.path.normpath(os.path.join(os.getcwd(), p))
            # resolve the directory part only (the leaf may not exist)
            d = os.path.realpath(os.path.dirname(full))
            full = os.path.join(d, os.path.basename(full))
        except Exception:
            return None
        if full == self.root or full.startswith(self.root + os.sep):
            return os.path.relpath(full, self.root)
        return None

    def _record(self, op, rel, extra=None):
        self.calls.append((op, rel, extra))
        if op in _NOFAULT:
            self.fault_index.append(None)
            return None
        self.fault_index.append(self.n_faultable)
        self.n_faultable += 1
        return self.n_faultable - 1

    def _should_fault(self, idx):
        return idx is not None and self.fault_at is not None and idx == self.fault_at

    def _raise(self, op, rel):
        self.faulted = (op, rel)
        code = errno.EIO if op in _READ_SIDE else errno.ENOSPC
        raise InjectedFault(code, f"injected fault at {op}", rel)

    def _hit(self, op, rel, extra=None):
        idx = self._record(op, rel, extra)
        if self._should_fault(idx):
            self._raise(op, rel)

    def faultable_ops(self):
        return [(c[0], c[1]) for c, fi in zip(self.calls, self.fault_index) if fi is not None]

    # -- replacements ---------------------------------------------------------------------
    def _open(self, file, mode="r", *a, **kw):
        rel = self._inside(file) if self.active else None
        if rel is None:
            if self.active:
                self.outside += 1
            return _REAL_OPEN(file, mode, *a, **kw)
        writing = any(c in mode for c in "wax+")
        self._hit("open-w" if writing else "open-r", rel, mode)
        real = _REAL_OPEN(file, mode, *a, **kw)
        return _FileProxy(self, real, rel, writing)

    def _wrap_path_fn(self, mod, name, op, npaths=1):
        real = getattr(mod, name)
        layer = self

        def repl(*a, **kw):
            if layer.active:
                rels = [layer._inside(x) for x in a[:npaths]]
                rels = [r for r in rels if r is not None]
                if rels:
                    layer._hit(op, rels[0])
                elif not layer._busy:
                    layer.outside += 1
            return real(*a, **kw)
        repl.__name__ = name
        self._saved.append((mod, name, real))
        setattr(mod, name, repl)

    def _wrap_os_open(self):
        real = os.open
        layer = self

        def repl(path, flags, *a, **kw):
            if layer.active:
                rel = layer._inside(path)
                if rel is not None:
                    w = flags & (os.O_WRONLY | os.O_RDWR | os.O_CREAT | os.O_TRUNC | os.O_APPEND)
                    layer._hit("os-open-w" if w else "os-open-r", rel)
                else:
                    layer.outside += 1
            return real(path, flags, *a, **kw)
        self._saved.append((os, "open", real))
        os.open = repl

    def _wrap_mmap(self):
        real = _mmap_mod.mmap
        layer = self

        def repl(fileno, length, *a, **kw):
            if layer.active:
                rel = None
                try:
                    rel = layer._inside(os.readlink(f"/proc/self/fd/{fileno}"))
                except OSError:
                    pass
                if rel is not None:
                    layer._hit("mmap", rel)
                else:
                    layer.outside += 1
            return real(fileno, length, *a, **kw)
        self._saved.append((_mmap_mod, "mmap", real))
        _mmap_mod.mmap = repl

    # -- context manager ------------------------------------------------------------------
    def __enter__(self):
        self._saved.append((builtins, "open", builtins.open))
        self._saved.append((io, "open", io.open))
        builtins.open = self._open
        io.open = self._open
        self._wrap_os_open()
        for name, op, n in (("replace", "replace", 2), ("rename", "rename", 2), ("remove", "remove", 1),
                            ("unlink", "remove", 1), ("makedirs", "makedirs", 1), ("mkdir", "mkdir", 1),
                            ("rmdir", "rmdir", 1), ("truncate", "truncate", 1), ("link", "link", 2),
                            ("symlink", "symlink", 2), ("stat", "stat", 1), ("lstat", "stat", 1)):
            self._wrap_path_fn(os, name, op, n)
        self._wrap_mmap()
        if self.fsize_budget is not None:
            signal.signal(signal.SIGXFSZ, signal.SIG_IGN)
            self._rl = resource.getrlimit(resource.RLIMIT_FSIZE)
            resource.setrlimit(resource.RLIMIT_FSIZE, (self.fsize_budget, self._rl[1]))
        self.active = True
        return self

    def __exit__(self, *exc):
        self.active = False
        if self.fsize_budget is not None:
            resource.setrlimit(resource.RLIMIT_FSIZE, self._rl)
        for mod, name, real in reversed(self._saved):
            setattr(mod, name, real)
        self._saved = []
        return False
