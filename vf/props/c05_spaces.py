"""C05 rule-space registry.  The spaces themselves live in c05_s1..c05_s4."""
from __future__ import annotations

import numpy as np

from vf.props.c05_mb import MB, arr, fill  # noqa: F401  (re-exported for the space modules)


class Skip(Exception):
    """The grid point does not denote a host model (ill-typed combination)."""


class Dim:
    def __init__(self, name, quick, thorough=None, cost=0):
        self.name = name
        self._q = list(quick)
        self._t = list(thorough) if thorough is not None else list(quick)
        self.cost = cost

    def values(self, tier):
        return self._q if tier == "quick" else self._t


class Space:
    def __init__(self, name, dims, build, near=None, prune=None, klass=None, max_dev=None, spec=None, accum=False):
        self.name = name
        self.accum = accum   # the rewrite re-associates a reduction: compare against the tensor's magnitude
        self.spec = spec     # (params, rule) -> callable(feed) -> [outputs] | None : numpy second opinion
        self.max_dev = max_dev or {}   # tier -> max number of non-default cost-1 dims (tighter than the global bound)
        self.klass = klass   # (non-default minimal params, minimal params, rule) -> class string | None
        self.component = None  # (rule, class string) -> component of the finding key (default: the rule id)
        self.tol = None        # (params, rule) -> factor on the comparison tolerance (original computes in a narrower type)
        self._dims = dims
        self.build = build
        self.near = near
        self.prune = prune

    def dims(self, tier, rule):
        d = self._dims
        return d(rule) if callable(d) else d


SPACES = {}     # space name -> Space
BY_RULE = {}    # exact rule id -> space name
BY_PREFIX = []  # (rule id prefix, space name)


def register(space, rule_ids=(), prefixes=()):
    SPACES[space.name] = space
    for r in rule_ids:
        BY_RULE[r] = space.name
    for p in prefixes:
        BY_PREFIX.append((p, space.name))
    return space


def lookup(rule):
    rid = rule["id"]
    if rid in BY_RULE:
        return SPACES[BY_RULE[rid]]
    for p, s in BY_PREFIX:
        if rid.startswith(p):
            return SPACES[s]
    return None


# ---------------------------------------------------------------------------------------------------
# host dimensions shared by the spaces (cost 1: enumerated within the deviation bound)
# ---------------------------------------------------------------------------------------------------

def d_ck(n_consts):
    """How the operands the rule needs constant are given; '@i' = only operand i deviates."""
    vals = ["init", "node"]
    for i in range(n_consts):
        vals += [f"init_input@{i}", f"input@{i}"]
    return Dim("ck", vals, cost=1)


def kinds(p, n):
    ck = p.get("ck", "init")
    if "@" in ck:
        k, i = ck.split("@")
        out = ["init"] * n
        out[int(i)] = k
        return out
    return [ck] * n


def is_nonconst(p):
    """True when some operand the rule wants constant is only a default / a runtime input."""
    return "@" in p.get("ck", "init")


def d_inter(n_inter):
    vals = ["none"]
    for i in range(n_inter):
        vals += [f"use@{i}", f"out@{i}"]
    return Dim("inter", vals, cost=1)


def expose(mb, p, inters):
    """Give intermediate i an extra consumer or make it a graph output, as p['inter'] says."""
    v = p.get("inter", "none")
    if v == "none":
        return
    k, i = v.split("@")
    name = inters[int(i)]
    if name is None:
        raise Skip("no such intermediate")
    if k == "use":
        mb.out(mb.node("Identity", [name]))
    else:
        mb.out(name)


D_DIMS = Dim("dims", ["static", "sym", "unnamed"], cost=1)
D_VI = Dim("vi", ["yes", "no"], cost=1)


def d_opset(*vals):
    return Dim("opset", list(vals), cost=1)


def shp(p, shape, sym_axes=(0,), names=("N", "M", "K")):
    """Replace the given axes by symbolic names (or None) according to p['dims']."""
    mode = p.get("dims", "static")
    if mode == "static":
        return list(shape)
    out = list(shape)
    for j, ax in enumerate(sym_axes):
        if ax < len(out):
            out[ax] = names[j] if mode == "sym" else None
    return out


def bind_like(mb, shape, sym_axes=(0,), names=("N", "M", "K"), variants=None):
    """Feeds bind the symbolic axes to the static sizes (feed 0) and to ``variants`` for later feeds."""
    base = {names[j]: shape[ax] for j, ax in enumerate(sym_axes) if ax < len(shape)}
    for ax in sym_axes:
        if ax < len(shape):
            base[f"?{ax}"] = shape[ax]
    bs = [base]
    for v in variants or []:
        b = dict(base)
        b.update(v)
        bs.append(b)
    mb.bindings = bs


def npd(dt):
    from vf.props.c05_mb import DT
    return DT[dt]


def is_float(dt):
    return dt in ("f32", "f64", "f16")


def _load():
    from vf.props import c05_s1, c05_s2, c05_s3, c05_s4, c05_s5  # noqa: F401


_load()
