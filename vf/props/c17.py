"""C17 - generated opset classes mirror the ONNX operator schemas exactly.

Exhaustive registry walk driven through the choice-tree explorer: opset x method x call-shape, every
dimension exhaustive (cost 0).  Each leaf calls the real generated method under a recording evaluator.
"""
from __future__ import annotations

import inspect
import itertools
import os

import onnx
import onnx.defs

from vf import explore

ID = "C17"
LEVEL = "model_checking"
RULE = ("exhaustive walk: every (domain, version) in onnx_opset.all_opsets x every public method x call shapes "
        "{attributes omitted, each attribute set to a sentinel, every subset of optional inputs passed as None, "
        "dynamic lookup}; plus converse leaves (every non-deprecated onnx.defs schema visible at N must have a "
        "method).  distinct_nontrivial = distinct (domain, version, op, call-shape) leaves that reached the oracle")
ASSUMPTIONS = ["onnx.defs (installed onnx 1.22) is the reference for schemas",
               "a recording Evaluator installed with evaluator.default_as observes what a method forwards"]

_ATTR_DEFAULT_SENTINEL = object()


def _opsets():
    from onnxscript import onnx_opset
    return onnx_opset.all_opsets


def _methods(opset):
    out = []
    for name, m in inspect.getmembers(type(opset), predicate=inspect.isfunction):
        if name.startswith("_") or not name[0].isupper():
            continue
        out.append(name)
    return sorted(out)


def _schema_at(name, version, domain):
    try:
        return onnx.defs.get_schema(name, version, domain)
    except Exception:
        return None


def _visible_schemas(domain, version):
    """Names of ops whose latest schema with since_version <= version exists in domain."""
    names = {}
    for s in onnx.defs.get_all_schemas_with_history():
        if s.domain != domain or s.since_version > version:
            continue
        cur = names.get(s.name)
        if cur is None or s.since_version > cur.since_version:
            names[s.name] = s
    return names


def _driver(ch):
    opsets = _opsets()
    keys = sorted(opsets.keys())
    dom, ver = ch.all("opset", keys)
    opset = opsets[(dom, ver)]
    kind = ch.all("kind", ["method", "converse", "membership"])
    if kind == "membership":
        # every op name the domain knows at ANY version, against this opset version
        names = sorted({s.name for s in onnx.defs.get_all_schemas_with_history() if s.domain == dom})
        chunk = 40
        return {"domain": dom, "version": ver, "op": "*", "shape": ["membership"],
                "names": ch.all("names", [names[i:i + chunk] for i in range(0, len(names), chunk)])}
    if kind == "converse":
        vis = _visible_schemas(dom, ver)
        name = ch.all("schema", sorted(vis))
        return {"domain": dom, "version": ver, "op": name, "shape": ["converse"]}
    name = ch.all("method", _methods(opset))
    sig = inspect.signature(getattr(type(opset), name))
    params = list(sig.parameters.values())[1:]
    attrs = [p.name for p in params if p.kind == p.KEYWORD_ONLY]
    pos = [p for p in params if p.kind in (p.POSITIONAL_OR_KEYWORD, p.POSITIONAL_ONLY)]
    schema = _schema_at(name, ver, dom)
    shapes = [["omit"], ["dynamic"]]
    shapes += [["attr", a] for a in attrs]
    # None patterns over optional inputs (by the *schema*, falling back to the signature's Optional)
    optional_idx = []
    if schema is not None:
        for i, inp in enumerate(schema.inputs):
            if inp.option == onnx.defs.OpSchema.FormalParameterOption.Optional and i < len(pos):
                optional_idx.append(i)
    optional_idx = optional_idx[:6]
    for r in range(1, len(optional_idx) + 1):
        for sub in itertools.combinations(optional_idx, r):
            shapes.append(["none", list(sub)])
    # actual VALUES of other kinds (a sequence value is a python list of tensors in eager mode; a list of numbers is a
    # 1-D tensor literal) and other variadic counts: every actual must arrive untouched at its own position
    # (seeded C17f expanded a list given as the only variadic actual)
    has_var = any(p.kind == p.VAR_POSITIONAL for p in params)
    kinds = ["listobj", "listnum", "emptylist", "tupleobj"]
    if has_var:
        for n in (0, 1, 3):
            shapes.append(["varcount", n, "obj"])
        for k in kinds:
            shapes.append(["varcount", 1, k])
            shapes.append(["varcount", 2, k])
    for j in range(min(len(pos), 3)):
        for k in kinds[:2]:
            shapes.append(["argkind", j, k])
    shape = ch.all("call", shapes)
    return {"domain": dom, "version": ver, "op": name, "shape": shape}


_NODE_DATA = os.path.join(os.path.dirname(onnx.__file__), "backend", "test", "data", "node")


def _behave_driver(ch):
    cases = sorted(os.listdir(_NODE_DATA)) if os.path.isdir(_NODE_DATA) else []
    chunk = 25
    chunks = [cases[i:i + chunk] for i in range(0, len(cases), chunk)]
    return {"shape": ["behave"], "cases": ch.all("node-test-chunk", chunks)}


def plan(tier, seed):
    st = explore.Stats()
    items = [case for _, case in explore.explore(_driver, bound=0, stats=st)]
    items += [case for _, case in explore.explore(_behave_driver, bound=0, stats=st)]
    d = st.as_dict()
    d["exhaustive"] = True
    d["dimensions"] = {k: len(v) for k, v in st.dim_hist.items()}
    return items, d


class _Rec:
    def __init__(self):
        self.calls = []

    def eval_op(self, op, args, kwargs):
        self.calls.append((op, tuple(args), dict(kwargs)))
        return ("result",)

    def eval_function(self, function, args, kwargs):
        raise AssertionError("unexpected function call")


def _py_default(attr):
    if attr.default_value is None or attr.default_value.type == onnx.AttributeProto.UNDEFINED:
        return _ATTR_DEFAULT_SENTINEL
    return onnx.helper.get_attribute_value(attr.default_value)


def _eq_default(py, sch):
    if isinstance(sch, bytes):
        sch = sch.decode()
    if isinstance(py, bytes):
        py = py.decode()
    if isinstance(sch, (list, tuple)) or isinstance(py, (list, tuple)):
        try:
            a, b = list(py), list(sch)
        except TypeError:
            return False
        a = [x.decode() if isinstance(x, bytes) else x for x in a]
        b = [x.decode() if isinstance(x, bytes) else x for x in b]
        return len(a) == len(b) and all(_eq_default(x, y) for x, y in zip(a, b))
    if isinstance(sch, float) or isinstance(py, float):
        try:
            import numpy as np
            # schema defaults are float32; generated literals are their shortest repr.  Compared by bit
            # pattern: -0.0 and 0.0 are different defaults (they compare == but compute different results)
            return np.float32(py).tobytes() == np.float32(sch).tobytes()
        except Exception:
            return False
    return type(py) is type(sch) and py == sch


def _behave_one(case):
    """Eager call opsetN.Op(*inputs, **attrs-as-written) vs the bare node run directly on ORT."""
    import glob
    import numpy as np
    from onnx import numpy_helper
    from vf import runeq
    d = os.path.join(_NODE_DATA, case)
    m = onnx.load(os.path.join(d, "model.onnx"))
    if len(m.graph.node) != 1:
        return "skip:multi-node", None
    n = m.graph.node[0]
    dom = n.domain or ""
    ver = {o.domain: o.version for o in m.opset_import}.get(dom)
    opset = _opsets().get((dom, ver))
    if opset is None or not hasattr(type(opset), n.op_type):
        return "skip:no-opset-class", None
    if any(a.type in (onnx.AttributeProto.GRAPH, onnx.AttributeProto.GRAPHS) or a.ref_attr_name for a in n.attribute):
        return "skip:graph-attr", None
    feeds = {}
    ins = glob.glob(os.path.join(d, "test_data_set_0", "input_*.pb"))
    for i in range(len(ins)):
        t = onnx.TensorProto()
        with open(os.path.join(d, "test_data_set_0", f"input_{i}.pb"), "rb") as f:
            raw = f.read()
        try:
            t.ParseFromString(raw)
            if i >= len(m.graph.input) or not m.graph.input[i].type.HasField("tensor_type"):
                return "skip:non-tensor-input", None
            feeds[m.graph.input[i].name] = numpy_helper.to_array(t)
        except Exception:
            return "skip:non-tensor-input", None
    if any(not o.type.HasField("tensor_type") for o in m.graph.output):
        return "skip:non-tensor-output", None
    if any(v.dtype.kind in "OUS" or v.dtype.name not in np.sctypeDict for v in feeds.values()):
        return "skip:exotic-dtype", None
    try:
        want = runeq.run_ort(m, feeds)
    except runeq.RunError as e:
        return "skip:ort-" + e.kind, None
    args = [None if nm == "" else feeds.get(nm) for nm in n.input]
    if any(a is None and nm != "" for a, nm in zip(args, n.input)):
        return "skip:input-not-fed", None
    kwargs = {}
    for a in n.attribute:
        v = onnx.helper.get_attribute_value(a)
        if isinstance(v, bytes):
            v = v.decode()
        elif isinstance(v, list) and v and isinstance(v[0], bytes):
            v = [x.decode() for x in v]
        kwargs[a.name] = v
    meth = getattr(opset, n.op_type)
    params = list(inspect.signature(meth).parameters.values())
    npos = sum(1 for p in params if p.kind == p.POSITIONAL_OR_KEYWORD)
    has_var = any(p.kind == p.VAR_POSITIONAL for p in params)
    if not has_var and len(args) > npos:
        return "skip:more-inputs-than-params", None
    try:
        got = meth(*args, **kwargs)
    except Exception as e:  # noqa: BLE001
        if type(e).__name__ == "EagerModeError" and "number of expected outputs" in str(e):
            # eager mode cannot know how many outputs the caller wants: a refusal, not a wrong result
            return "skip:eager-refuses-unknown-output-count", None
        return "eager-raises", f"{type(e).__name__}: {str(e)[:300]}"
    if not isinstance(got, (tuple, list)):
        got = [got]
    got = [None if g is None else np.asarray(getattr(g, "value", g)) for g in got]
    # the eager call returns every schema output; the node declares a prefix (possibly with "" holes):
    # compare position-wise where the node has a named output
    by_name = {o.name: w for o, w in zip(m.graph.output, want)}
    want_used, got_used = [], []
    for i, o in enumerate(n.output):
        if o == "" or o not in by_name:
            continue
        if i >= len(got):
            return "differs", f"eager call returned {len(got)} outputs, node output #{i} missing"
        want_used.append(by_name[o])
        got_used.append(got[i])
    diff = runeq.compare(got_used, want_used)
    if diff:
        return "differs", diff
    return "agree", None


def execute(item):
    if item["shape"][0] == "behave":
        viols, counts, nk = [], {}, []
        for case in item["cases"]:
            try:
                kind, detail = _behave_one(case)
            except Exception as e:  # noqa: BLE001
                kind, detail = "skip:harness-" + type(e).__name__, None
            counts["behave:" + kind] = counts.get("behave:" + kind, 0) + 1
            if kind in ("agree", "differs", "eager-raises"):
                nk.append("behave|" + case)
            if kind in ("differs", "eager-raises"):
                viols.append({"key": f"C17|eager-vs-node|{kind}|{case}", "detail": {"what": detail}})
        counts["extra_evaluations"] = len(item["cases"]) - 1
        return {"status": "viol" if viols else "ok", "outcome": "behave", "viols": viols, "nkey": nk, "counts": counts}
    from onnxscript import values
    from onnxscript._internal import evaluator
    dom, ver, name, shape = item["domain"], item["version"], item["op"], item["shape"]
    opset = _opsets()[(dom, ver)]
    viols = []
    base = f"{dom or 'ai.onnx'}:{name}"

    def bad(kind, detail, scope=None):
        viols.append({"key": f"C17|{kind}|{scope or base}", "detail": {"version": ver, "what": detail}})

    if shape[0] == "membership":
        # dynamic lookup agrees with onnx.defs for names that exist in the domain only at other versions too
        generic = values.Opset(dom, ver)
        nk = []
        for nm in item["names"]:
            want = _schema_at(nm, ver, dom)
            for tag, o in (("static", opset), ("generic", generic)):
                got_in = nm in o
                got_item = o[nm]
                try:
                    got_attr = getattr(o, nm) if tag == "generic" else None
                except AttributeError:
                    got_attr = None
                if got_in != (want is not None):
                    bad("dynamic-lookup", f"{tag}: '{nm}' in opset -> {got_in}, onnx.defs at {ver}: {want is not None}",
                        scope=f"{dom or 'ai.onnx'}:__contains__")
                if (got_item is not None) != (want is not None) or (
                        got_item is not None and got_item.op_schema.since_version != want.since_version):
                    bad("dynamic-lookup", f"{tag}: opset['{nm}'] -> {got_item}, onnx.defs at {ver}: {want is not None}",
                        scope=f"{dom or 'ai.onnx'}:__getitem__")
                if tag == "generic" and ((got_attr is not None) != (want is not None) or (
                        got_attr is not None and got_attr.op_schema.since_version != want.since_version)):
                    bad("dynamic-lookup", f"generic getattr '{nm}' -> {got_attr}", scope=f"{dom or 'ai.onnx'}:__getattr__")
            nk.append(f"{dom}|{ver}|{nm}|membership")
        return {"status": "viol" if viols else "ok", "outcome": "membership", "viols": viols, "nkey": nk,
                "counts": {"extra_evaluations": len(item["names"]) - 1}}
    expected = _schema_at(name, ver, dom)
    if shape[0] == "converse":
        s = _visible_schemas(dom, ver)[name]
        if s.deprecated:
            return {"status": "ok", "outcome": "converse-deprecated-skip", "nkey": f"{dom}|{ver}|{name}|conv", "nontrivial": False}
        if not hasattr(type(opset), name):
            bad("missing-method", f"schema {name} since {s.since_version} visible at {ver} has no method")
        else:
            # static attribute and dynamic attribute agree
            pass
        return {"status": "viol" if viols else "ok", "outcome": "converse", "viols": viols,
                "nkey": f"{dom}|{ver}|{name}|conv"}

    meth = getattr(opset, name)
    sig = inspect.signature(meth)
    params = list(sig.parameters.values())
    pos = [p for p in params if p.kind in (p.POSITIONAL_OR_KEYWORD, p.POSITIONAL_ONLY)]
    var = [p for p in params if p.kind == p.VAR_POSITIONAL]
    kws = [p for p in params if p.kind == p.KEYWORD_ONLY]
    nkey = f"{dom}|{ver}|{name}|{shape}"

    if expected is None:
        bad("no-schema-at-version", f"onnx.defs has no schema for {name} at {ver}")
        return {"status": "viol", "outcome": "noschema", "viols": viols, "nkey": nkey}
    if expected.deprecated:
        bad("deprecated-inherited", f"{name} is deprecated since {expected.since_version}; method still resolves at {ver}")
        return {"status": "viol", "outcome": "deprecated", "viols": viols, "nkey": nkey}

    # build the call
    sent_in = [("in", i) for i in range(len(pos))]
    var_args = [("var", 0), ("var", 1)] if var else []
    kwargs = {}
    if shape[0] == "attr":
        kwargs[shape[1]] = ("attr", shape[1])
    def _val(kind, tag):
        class _T:      # stands for a tensor: not a python number / list
            def __repr__(self):
                return f"T{tag}"
        return {"obj": ("var", tag), "listobj": [_T(), _T()], "listnum": [1.0, 2.0], "emptylist": [],
                "tupleobj": (_T(), _T())}[kind]
    if shape[0] == "varcount":
        var_args = [("var", k) for k in range(shape[1])]
        if shape[1] and shape[2] != "obj":
            var_args[-1] = _val(shape[2], shape[1])
    if shape[0] == "argkind":
        sent_in[shape[1]] = _val(shape[2], shape[1])
    if shape[0] == "none":
        for i in shape[1]:
            sent_in[i] = None
        if var:
            var_args = []
    # required attributes must be supplied
    sch_attrs = dict(expected.attributes)
    for p in kws:
        if p.default is inspect.Parameter.empty and p.name not in kwargs:
            kwargs[p.name] = ("attr", p.name)

    rec = _Rec()
    if shape[0] == "dynamic":
        # dynamic lookup must denote the same schema as the static method
        with evaluator.default_as(rec):
            meth(*sent_in, *var_args, **kwargs)
        static_schema = rec.calls[0][0].op_schema
        d1 = opset[name]
        generic = values.Opset(dom, ver)
        d2 = getattr(generic, name, None)
        d3 = generic[name]
        for tag, d in (("getitem", d1), ("generic-getattr", d2), ("generic-getitem", d3)):
            if d is None or d.op_schema is None:
                bad("dynamic-lookup", f"{tag} finds no schema")
            elif (d.op_schema.name, d.op_schema.domain, d.op_schema.since_version) != (
                    static_schema.name, static_schema.domain, static_schema.since_version):
                bad("dynamic-lookup", f"{tag}: {d.op_schema.since_version} vs static {static_schema.since_version}")
        if name not in opset or name not in generic:
            bad("dynamic-lookup", "__contains__ is False for an existing method")
        if ("NoSuchOp_" + name) in opset or opset["NoSuchOp_" + name] is not None:
            bad("dynamic-lookup", "__contains__/__getitem__ accept a non-existing op")
        return {"status": "viol" if viols else "ok", "outcome": "dynamic", "viols": viols, "nkey": nkey}

    with evaluator.default_as(rec):
        try:
            ret = meth(*sent_in, *var_args, **kwargs)
        except Exception as e:  # a generated method must not raise under a recording evaluator
            bad("method-raises", f"{type(e).__name__}: {e}")
            return {"status": "viol", "outcome": "raises", "viols": viols, "nkey": nkey}
    if len(rec.calls) != 1:
        bad("forwarding", f"{len(rec.calls)} evaluator calls")
        return {"status": "viol", "outcome": "calls", "viols": viols, "nkey": nkey}
    op, args, kw = rec.calls[0]
    s = op.op_schema
    if s is None or (s.name, s.domain, s.since_version) != (expected.name, expected.domain, expected.since_version):
        bad("wrong-schema", f"method uses {None if s is None else (s.name, s.domain, s.since_version)}, "
            f"onnx.defs says {(expected.name, expected.domain, expected.since_version)}")
    if op.name != name or op.opset.domain != dom or op.opset.version != ver:
        bad("wrong-op-identity", f"Op({op.opset.domain},{op.opset.version},{op.name})")

    if shape[0] == "omit":
        # signature: inputs in order then attributes
        names_in = [i.name for i in expected.inputs]
        variadic_last = bool(expected.inputs) and expected.inputs[-1].option == onnx.defs.OpSchema.FormalParameterOption.Variadic
        got_in = [p.name for p in pos] + [p.name for p in var]
        # an input whose name collides with an attribute of the same schema (Split-1: input and attribute
        # `split`) or with a Python keyword cannot keep its name; the generator appends "_"
        import keyword
        names_in = [n + "_" if (n in sch_attrs or keyword.iskeyword(n)) else n for n in names_in]
        if got_in != names_in:
            bad("signature-inputs", f"parameters {got_in} vs schema inputs {names_in}")
        if variadic_last != bool(var):
            bad("signature-inputs", f"variadic mismatch: schema {variadic_last}, method {bool(var)}")
        if sorted(p.name for p in kws) != sorted(sch_attrs):
            bad("signature-attrs", f"keyword parameters {sorted(p.name for p in kws)} vs schema attributes {sorted(sch_attrs)}")
        for p in kws:
            a = sch_attrs.get(p.name)
            if a is None:
                continue
            sd = _py_default(a)
            if a.required:
                if p.default is not inspect.Parameter.empty:
                    bad("attr-default", f"required attribute {p.name} has a python default {p.default!r}")
            elif sd is _ATTR_DEFAULT_SENTINEL:
                if p.default is not None:
                    bad("attr-default", f"{p.name}: schema has no default, python default {p.default!r}")
            else:
                if p.default is None or p.default is inspect.Parameter.empty or not _eq_default(p.default, sd):
                    bad("attr-default", f"{p.name}: python default {p.default!r} vs schema default {sd!r}")
        # forwarded: each input in its position, each attribute under its name with its default
        want_args = tuple(sent_in) + tuple(var_args)
        if args != want_args:
            bad("forwarding", f"inputs forwarded as {args}, expected {want_args}")
        for p in kws:
            want = kwargs.get(p.name, p.default)
            if p.name not in kw:
                if want is not None:
                    bad("forwarding", f"attribute {p.name} not forwarded")
            elif kw[p.name] is not want and kw[p.name] != want:
                bad("forwarding", f"attribute {p.name} forwarded as {kw[p.name]!r}")
        extra = set(kw) - {p.name for p in kws}
        if extra:
            bad("forwarding", f"unknown keyword forwarded: {sorted(extra)}")
    elif shape[0] == "attr":
        a = shape[1]
        if kw.get(a) != ("attr", a):
            bad("forwarding", f"attribute {a} forwarded as {kw.get(a)!r}")
        for k, v in kw.items():
            if k != a and isinstance(v, tuple) and v[:1] == ("attr",) and v[1] != k:
                bad("forwarding", f"attribute {v[1]} arrived under name {k}")
        if args != tuple(sent_in) + tuple(var_args):
            bad("forwarding", f"inputs forwarded as {args}")
    elif shape[0] in ("varcount", "argkind"):
        want = list(sent_in) + list(var_args)
        if len(args) != len(want) or any(a is not w and a != w for a, w in zip(args, want)):
            bad("forwarding-values", f"actuals {want!r} forwarded as {list(args)!r}")
    elif shape[0] == "none":
        want = list(sent_in) + list(var_args)
        while want and want[-1] is None:
            want.pop()
        if list(args) != want:
            bad("none-trimming", f"inputs {sent_in} forwarded as {args}, expected {want}")
    counts = {}
    if shape[0] in ("none", "omit"):
        # the same call shape through the REAL eager evaluators up to the point where the one-node model and the feeds
        # are handed to the runtime (captured there): every supplied input must sit at its own formal position, every
        # omitted one must be "" (or trimmed when trailing)
        for ev_name in ("ort", "reference"):
            kind, detail = _eager_model_check(meth, expected, [x is not None for x in sent_in], len(var_args), kws, ev_name)
            counts[f"eager-model:{ev_name}:{kind.split(':')[0]}"] = 1
            if kind == "viol":
                bad("eager-node-inputs", f"{ev_name} evaluator, omitted={shape[1] if shape[0] == 'none' else []}: {detail}")
    return {"status": "viol" if viols else "ok", "outcome": shape[0], "viols": viols, "nkey": nkey, "counts": counts}


class _Captured(RuntimeError):
    pass


_DUMMY_ATTR = {onnx.AttributeProto.INT: 1, onnx.AttributeProto.FLOAT: 1.0, onnx.AttributeProto.STRING: "a",
               onnx.AttributeProto.INTS: [1], onnx.AttributeProto.FLOATS: [1.0], onnx.AttributeProto.STRINGS: ["a"]}


def _eager_model_check(meth, schema, given, nvar, kws, ev_name):
    """-> ("ok"|"refused:<why>"|"viol", detail)"""
    import numpy as np
    import onnxruntime as ort
    import onnx.reference
    from onnxscript._internal import evaluator
    args = [np.full((1,), float(i + 1), dtype=np.float32) if g else None for i, g in enumerate(given)]
    args += [np.full((1,), float(101 + j), dtype=np.float32) for j in range(nvar)]
    kwargs = {}
    for p in kws:
        if p.default is inspect.Parameter.empty:
            t = schema.attributes[p.name].type
            if t not in _DUMMY_ATTR:
                return "refused:attr-type", None
            kwargs[p.name] = _DUMMY_ATTR[t]
    cap = {}

    class FakeSession:
        def __init__(self, model, *a, **k):
            cap["model"] = model

        def run(self, outs, feeds, *a, **k):
            cap["feeds"] = dict(feeds)
            raise _Captured("captured")

    ev = evaluator.ort_evaluator if ev_name == "ort" else evaluator.OnnxReferenceRuntimeEvaluator()
    old_s, old_r = ort.InferenceSession, onnx.reference.ReferenceEvaluator
    ort.InferenceSession = FakeSession
    onnx.reference.ReferenceEvaluator = FakeSession
    try:
        with evaluator.default_as(ev):
            try:
                meth(*args, **kwargs)
            except Exception as e:  # noqa: BLE001
                if "feeds" not in cap:
                    return f"refused:{type(e).__name__}", None
    finally:
        ort.InferenceSession, onnx.reference.ReferenceEvaluator = old_s, old_r
    if "feeds" not in cap:
        return "refused:no-run", None
    m = cap["model"]
    if isinstance(m, (bytes, bytearray)):
        m = onnx.ModelProto.FromString(bytes(m))
    if len(m.graph.node) != 1:
        return "viol", f"{len(m.graph.node)} nodes in the eager model"
    ins = list(m.graph.node[0].input)
    feeds = cap["feeds"]
    used = set()
    for i, a in enumerate(args):
        nm = ins[i] if i < len(ins) else ""
        if a is None:
            if nm != "":
                return "viol", f"omitted input {i} is wired to '{nm}' (node inputs {ins})"
            continue
        if nm == "":
            return "viol", f"supplied input {i} is missing from the node (node inputs {ins})"
        if nm in used:
            return "viol", f"input name '{nm}' used for two positions (node inputs {ins})"
        used.add(nm)
        got = feeds.get(nm)
        got = None if got is None else np.asarray(getattr(got, "value", got))
        if got is None or got.shape != a.shape or float(got.ravel()[0]) != float(a.ravel()[0]):
            return "viol", f"formal position {i} is fed {None if got is None else got.tolist()} instead of {a.tolist()} (node inputs {ins})"
    if any(x != "" for x in ins[len(args):]):
        return "viol", f"extra node inputs {ins[len(args):]}"
    return "ok", None
