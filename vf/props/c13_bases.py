"""C13 base models.

(i)  hand-written @script functions (the documented round trip starts from to_model_proto()/to_function_proto()),
(ii) models built with onnx.helper only: tensor types, If/Loop (no scan outputs), initializers, Constant nodes,
(iii) models outside the class (sequence types, Scan, sparse initializer, Loop scan output): refusal expected.

Every base has a fixed pool of >= 3 input valuations chosen to take both If branches and 0/1/several loop trips.
"""


import numpy as np
from onnx import TensorProto as TP
from onnx import helper as oh
from onnx import numpy_helper as nh

from onnxscript import BOOL, FLOAT, INT64, script
from onnxscript import opset18 as op

F = np.float32
I = np.int64


def f32(*v):
    return np.array(v, dtype=F)


def i64(*v):
    return np.array(v, dtype=I)


# =========================================================================================================
# (i) script functions
# =========================================================================================================
@script(default_opset=op)
def s_straight(X: FLOAT[3], B: FLOAT[3]) -> FLOAT[3]:
    t = op.Mul(X, 2.0)
    u = op.Add(t, B)
    return op.Relu(u)


@script(default_opset=op)
def s_multi_out(X: FLOAT[6]) -> (FLOAT[2], INT64[2], FLOAT[3]):
    k = op.Constant(value_ints=[2])
    vals, idx = op.TopK(X, k)
    lo, hi = op.Split(X, num_outputs=2)
    return vals, idx, op.Sub(hi, lo)


@script(default_opset=op)
def s_ifelse(X: FLOAT[3], c: BOOL) -> FLOAT[3]:
    if c:
        Y = op.Add(X, X)
    else:
        Y = op.Mul(X, 3.0)
    return Y


@script(default_opset=op)
def s_if_two(X: FLOAT[3], B: FLOAT[3]) -> (FLOAT[3], FLOAT[3]):
    s = op.ReduceSum(X, keepdims=0)
    c = op.Greater(s, 0.0)
    if c:
        P = op.Add(X, B)
        Q = op.Neg(B)
    else:
        P = op.Sub(X, B)
        Q = op.Abs(X)
    return P, Q


@script(default_opset=op)
def s_for(X: FLOAT[3], N: INT64) -> FLOAT[3]:
    Sum = op.Identity(X)
    for i in range(N):
        Sum = op.Add(Sum, X)
    return Sum


@script(default_opset=op)
def s_for_fib(A: FLOAT[2], B: FLOAT[2], N: INT64) -> (FLOAT[2], FLOAT[2]):
    a = op.Identity(A)
    b = op.Identity(B)
    for i in range(N):
        t = op.Add(a, b)
        a = op.Identity(b)
        b = op.Identity(t)
    return a, b


@script(default_opset=op)
def s_for_swap(A: FLOAT[2], B: FLOAT[2], N: INT64) -> (FLOAT[2], FLOAT[2]):
    a = op.Identity(A)
    b = op.Identity(B)
    for i in range(N):
        t = a
        a = b
        b = t
    return a, b


@script(default_opset=op)
def s_for_iter(X: FLOAT[3], N: INT64) -> FLOAT[3]:
    acc = op.Identity(X)
    for i in range(N):
        fi = op.Cast(i, to=1)
        acc = op.Add(op.Mul(acc, 2.0), fi)
    return acc


@script(default_opset=op)
def s_while(X: FLOAT[3]) -> FLOAT[3]:
    s = op.Identity(X)
    cond = op.ReduceSum(s, keepdims=0) < 100.0
    while cond:
        s = op.Add(s, s) + 1.0
        cond = op.ReduceSum(s, keepdims=0) < 100.0
    return s


@script(default_opset=op)
def s_for_break(X: FLOAT[3], N: INT64) -> FLOAT[3]:
    s = op.Identity(X)
    for i in range(N):
        s = op.Add(s, s)
        cond = op.ReduceSum(s, keepdims=0) > 50.0
        if cond:
            break
    return s


@script(default_opset=op)
def s_if_in_loop(X: FLOAT[3], N: INT64) -> FLOAT[3]:
    acc = op.Identity(X)
    for i in range(N):
        pos = op.ReduceSum(acc, keepdims=0) > 0.0
        if pos:
            acc = op.Sub(acc, 2.0)
        else:
            acc = op.Add(acc, 5.0)
    return acc


# the PREVIOUS value of a loop-carried variable is read inside a nested If branch / inner Loop body AFTER the node that
# computes its next value (the old value stays live through an outer-scope reference only; seeded C13h let the generated
# Python overwrite the variable too early)
@script(default_opset=op)
def s_while_prev_in_if(X: FLOAT[3], L: FLOAT) -> FLOAT[3]:
    cur = op.Identity(X)
    best = op.Identity(X)
    go = op.ReduceSum(cur, keepdims=0) <= L
    while go:
        prev = cur
        cur = op.Mul(cur, 2.0)
        total = op.ReduceSum(cur, keepdims=0)
        if total > L:
            best = op.Identity(prev)
        else:
            best = op.Identity(cur)
        go = total <= L
    return best


@script(default_opset=op)
def s_for_prev_in_if(X: FLOAT[3], N: INT64) -> FLOAT[3]:
    cur = op.Identity(X)
    best = op.Identity(X)
    for i in range(N):
        prev = cur
        cur = op.Add(cur, 1.5)
        big = op.ReduceSum(cur, keepdims=0) > 6.0
        if big:
            best = op.Sub(prev, 100.0)
        else:
            best = op.Mul(best, 1.0)
    return best + cur


@script(default_opset=op)
def s_for_prev_in_inner_loop(X: FLOAT[3], N: INT64) -> FLOAT[3]:
    cur = op.Identity(X)
    acc = op.Identity(X)
    for i in range(N):
        prev = cur
        cur = op.Mul(cur, 3.0)
        for j in range(2):
            acc = op.Add(acc, prev)
    return acc + cur


@script(default_opset=op)
def s_loop_in_if(X: FLOAT[3], N: INT64, c: BOOL) -> FLOAT[3]:
    if c:
        r = op.Identity(X)
        for i in range(N):
            r = op.Mul(r, 2.0)
    else:
        r = op.Neg(X)
    return r


@script(default_opset=op)
def s_nested_for(X: FLOAT[3], N: INT64) -> FLOAT[3]:
    acc = op.Identity(X)
    for i in range(N):
        for j in range(N):
            acc = op.Add(acc, X)
        acc = op.Mul(acc, 0.5)
    return acc


@script(default_opset=op)
def s_operators(X: FLOAT[2, 2], Y: FLOAT[2, 2]) -> (FLOAT[2, 2], BOOL[2, 2], FLOAT[2, 2]):
    a = X * Y + X
    b = a - Y / 2.0
    c = (X @ Y) ** 2.0
    m = (a > b) & (a >= c) | (b == c)
    return b, m, c


@script(default_opset=op)
def s_attrs(X: FLOAT[2, 3]) -> (FLOAT[3, 2], FLOAT[2, 5], FLOAT[2, 3]):
    t = op.Transpose(X, perm=[1, 0])
    pads = op.Constant(value_ints=[0, 1, 0, 1])
    p = op.Pad(X, pads, mode="edge")
    e = op.Elu(X, alpha=0.5)
    return t, p, e


@script(default_opset=op)
def s_optional(X: FLOAT[4], hi: FLOAT) -> (FLOAT[4], FLOAT[4]):
    a = op.Clip(X, None, hi)
    b = op.Clip(X, hi)
    return a, b


@script(default_opset=op)
def s_consts(X: FLOAT[2, 3]) -> (FLOAT[6], INT64[2], FLOAT[2, 3]):
    shape = op.Constant(value_ints=[-1])
    r = op.Reshape(X, shape)
    sh = op.Shape(X)
    w = op.Constant(value_floats=[1.0, -2.0, 0.5])
    y = op.Mul(X, w)
    z = op.Add(y, op.Constant(value_float=-1.5))
    return r, sh, z


# --- functions with attribute parameters, and callers ---
@script(default_opset=op)
def s_fn_attr(X, alpha: float):
    return op.Elu(X, alpha=alpha)


@script(default_opset=op)
def s_fn_attr_promote(X, scale: float, k: int):
    y = op.Mul(X, scale)
    return op.Add(y, op.Cast(k, to=1))


# an attribute parameter promoted to a tensor operand (the converter emits a Constant named like the attribute, the
# exporter must pick a fresh Python name for it) next to values that live only inside an If branch / a Loop body:
# a seeded defect chose the fresh name without looking at names bound inside subgraphs (C13e)
@script(default_opset=op)
def s_fn_attr_promote_if(X, c, alpha: float):
    y = op.Mul(X, alpha)
    if c:
        t = op.Add(y, 1.0)
        z = op.Mul(t, t)
    else:
        z = op.Neg(y)
    return z


@script(default_opset=op)
def s_fn_attr_promote_if2(X, c, alpha: float):
    if c:
        t = op.Add(X, 1.0)
        z = op.Mul(t, alpha)
    else:
        z = op.Neg(X)
    return z


@script(default_opset=op)
def s_fn_attr_promote_loop(X, N, alpha: float):
    acc = op.Identity(X)
    for i in range(N):
        t = op.Add(acc, 1.0)
        acc = op.Mul(t, alpha)
    return acc


@script(default_opset=op)
def s_fn_attr_default(X, alpha: float = 0.25):
    return op.LeakyRelu(X, alpha=alpha)


@script(default_opset=op)
def s_fn_attr_ints(X, perm: list[int]):
    return op.Transpose(X, perm=perm)


@script(default_opset=op)
def s_fn_plain(X, Y):
    d = op.Sub(X, Y)
    return op.Mul(d, d)


@script(default_opset=op)
def s_call_plain(X: FLOAT[3], Y: FLOAT[3]) -> FLOAT[3]:
    q = s_fn_plain(X, Y)
    return op.Add(q, X)


@script(default_opset=op)
def s_call_attr(X: FLOAT[3]) -> FLOAT[3]:
    a = s_fn_attr(X, alpha=2.0)
    b = s_fn_attr_promote(a, scale=0.5, k=3)
    return b


@script(default_opset=op)
def s_call_default(X: FLOAT[3]) -> (FLOAT[3], FLOAT[3]):
    a = s_fn_attr_default(X)
    b = s_fn_attr_default(X, alpha=0.75)
    return a, b


_X3 = [f32(1, -2, 3), f32(0, 0, 0), f32(-1.5, 40.0, 0.25)]
_N = [i64(3), i64(0), i64(1)]


def _t(elem, shape):
    return oh.make_tensor_type_proto(elem, shape)


# name -> dict(fn, feeds (by original input name), fun=dict(in_types,out_types,attrs,deps)|None, model=bool)
SCRIPTS = {}


def _reg(fn, feeds, *, model=True, fun=True, attrs=None, in_types=None, out_types=None, deps=(), tags=()):
    SCRIPTS[fn.name] = dict(fn=fn, feeds=feeds, model=model, fun=fun, attrs=attrs or {}, in_types=in_types,
                            out_types=out_types, deps=deps, tags=tuple(tags))


_reg(s_straight, [dict(X=x, B=b) for x, b in zip(_X3, [f32(1, 1, 1), f32(-1, 2, 0), f32(0.5, -100, 3)])])
_reg(s_multi_out, [dict(X=f32(1, 5, 2, 9, -1, 3)), dict(X=f32(0, 0, 0, 0, 0, 1)), dict(X=f32(-1, -2, -3, -4, -5, -6))])
_reg(s_ifelse, [dict(X=_X3[0], c=np.array(True)), dict(X=_X3[0], c=np.array(False)), dict(X=_X3[2], c=np.array(True))],
     tags=("if",))
_reg(s_if_two, [dict(X=_X3[0], B=f32(1, 1, 1)), dict(X=f32(-1, -2, -3), B=f32(1, 2, 3)), dict(X=_X3[1], B=f32(5, 6, 7))],
     tags=("if",))
_reg(s_for, [dict(X=x, N=n) for x, n in zip(_X3, _N)], tags=("for",))
_reg(s_for_fib, [dict(A=f32(1, 0), B=f32(1, 2), N=n) for n in (i64(4), i64(0), i64(1))], tags=("for",))
_reg(s_for_swap, [dict(A=f32(1, 0), B=f32(5, 2), N=n) for n in (i64(3), i64(0), i64(1), i64(2))], tags=("for", "swap"))
_reg(s_for_iter, [dict(X=x, N=n) for x, n in zip(_X3, _N)], tags=("for",))
_reg(s_while, [dict(X=f32(1, 2, 3)), dict(X=f32(100, 100, 100)), dict(X=f32(0, 0, 0.5))], tags=("while",))
_reg(s_for_break, [dict(X=f32(1, 2, 3), N=i64(10)), dict(X=f32(1, 2, 3), N=i64(2)), dict(X=f32(1, 2, 3), N=i64(0)),
                   dict(X=f32(0, 0, 0), N=i64(4))], tags=("for", "break"))
_reg(s_if_in_loop, [dict(X=x, N=n) for x, n in zip(_X3, (i64(4), i64(3), i64(0)))], tags=("for", "if"))
_reg(s_while_prev_in_if, [dict(X=f32(1, 2, 3), L=np.array(100.0, F)), dict(X=f32(0.5, 0.25, 0.25), L=np.array(7.0, F)),
                          dict(X=f32(4, 0, 0), L=np.array(1.0, F))], tags=("while", "if"))
_reg(s_for_prev_in_if, [dict(X=x, N=n) for x, n in zip(_X3, (i64(4), i64(3), i64(0)))], tags=("for", "if"))
_reg(s_for_prev_in_inner_loop, [dict(X=x, N=n) for x, n in zip(_X3, (i64(2), i64(0), i64(3)))], tags=("for",))
_reg(s_loop_in_if, [dict(X=_X3[0], N=i64(3), c=np.array(True)), dict(X=_X3[0], N=i64(3), c=np.array(False)),
                    dict(X=_X3[2], N=i64(0), c=np.array(True))], tags=("for", "if"))
_reg(s_nested_for, [dict(X=x, N=n) for x, n in zip(_X3, (i64(2), i64(0), i64(3)))], tags=("for",))
_M22 = [np.array([[1, 2], [3, 4]], F), np.array([[0, -1], [2, 0.5]], F), np.array([[2, 2], [2, 2]], F)]
_reg(s_operators, [dict(X=_M22[0], Y=_M22[1]), dict(X=_M22[1], Y=_M22[2]), dict(X=_M22[2], Y=_M22[0])], tags=("ops",))
_M23 = [np.arange(6, dtype=F).reshape(2, 3), -np.ones((2, 3), F), np.array([[0.5, -0.5, 2], [-3, 0, 9]], F)]
_reg(s_attrs, [dict(X=m) for m in _M23])
_reg(s_optional, [dict(X=f32(1, 5, -2, 9), hi=np.array(3.0, F)), dict(X=f32(1, 5, -2, 9), hi=np.array(-3.0, F)),
                  dict(X=f32(0, 0, 0, 0), hi=np.array(0.0, F))])
_reg(s_consts, [dict(X=m) for m in _M23], tags=("const",))

_FT3 = _t(TP.FLOAT, [3])
_reg(s_fn_attr, [dict(X=x) for x in _X3], model=False, attrs=dict(alpha=2.0), in_types=[_FT3], out_types=[_FT3],
     tags=("attr",))
_reg(s_fn_attr_promote, [dict(X=x) for x in _X3], model=False, attrs=dict(scale=0.5, k=3), in_types=[_FT3],
     out_types=[_FT3], tags=("attr",))
_BT = _t(TP.BOOL, [])
_reg(s_fn_attr_promote_if, [dict(X=_X3[0], c=np.array(True)), dict(X=_X3[2], c=np.array(False)), dict(X=_X3[2], c=np.array(True))],
     model=False, attrs=dict(alpha=2.0), in_types=[_FT3, _BT], out_types=[_FT3], tags=("attr", "if", "allnames"))
_reg(s_fn_attr_promote_if2, [dict(X=_X3[0], c=np.array(True)), dict(X=_X3[2], c=np.array(False)), dict(X=_X3[2], c=np.array(True))],
     model=False, attrs=dict(alpha=2.0), in_types=[_FT3, _BT], out_types=[_FT3], tags=("attr", "if", "allnames"))
_reg(s_fn_attr_promote_loop, [dict(X=x, N=n) for x, n in zip(_X3, _N)], model=False, attrs=dict(alpha=0.5),
     in_types=[_FT3, _t(TP.INT64, [])], out_types=[_FT3], tags=("attr", "for", "allnames"))
_reg(s_fn_attr_default, [dict(X=x) for x in _X3], model=False, attrs=dict(), in_types=[_FT3], out_types=[_FT3],
     tags=("attr", "attr-default"))
_reg(s_fn_attr_ints, [dict(X=m) for m in _M23], model=False, attrs=dict(perm=[1, 0]), in_types=[_t(TP.FLOAT, [2, 3])],
     out_types=[_t(TP.FLOAT, [3, 2])], tags=("attr", "attr-ints"))
_reg(s_call_plain, [dict(X=x, Y=y) for x, y in zip(_X3, reversed(_X3))], deps=(s_fn_plain,), tags=("call",))
_reg(s_call_attr, [dict(X=x) for x in _X3], deps=(s_fn_attr, s_fn_attr_promote), tags=("call", "attr"))
_reg(s_call_default, [dict(X=x) for x in _X3], deps=(s_fn_attr_default,), tags=("call", "attr-default"))


# =========================================================================================================
# (ii) onnx.helper models.  A *slot* is a constant whose value/placement is a dimension of the check.
# =========================================================================================================
def vi(name, elem, shape):
    return oh.make_tensor_value_info(name, elem, shape)


def const_node(name, arr):
    return oh.make_node("Constant", [], [name], value=nh.from_array(np.asarray(arr), name=name + "_t"))


def model(graph, opset=18, ir=8):
    return oh.make_model(graph, opset_imports=[oh.make_opsetid("", opset)], ir_version=ir)


# constant pool: key -> numpy value.  kinds: fs (float scalar-like broadcastable), is (int64 scalar-like)
CONST_POOL = {
    "f:2.5": np.array(2.5, F),
    "f:nan": np.array(np.nan, F),
    "f:inf": np.array(np.inf, F),
    "f:-inf": np.array(-np.inf, F),
    "f:-0.0": np.array(-0.0, F),
    "f:-1": np.array(-1.0, F),
    "f:1e-7": np.array(1e-7, F),
    "f:[1]": np.array([3.0], F),
    "f:[2]": np.array([1.0, -2.0], F),
    "f:[3]": np.array([1.0, np.nan, -0.0], F),
    "f:[4]": np.array([1.0, 2.0, np.inf, 4.0], F),
    "f:[5]": np.array([1.0, 2.0, 3.0, 4.0, -5.0], F),
    "f:[5x]": np.array([1.0, np.nan, -0.0, np.inf, -np.inf], F),
    "f:[2x]": np.array([np.inf, -2.0], F),
    "f:[1,1]": np.array([[2.0]], F),
    "i:[4]": np.array([1, -2, 3, -4], I),
    "i:2": np.array(2, I),
    "i:-1": np.array(-1, I),
    "i:0": np.array(0, I),
    "i:big": np.array(2 ** 40 + 1, I),
    "i:[1]": np.array([3], I),
    "i:[5]": np.array([1, -2, 3, -4, 5], I),
    "b:true": np.array(True),
    "b:false": np.array(False),
    "b:[2]": np.array([True, False]),
    "d:1.5": np.array(1.5, np.float64),
}


def _slot_nodes_inits(slots, choice):
    """choice: {slot: (pool_key, placement)} -> (constant nodes, initializers)"""
    nodes, inits = [], []
    for name, (default_key, _allowed) in slots.items():
        key, place = choice.get(name, (default_key, "node"))
        arr = CONST_POOL[key]
        if place == "node":
            nodes.append(const_node(name, arr))
        else:
            inits.append(nh.from_array(arr, name=name))
    return nodes, inits


HELPERS = {}


def _h(name, slots, feeds, tags=(), in_class=True):
    def deco(build):
        HELPERS[name] = dict(build=build, slots=slots, feeds=feeds, tags=tuple(tags), in_class=in_class)
        return build
    return deco


_FS = ["f:2.5", "f:nan", "f:inf", "f:-inf", "f:-0.0", "f:-1", "f:1e-7", "f:[1]", "f:[2]", "f:[2x]", "f:[1,1]"]
_FV5 = ["f:[5]", "f:[1]", "f:[2]", "f:[3]", "f:[4]", "f:[5x]", "f:2.5", "f:nan"]
_IS = ["i:2", "i:-1", "i:0", "i:big", "i:[1]"]
_X2 = [f32(1, -2), f32(0, 0), f32(-1.5, 40.0)]


@_h("h_straight", {"k": ("f:2.5", _FS), "p": ("i:2", _IS)}, [dict(x=v, n=i64(1, 2)) for v in _X2], tags=("const",))
def h_straight(ch):
    cn, ci = _slot_nodes_inits(HELPERS["h_straight"]["slots"], ch)
    nodes = cn + [
        oh.make_node("Mul", ["x", "k"], ["t"]),
        oh.make_node("Add", ["n", "p"], ["m"]),
        oh.make_node("Cast", ["m"], ["mf"], to=TP.FLOAT),
        oh.make_node("Sub", ["t", "mf"], ["y"]),
    ]
    g = oh.make_graph(nodes, "g_straight", [vi("x", TP.FLOAT, [2]), vi("n", TP.INT64, [2])],
                      [vi("y", TP.FLOAT, None), vi("m", TP.INT64, None)], initializer=ci)
    return model(g)


@_h("h_pow", {"base": ("f:2.5", ["f:2.5", "f:-1", "f:-0.0", "f:nan", "f:inf", "f:[2]"]),
              "e": ("f:2.5", ["f:2.5", "f:-1", "f:[2]"])},
    [dict(x=f32(2, 3)), dict(x=f32(0, 1)), dict(x=f32(-2, 4))], tags=("const", "ops"))
def h_pow(ch):
    """Operators whose Python counterparts have precedence: constant ** x, x - constant, constant / x."""
    cn, ci = _slot_nodes_inits(HELPERS["h_pow"]["slots"], ch)
    nodes = cn + [
        oh.make_node("Pow", ["base", "x"], ["p"]),
        oh.make_node("Pow", ["x", "e"], ["q"]),
        oh.make_node("Sub", ["x", "base"], ["s"]),
        oh.make_node("Div", ["base", "x"], ["d0"]),
        oh.make_node("Identity", ["d0"], ["d"]),
    ]
    g = oh.make_graph(nodes, "g_pow", [vi("x", TP.FLOAT, [2])],
                      [vi("p", TP.FLOAT, None), vi("q", TP.FLOAT, None), vi("s", TP.FLOAT, None), vi("d", TP.FLOAT, None)],
                      initializer=ci)
    return model(g)


@_h("h_vec", {"w": ("f:[5]", _FV5), "idx": ("i:[5]", ["i:[5]", "i:[1]", "i:[4]", "i:0", "i:-1"])},
    [dict(x=np.arange(5, dtype=F)), dict(x=-np.ones(5, F)), dict(x=f32(0, 1e3, -1e3, 0.5, 2))], tags=("const", "init"))
def h_vec(ch):
    """1-D constants of length 1..5: up to 4 elements are inlined by inline_const, more than 4 are left out by
    skip_initializers."""
    cn, ci = _slot_nodes_inits(HELPERS["h_vec"]["slots"], ch)
    nodes = cn + [
        oh.make_node("ReduceSum", ["x"], ["xs"], keepdims=1),
        oh.make_node("Mul", ["xs", "w"], ["y"]),
        oh.make_node("Abs", ["idx"], ["ia"]),
        oh.make_node("Cast", ["ia"], ["fa"], to=TP.FLOAT),
        oh.make_node("Add", ["xs", "fa"], ["y2"]),
    ]
    g = oh.make_graph(nodes, "g_vec", [vi("x", TP.FLOAT, [5])], [vi("y", TP.FLOAT, None), vi("y2", TP.FLOAT, None)],
                      initializer=ci)
    return model(g)


@_h("h_const_out", {"c": ("f:2.5", ["f:2.5", "f:nan", "f:[2]", "f:[5]"]), "flag": ("b:true", ["b:true", "b:false"])},
    [dict(x=v) for v in _X2], tags=("const", "if"))
def h_const_out(ch):
    """A constant that is a graph output, a bool constant as If condition, constants as branch outputs."""
    cn, ci = _slot_nodes_inits(HELPERS["h_const_out"]["slots"], ch)
    then_g = oh.make_graph([const_node("tv", np.array(1.0, F))], "then", [], [vi("tv", TP.FLOAT, None)])
    else_g = oh.make_graph([const_node("ev", np.array(-1.0, F))], "else", [], [vi("ev", TP.FLOAT, None)])
    nodes = cn + [
        oh.make_node("If", ["flag"], ["r"], then_branch=then_g, else_branch=else_g),
        oh.make_node("Mul", ["x", "r"], ["y"]),
    ]
    g = oh.make_graph(nodes, "g_const_out", [vi("x", TP.FLOAT, [2])],
                      [vi("y", TP.FLOAT, None), vi("c", TP.FLOAT, list(CONST_POOL[ch.get("c", ("f:2.5",))[0]].shape))],
                      initializer=ci)
    return model(g)


def _if_graph(same_names: bool):
    tn = "t" if same_names else "t_then"
    en = "t" if same_names else "t_else"
    then_g = oh.make_graph([oh.make_node("Add", ["x", "b"], [tn]), oh.make_node("Relu", [tn], ["ro" if same_names else "ro_then"])],
                           "then", [], [vi("ro" if same_names else "ro_then", TP.FLOAT, None)])
    else_g = oh.make_graph([oh.make_node("Sub", ["x", "b"], [en]), oh.make_node("Neg", [en], ["ro" if same_names else "ro_else"])],
                           "else", [], [vi("ro" if same_names else "ro_else", TP.FLOAT, None)])
    return then_g, else_g


@_h("h_if", {}, [dict(x=f32(1, -2), b=f32(1, 1), c=np.array(True)), dict(x=f32(1, -2), b=f32(1, 1), c=np.array(False)),
                 dict(x=f32(0, 5), b=f32(-1, 7), c=np.array(False))], tags=("if",))
def h_if(ch):
    then_g, else_g = _if_graph(False)
    nodes = [oh.make_node("If", ["c"], ["r"], then_branch=then_g, else_branch=else_g),
             oh.make_node("Identity", ["r"], ["y"])]
    g = oh.make_graph(nodes, "g_if", [vi("x", TP.FLOAT, [2]), vi("b", TP.FLOAT, [2]), vi("c", TP.BOOL, [])],
                      [vi("y", TP.FLOAT, None)])
    return model(g)


@_h("h_if_siblings", {}, HELPERS["h_if"]["feeds"], tags=("if", "sibling-names"))
def h_if_siblings(ch):
    """then/else branches use the same value names (legal: sibling scopes)."""
    then_g, else_g = _if_graph(True)
    nodes = [oh.make_node("If", ["c"], ["r"], else_branch=else_g, then_branch=then_g),
             oh.make_node("Identity", ["r"], ["y"])]
    g = oh.make_graph(nodes, "g_if_sib", [vi("x", TP.FLOAT, [2]), vi("b", TP.FLOAT, [2]), vi("c", TP.BOOL, [])],
                      [vi("y", TP.FLOAT, None)])
    return model(g)


def _for_body(prefix, carried=("a",), swap=False, with_iter=False):
    """Loop body with carried values; body output k = f(body input k)."""
    ins = [vi(prefix + "i", TP.INT64, []), vi(prefix + "cin", TP.BOOL, [])]
    nodes = [oh.make_node("Identity", [prefix + "cin"], [prefix + "cout"])]
    outs = [vi(prefix + "cout", TP.BOOL, [])]
    for c in carried:
        ins.append(vi(prefix + c + "_in", TP.FLOAT, [2]))
    if swap:
        a, b = carried
        outs += [vi(prefix + b + "_in", TP.FLOAT, [2]), vi(prefix + a + "_in", TP.FLOAT, [2])]
    else:
        for c in carried:
            if with_iter:
                nodes.append(oh.make_node("Cast", [prefix + "i"], [prefix + c + "_fi"], to=TP.FLOAT))
                nodes.append(oh.make_node("Add", [prefix + c + "_in", prefix + c + "_fi"], [prefix + c + "_out"]))
            else:
                nodes.append(oh.make_node("Add", [prefix + c + "_in", "x"], [prefix + c + "_out"]))
            outs.append(vi(prefix + c + "_out", TP.FLOAT, [2]))
    return oh.make_graph(nodes, prefix + "body", ins, outs)


_LOOP_FEEDS = [dict(x=f32(1, -2), n=i64(3)), dict(x=f32(1, -2), n=i64(0)), dict(x=f32(0.5, 4), n=i64(1))]


@_h("h_for", {}, _LOOP_FEEDS, tags=("for",))
def h_for(ch):
    body = _for_body("b_", with_iter=True)
    nodes = [oh.make_node("Loop", ["n", "", "x"], ["y"], body=body)]
    g = oh.make_graph(nodes, "g_for", [vi("x", TP.FLOAT, [2]), vi("n", TP.INT64, [])], [vi("y", TP.FLOAT, [2])])
    return model(g)


@_h("h_for_swap", {}, [dict(x=f32(1, -2), z=f32(7, 8), n=i64(k)) for k in (3, 0, 1, 2)], tags=("for", "swap"))
def h_for_swap(ch):
    """Body returns its two carried inputs exchanged (parallel assignment needed)."""
    body = _for_body("b_", carried=("p", "q"), swap=True)
    nodes = [oh.make_node("Loop", ["n", "", "x", "z"], ["y0", "w0"], body=body),
             oh.make_node("Neg", ["y0"], ["y"]), oh.make_node("Abs", ["w0"], ["w"])]
    g = oh.make_graph(nodes, "g_for_swap", [vi("x", TP.FLOAT, [2]), vi("z", TP.FLOAT, [2]), vi("n", TP.INT64, [])],
                      [vi("y", TP.FLOAT, [2]), vi("w", TP.FLOAT, [2])])
    return model(g)


def _while_body(prefix, limit_name):
    ins = [vi(prefix + "i", TP.INT64, []), vi(prefix + "cin", TP.BOOL, []), vi(prefix + "s_in", TP.FLOAT, [2])]
    nodes = [
        oh.make_node("Add", [prefix + "s_in", prefix + "s_in"], [prefix + "s_out"]),
        oh.make_node("ReduceSum", [prefix + "s_out"], [prefix + "tot"], keepdims=0),
        oh.make_node("Less", [prefix + "tot", limit_name], [prefix + "cout"]),
    ]
    outs = [vi(prefix + "cout", TP.BOOL, []), vi(prefix + "s_out", TP.FLOAT, [2])]
    return oh.make_graph(nodes, prefix + "body", ins, outs)


@_h("h_while", {"limit": ("f:2.5", ["f:2.5", "f:inf", "f:nan", "f:-1"])},
    [dict(x=f32(0.25, 0.25), c0=np.array(True)), dict(x=f32(0.25, 0.25), c0=np.array(False)), dict(x=f32(9, 9), c0=np.array(True))],
    tags=("while", "const"))
def h_while(ch):
    # limit inf would never terminate: the driver maps it to a finite run by also bounding with x (see feeds): excluded below
    cn, ci = _slot_nodes_inits(HELPERS["h_while"]["slots"], ch)
    body = _while_body("w_", "limit")
    nodes = cn + [oh.make_node("Loop", ["", "c0", "x"], ["y"], body=body)]
    g = oh.make_graph(nodes, "g_while", [vi("x", TP.FLOAT, [2]), vi("c0", TP.BOOL, [])], [vi("y", TP.FLOAT, [2])],
                      initializer=ci)
    return model(g)


@_h("h_for_while", {}, [dict(x=f32(0.25, 0.25), n=i64(k), c0=np.array(c)) for k, c in ((10, True), (2, True), (0, True), (5, False))],
    tags=("for", "while"))
def h_for_while(ch):
    """Loop with both a trip count and a condition."""
    body = _while_body("w_", "lim")
    nodes = [const_node("lim", np.array(10.0, F)), oh.make_node("Loop", ["n", "c0", "x"], ["y"], body=body)]
    g = oh.make_graph(nodes, "g_for_while", [vi("x", TP.FLOAT, [2]), vi("n", TP.INT64, []), vi("c0", TP.BOOL, [])],
                      [vi("y", TP.FLOAT, [2])])
    return model(g)


@_h("h_two_loops", {}, [dict(x=f32(0.25, 0.25), n=i64(k)) for k in (3, 0, 1)], tags=("for", "while", "sibling-names"))
def h_two_loops(ch):
    """A for-loop followed by a while-loop whose bodies use the same value names (legal: sibling scopes)."""
    b1 = _for_body("", carried=("s",))
    b2 = _while_body("", "lim")
    nodes = [const_node("lim", np.array(30.0, F)), const_node("tru", np.array(True)),
             oh.make_node("Loop", ["n", "", "x"], ["m"], body=b1),
             oh.make_node("Loop", ["", "tru", "m"], ["y"], body=b2)]
    g = oh.make_graph(nodes, "g_two_loops", [vi("x", TP.FLOAT, [2]), vi("n", TP.INT64, [])], [vi("y", TP.FLOAT, [2])])
    return model(g)


@_h("h_if_in_loop", {}, [dict(x=f32(1, -2), n=i64(4)), dict(x=f32(1, -2), n=i64(0)), dict(x=f32(-5, 1), n=i64(2)),
                      dict(x=f32(0.5, 0.25), n=i64(2))], tags=("while", "if"))
def h_if_in_loop(ch):
    then_g = oh.make_graph([oh.make_node("Sub", ["l_s_in", "x"], ["l_tv"])], "then", [], [vi("l_tv", TP.FLOAT, [2])])
    else_g = oh.make_graph([oh.make_node("Add", ["l_s_in", "two"], ["l_ev"])], "else", [], [vi("l_ev", TP.FLOAT, [2])])
    body = oh.make_graph(
        [oh.make_node("ReduceSum", ["l_s_in"], ["l_tot"], keepdims=0),
         oh.make_node("Greater", ["l_tot", "zero"], ["l_pos"]),
         oh.make_node("If", ["l_pos"], ["l_s_out"], then_branch=then_g, else_branch=else_g),
         oh.make_node("ReduceSum", ["l_s_out"], ["l_tot2"], keepdims=0),
         oh.make_node("Less", ["l_tot2", "lim"], ["l_cout"])],
        "body", [vi("l_i", TP.INT64, []), vi("l_cin", TP.BOOL, []), vi("l_s_in", TP.FLOAT, [2])],
        [vi("l_cout", TP.BOOL, []), vi("l_s_out", TP.FLOAT, [2])])
    nodes = [const_node("zero", np.array(0.0, F)), const_node("two", np.array(2.0, F)), const_node("one", np.array(1, I)),
             const_node("lim", np.array(1.5, F)),
             oh.make_node("Greater", ["n", "one"], ["c0"]),
             oh.make_node("Loop", ["", "c0", "x"], ["y"], body=body)]
    g = oh.make_graph(nodes, "g_if_in_loop", [vi("x", TP.FLOAT, [2]), vi("n", TP.INT64, [])], [vi("y", TP.FLOAT, [2])])
    return model(g)


@_h("h_loop_in_if", {}, [dict(x=f32(0.25, 0.5), c=np.array(True)), dict(x=f32(0.25, 0.5), c=np.array(False)),
                         dict(x=f32(50, 50), c=np.array(True))], tags=("while", "if"))
def h_loop_in_if(ch):
    body = _while_body("w_", "lim")
    then_g = oh.make_graph([const_node("tru", np.array(True)), oh.make_node("Loop", ["", "tru", "x"], ["tv"], body=body)],
                           "then", [], [vi("tv", TP.FLOAT, [2])])
    else_g = oh.make_graph([oh.make_node("Neg", ["x"], ["ev"])], "else", [], [vi("ev", TP.FLOAT, None)])
    nodes = [const_node("lim", np.array(10.0, F)),
             oh.make_node("If", ["c"], ["y"], then_branch=then_g, else_branch=else_g)]
    g = oh.make_graph(nodes, "g_loop_in_if", [vi("x", TP.FLOAT, [2]), vi("c", TP.BOOL, [])], [vi("y", TP.FLOAT, [2])])
    return model(g)


@_h("h_sub_init", {}, HELPERS["h_if"]["feeds"], tags=("if", "init"))
def h_sub_init(ch):
    """Initializers owned by subgraphs (small and large) and a large INT64-free FLOAT initializer in the main graph."""
    then_g = oh.make_graph([oh.make_node("Add", ["x", "tw"], ["tv"])], "then", [], [vi("tv", TP.FLOAT, None)],
                           initializer=[nh.from_array(f32(10, 20), name="tw")])
    else_g = oh.make_graph([oh.make_node("MatMul", ["x", "ew"], ["ev"])], "else", [], [vi("ev", TP.FLOAT, None)],
                           initializer=[nh.from_array(np.arange(6, dtype=F).reshape(2, 3), name="ew")])
    nodes = [oh.make_node("If", ["c"], ["r"], then_branch=then_g, else_branch=else_g),
             oh.make_node("ReduceSum", ["r"], ["rs"], keepdims=0),
             oh.make_node("Mul", ["big", "rs"], ["y0"]),
             oh.make_node("Add", ["y0", "b"], ["y"])]
    g = oh.make_graph(nodes, "g_sub_init", [vi("x", TP.FLOAT, [2]), vi("b", TP.FLOAT, [2]), vi("c", TP.BOOL, [])],
                      [vi("y", TP.FLOAT, None)], initializer=[nh.from_array(np.arange(6, dtype=F).reshape(3, 2), name="big")])
    return model(g)


@_h("h_value_info", {}, [dict(x=v) for v in _X2], tags=("init", "value-info"))
def h_value_info(ch):
    """A large initializer plus value_info for an intermediate whose element type is not a graph input/output type."""
    nodes = [oh.make_node("Mul", ["x", "w6"], ["t"]),
             oh.make_node("Shape", ["t"], ["sh"]),
             oh.make_node("Cast", ["sh"], ["y"], to=TP.FLOAT)]
    g = oh.make_graph(nodes, "g_value_info", [vi("x", TP.FLOAT, [2])], [vi("y", TP.FLOAT, None)],
                      initializer=[nh.from_array(np.arange(6, dtype=F).reshape(3, 2), name="w6")],
                      value_info=[vi("sh", TP.INT64, [2]), vi("t", TP.FLOAT, [3, 2])])
    return model(g)


@_h("h_int_init", {}, [dict(x=np.arange(6, dtype=I)), dict(x=-np.ones(6, I)), dict(x=i64(0, 0, 1, 0, 0, 9))], tags=("init",))
def h_int_init(ch):
    """A large INT64 initializer."""
    nodes = [oh.make_node("Add", ["x", "iw"], ["y"])]
    g = oh.make_graph(nodes, "g_int_init", [vi("x", TP.INT64, [6])], [vi("y", TP.INT64, None)],
                      initializer=[nh.from_array(i64(1, 2, 3, 4, 5, 6), name="iw")])
    return model(g)


@_h("h_types", {}, [dict(a=np.array([1.5, -2.5]), h=np.array([1, 2], np.float16), u=np.array([3, 250], np.uint8),
                         s=np.array(["p", "q"], dtype=object)),
                    dict(a=np.array([0.0, 1e300]), h=np.array([0, -1], np.float16), u=np.array([0, 0], np.uint8),
                         s=np.array(["", "zz"], dtype=object)),
                    dict(a=np.array([np.nan, -0.0]), h=np.array([6e4, 1e-3], np.float16), u=np.array([255, 1], np.uint8),
                         s=np.array(["a", "a"], dtype=object))], tags=("types",))
def h_types(ch):
    """Element types other than FLOAT/INT64/BOOL, symbolic / unknown / scalar / rank-free shapes."""
    nodes = [oh.make_node("Neg", ["a"], ["na"]), oh.make_node("Abs", ["h"], ["ah"]),
             oh.make_node("Identity", ["u"], ["uu"]), oh.make_node("Identity", ["s"], ["ss"]),
             oh.make_node("ReduceSum", ["a"], ["sa"], keepdims=0)]
    ins = [vi("a", TP.DOUBLE, ["N"]), vi("h", TP.FLOAT16, [None]), vi("u", TP.UINT8, [2]),
           vi("s", TP.STRING, [2])]
    outs = [vi("na", TP.DOUBLE, ["N"]), vi("ah", TP.FLOAT16, [None]), vi("uu", TP.UINT8, [2]),
            vi("ss", TP.STRING, [2]), vi("sa", TP.DOUBLE, [])]
    g = oh.make_graph(nodes, "g_types", ins, outs)
    return model(g)


@_h("h_zero_dim", {}, [dict(z=np.zeros((0, 3), np.float32), y=np.array([[1.0, -2.0, 3.0], [0.5, 0.0, -1.5]], np.float32)),
                       dict(z=np.zeros((0, 3), np.float32), y=np.array([[-1.0, 2.0, -3.0]], np.float32)),
                       dict(z=np.zeros((0, 3), np.float32), y=np.zeros((0, 3), np.float32))], tags=("types",))
def h_zero_dim(ch):
    """A declared dimension of size 0 (dim_value == 0 is a populated field, not an unknown dimension)."""
    nodes = [oh.make_node("Neg", ["z"], ["nz"]), oh.make_node("Concat", ["z", "y"], ["zy"], axis=0),
             oh.make_node("Shape", ["nz"], ["sh"])]
    ins = [vi("z", TP.FLOAT, [0, 3]), vi("y", TP.FLOAT, ["N", 3])]
    outs = [vi("nz", TP.FLOAT, [0, 3]), vi("zy", TP.FLOAT, ["N", 3]), vi("sh", TP.INT64, [2])]
    g = oh.make_graph(nodes, "g_zero_dim", ins, outs)
    return model(g)


@_h("h_mod", {}, [dict(x=i64(7, -7, 7, -7), y=i64(3, 3, -3, -3)), dict(x=i64(0, 5, -1, 9), y=i64(2, -5, 4, 1)),
                  dict(x=i64(-8, 8, 1, -1), y=i64(5, -5, 7, 7))], tags=("ops",))
def h_mod(ch):
    """An op that also exists as a Python operator but carries a semantic attribute (Mod fmod=1: C remainder)."""
    nodes = [oh.make_node("Mod", ["x", "y"], ["cm"], fmod=1), oh.make_node("Mod", ["x", "y"], ["fm"]),
             oh.make_node("Abs", ["cm"], ["acm"]), oh.make_node("Sub", ["fm", "acm"], ["d"])]
    g = oh.make_graph(nodes, "g_mod", [vi("x", TP.INT64, [4]), vi("y", TP.INT64, [4])],
                      [vi("cm", TP.INT64, [4]), vi("fm", TP.INT64, [4]), vi("d", TP.INT64, [4])])
    return model(g)


@_h("h_names", {}, [dict(x=v, y=w) for v, w in zip(_X2, reversed(_X2))], tags=("names",))
def h_names(ch):
    """Values already carrying alphabet names, so that one renaming deviation produces a clean-up collision."""
    nodes = [oh.make_node("Add", ["x", "y"], ["a_b"]),
             oh.make_node("Mul", ["a_b", "x"], ["r_if"]),
             oh.make_node("Sub", ["r_if", "y"], ["v1"]),
             oh.make_node("Elu", ["v1"], ["__0"], alpha=2.0),
             oh.make_node("Neg", ["__0"], ["out"])]
    g = oh.make_graph(nodes, "g_names", [vi("x", TP.FLOAT, [2]), vi("y", TP.FLOAT, [2])],
                      [vi("out", TP.FLOAT, None), vi("a_b", TP.FLOAT, None)])
    return model(g)


@_h("h_graph_name", {}, [dict(x=v) for v in _X2], tags=("names",))
def h_graph_name(ch):
    """Graph name needing clean-up, node names (emitted as comments), doc string."""
    nodes = [oh.make_node("Neg", ["x"], ["t"], name="first/node:0"),
             oh.make_node("Abs", ["t"], ["y"], name="second node")]
    g = oh.make_graph(nodes, "main.graph-1", [vi("x", TP.FLOAT, [2])], [vi("y", TP.FLOAT, None)], doc_string="doc of the graph")
    return model(g)


@_h("h_overridable", {}, [dict(x=v) for v in _X2] + [dict(x=f32(1, 1), w=f32(100, 100))], tags=("init", "overridable"))
def h_overridable(ch):
    """Initializer that is also a graph input (a default the caller may override)."""
    nodes = [oh.make_node("Add", ["x", "w"], ["y"])]
    g = oh.make_graph(nodes, "g_overridable", [vi("x", TP.FLOAT, [2]), vi("w", TP.FLOAT, [2])], [vi("y", TP.FLOAT, None)],
                      initializer=[nh.from_array(f32(1, 2), name="w")])
    return model(g, ir=8)


# ---- outside the class -----------------------------------------------------------------------------------
@_h("x_sequence", {}, [dict(x=v) for v in _X2], tags=("outside", "sequence"), in_class=False)
def x_sequence(ch):
    nodes = [oh.make_node("SequenceConstruct", ["x", "x"], ["sq"]),
             const_node("one", np.array(1, I)),
             oh.make_node("SequenceAt", ["sq", "one"], ["y"])]
    g = oh.make_graph(nodes, "g_sequence", [vi("x", TP.FLOAT, [2])], [vi("y", TP.FLOAT, None)])
    return model(g)


@_h("x_sequence_io", {}, [dict(x=v) for v in _X2], tags=("outside", "sequence"), in_class=False)
def x_sequence_io(ch):
    nodes = [oh.make_node("SequenceConstruct", ["x", "x"], ["sq"])]
    seq_t = oh.make_sequence_type_proto(oh.make_tensor_type_proto(TP.FLOAT, [2]))
    g = oh.make_graph(nodes, "g_sequence_io", [vi("x", TP.FLOAT, [2])], [oh.make_value_info("sq", seq_t)])
    return model(g)


@_h("x_scan", {}, [dict(x=np.arange(6, dtype=F).reshape(3, 2)), dict(x=np.ones((1, 2), F)), dict(x=-np.ones((2, 2), F))],
    tags=("outside", "scan"), in_class=False)
def x_scan(ch):
    body = oh.make_graph([oh.make_node("Add", ["acc", "row"], ["acc_o"]), oh.make_node("Identity", ["acc_o"], ["sc"])],
                         "scan_body", [vi("acc", TP.FLOAT, [2]), vi("row", TP.FLOAT, [2])],
                         [vi("acc_o", TP.FLOAT, [2]), vi("sc", TP.FLOAT, [2])])
    nodes = [const_node("z", f32(0, 0)),
             oh.make_node("Scan", ["z", "x"], ["fin", "ys"], body=body, num_scan_inputs=1)]
    g = oh.make_graph(nodes, "g_scan", [vi("x", TP.FLOAT, [None, 2])], [vi("fin", TP.FLOAT, None), vi("ys", TP.FLOAT, [None, 2])])
    return model(g)


@_h("x_sparse", {}, [dict(x=f32(1, 2, 3)), dict(x=f32(0, 0, 0)), dict(x=f32(-1, 5, 2))], tags=("outside", "sparse"),
    in_class=False)
def x_sparse(ch):
    values = nh.from_array(f32(5.0), name="sp")
    indices = nh.from_array(i64(1), name="sp_idx")
    sp = oh.make_sparse_tensor(values, indices, [3])
    nodes = [oh.make_node("Add", ["x", "sp"], ["y"])]
    g = oh.make_graph(nodes, "g_sparse", [vi("x", TP.FLOAT, [3])], [vi("y", TP.FLOAT, None)])
    g.sparse_initializer.append(sp)
    return model(g)


@_h("x_loop_scan_out", {}, [dict(x=f32(0.25, 0.25), n=i64(1)), dict(x=f32(3, 3), n=i64(1)), dict(x=f32(20, 0), n=i64(1))], tags=("outside", "scan-output"), in_class=False)
def x_loop_scan_out(ch):
    body = _while_body("w_", "lim")
    body.node.append(oh.make_node("Identity", ["w_s_out"], ["w_scan"]))
    body.output.append(vi("w_scan", TP.FLOAT, [2]))
    nodes = [const_node("lim", np.array(10.0, F)), oh.make_node("Greater", ["n", "n"], ["nn"]), oh.make_node("Not", ["nn"], ["c0"]),
             oh.make_node("Loop", ["", "c0", "x"], ["y", "ys"], body=body)]
    g = oh.make_graph(nodes, "g_loop_scan", [vi("x", TP.FLOAT, [2]), vi("n", TP.INT64, [])],
                      [vi("y", TP.FLOAT, [2]), vi("ys", TP.FLOAT, [None, 2])])
    return model(g)


@_h("h_only_ops", {"k": ("f:2.5", ["f:2.5", "f:-1", "f:nan", "f:[2]"])}, [dict(x=v, z=w) for v, w in zip(_X2, reversed(_X2))],
    tags=("ops", "const"))
def h_only_ops(ch):
    """Every node has a Python operator counterpart."""
    cn, ci = _slot_nodes_inits(HELPERS["h_only_ops"]["slots"], ch)
    nodes = cn + [oh.make_node("Add", ["x", "z"], ["s"]), oh.make_node("Mul", ["s", "k"], ["p"]),
                  oh.make_node("Sub", ["p", "x"], ["d"]), oh.make_node("Div", ["d", "k"], ["q"]),
                  oh.make_node("Greater", ["x", "z"], ["g"]), oh.make_node("LessOrEqual", ["x", "z"], ["le"]),
                  oh.make_node("Less", ["x", "z"], ["lt"]), oh.make_node("Equal", ["x", "z"], ["eq"]),
                  oh.make_node("And", ["g", "lt"], ["an"]), oh.make_node("Or", ["an", "eq"], ["o"]),
                  oh.make_node("GreaterOrEqual", ["x", "z"], ["ge"])]
    g = oh.make_graph(nodes, "g_only_ops", [vi("x", TP.FLOAT, [2]), vi("z", TP.FLOAT, [2])],
                      [vi("q", TP.FLOAT, None), vi("o", TP.BOOL, None), vi("le", TP.BOOL, None), vi("ge", TP.BOOL, None),
                       vi("g", TP.BOOL, None), vi("lt", TP.BOOL, None)],
                      initializer=ci)
    return model(g)


@_h("h_matmul", {}, [dict(x=a, z=b) for a, b in zip(_M22, reversed(_M22))], tags=("ops",))
def h_matmul(ch):
    nodes = [oh.make_node("MatMul", ["x", "z"], ["mm"]), oh.make_node("Pow", ["mm", "z"], ["pw"]),
             oh.make_node("Abs", ["pw"], ["y"])]
    g = oh.make_graph(nodes, "g_matmul", [vi("x", TP.FLOAT, [2, 2]), vi("z", TP.FLOAT, [2, 2])], [vi("y", TP.FLOAT, None)])
    return model(g)


@_h("h_while_swap", {}, [dict(x=f32(1, -2), z=f32(7, 8), n=i64(k)) for k in (3, 0, 1, 2)], tags=("while", "swap"))
def h_while_swap(ch):
    """Condition-driven loop whose body returns its two carried inputs exchanged (its own counter, no iteration number)."""
    body = oh.make_graph(
        [oh.make_node("Add", ["k_c", "one"], ["k_c2"]), oh.make_node("Less", ["k_c2", "n"], ["k_cout"])],
        "body", [vi("k_i", TP.INT64, []), vi("k_cin", TP.BOOL, []), vi("k_p", TP.FLOAT, [2]), vi("k_q", TP.FLOAT, [2]),
                 vi("k_c", TP.INT64, [])],
        [vi("k_cout", TP.BOOL, []), vi("k_q", TP.FLOAT, [2]), vi("k_p", TP.FLOAT, [2]), vi("k_c2", TP.INT64, [])])
    nodes = [const_node("one", np.array(1, I)), const_node("zero", np.array(0, I)),
             oh.make_node("Greater", ["n", "zero"], ["c0"]),
             oh.make_node("Loop", ["", "c0", "x", "z", "zero"], ["y0", "w0", "cnt"], body=body),
             oh.make_node("Neg", ["y0"], ["y"]), oh.make_node("Abs", ["w0"], ["w"])]
    g = oh.make_graph(nodes, "g_while_swap", [vi("x", TP.FLOAT, [2]), vi("z", TP.FLOAT, [2]), vi("n", TP.INT64, [])],
                      [vi("y", TP.FLOAT, [2]), vi("w", TP.FLOAT, [2])])
    return model(g)


@_h("h_while_plain", {}, [dict(x=f32(0.25, 0.25), c0=np.array(True)), dict(x=f32(0.25, 0.25), c0=np.array(False)),
                          dict(x=f32(9, 9), c0=np.array(True))], tags=("while", "sibling-names"))
def h_while_plain(ch):
    """Two condition-driven loops in sequence whose bodies share value names; no iteration number used."""
    b1 = _while_body("", "lim")
    b2 = _while_body("", "lim2")
    nodes = [const_node("lim", np.array(10.0, F)), const_node("lim2", np.array(100.0, F)),
             oh.make_node("Loop", ["", "c0", "x"], ["m"], body=b1),
             oh.make_node("ReduceSum", ["m"], ["ms"], keepdims=0),
             oh.make_node("Less", ["ms", "lim2"], ["c1"]),
             oh.make_node("Loop", ["", "c1", "m"], ["y"], body=b2)]
    g = oh.make_graph(nodes, "g_while_plain", [vi("x", TP.FLOAT, [2]), vi("c0", TP.BOOL, [])], [vi("y", TP.FLOAT, [2])])
    return model(g)


@_h("h_while_iter", {}, [dict(x=f32(1, -2), n=i64(k)) for k in (4, 0, 1)], tags=("while", "iter-in-while"))
def h_while_iter(ch):
    """Condition-driven loop (no trip count) whose body reads the iteration number."""
    body = oh.make_graph(
        [oh.make_node("Cast", ["j_i"], ["j_fi"], to=TP.FLOAT),
         oh.make_node("Add", ["j_s_in", "j_fi"], ["j_s_out"]),
         oh.make_node("Less", ["j_i", "nm1"], ["j_cout"])],
        "body", [vi("j_i", TP.INT64, []), vi("j_cin", TP.BOOL, []), vi("j_s_in", TP.FLOAT, [2])],
        [vi("j_cout", TP.BOOL, []), vi("j_s_out", TP.FLOAT, [2])])
    nodes = [const_node("one", np.array(1, I)), const_node("zero", np.array(0, I)),
             oh.make_node("Sub", ["n", "one"], ["nm1"]),
             oh.make_node("Greater", ["n", "zero"], ["c0"]),
             oh.make_node("Loop", ["", "c0", "x"], ["y"], body=body)]
    g = oh.make_graph(nodes, "g_while_iter", [vi("x", TP.FLOAT, [2]), vi("n", TP.INT64, [])], [vi("y", TP.FLOAT, [2])])
    return model(g)


# ---------------------------------------------------------------------------------------------------------
# typed tensor constants: every element type the exporter renders through make_tensor, with the payloads that a
# textual rendering can get wrong (non-finite elements of non-numpy float types, strings that contain 'inf'/'nan',
# empty tensors, signed zeros); the constant reaches a graph output through Cast(to=FLOAT)/Identity only, so any
# change of a single element is an output difference.
# ---------------------------------------------------------------------------------------------------------
import ml_dtypes as _mld  # noqa: E402

_BF, _F8A, _F8B = _mld.bfloat16, _mld.float8_e4m3fn, _mld.float8_e5m2
CONST_POOL.update({
    "t:bf16": np.array([1.5, -2.0], _BF),
    "t:bf16-x": np.array([1.5, np.inf, -np.inf, np.nan, -0.0], _BF),
    "t:bf16-0d-inf": np.array(np.inf, _BF),
    "t:bf16-0d": np.array(-3.0, _BF),
    "t:f16-x": np.array([np.nan, -np.inf, -0.0, 6e4], np.float16),
    "t:f16-0d-nan": np.array(np.nan, np.float16),
    "t:f64-x": np.array([np.nan, np.inf, 1e300, -0.0], np.float64),
    "t:f64-0d-ninf": np.array(-np.inf, np.float64),
    "t:f8e4m3fn": np.array([1.5, -448.0, 0.015625], _F8A),
    "t:f8e4m3fn-nan": np.array([1.5, np.nan], _F8A),
    "t:f8e5m2": np.array([0.5, -57344.0], _F8B),
    "t:f8e5m2-x": np.array([np.inf, -np.inf, np.nan, 0.5], _F8B),
    "t:str": np.array(["p", "", "q r"], dtype=object),
    "t:str-inf": np.array(["info", "nan", "-inf", "banana"], dtype=object),
    "t:str-quote": np.array(["it's", 'say "x"', "a\\b", "\n"], dtype=object),
    "t:u8": np.array([0, 255], np.uint8),
    "t:i8": np.array([-128, 127], np.int8),
    "t:i32": np.array([-2 ** 31, 2 ** 31 - 1], np.int32),
    "t:u64": np.array([0, 2 ** 64 - 1], np.uint64),
    "t:bool": np.array([True, False, True]),
    "t:f32-empty": np.zeros((0,), F),
    "t:i64-empty": np.zeros((0,), I),
    "t:f32-2x0": np.zeros((2, 0), F),
    "t:f32-2d-x": np.array([[1.0, np.nan], [np.inf, -0.0]], F),
    "t:f32-4": np.array([1.0, np.nan, -np.inf, -0.0], F),
    "t:i64-4": np.array([2 ** 62, -2 ** 63, 0, -1], I),
    "t:c64": np.array([1 + 2j, complex(1, np.inf), complex(-0.0, -0.0)], np.complex64),
})
_TS = [k for k in CONST_POOL if k.startswith("t:")]
_FLOATLIKE = (TP.BFLOAT16, TP.FLOAT16, TP.FLOAT8E4M3FN, TP.FLOAT8E5M2)


@_h("h_ctypes", {"c": ("t:bf16", _TS)}, [dict(x=v) for v in _X2], tags=("const", "types"))
def h_ctypes(ch):
    """One tensor constant of a chosen element type, observed through Cast(to=FLOAT) (float-like types ORT cannot
    hand back as numpy) or Identity."""
    key, place = ch.get("c", ("t:bf16", "node"))
    arr = CONST_POOL[key]
    t = nh.from_array(arr, name="c")
    et = t.data_type
    nodes, inits = [], []
    if place == "node":
        t.name = "c_t"
        nodes.append(oh.make_node("Constant", [], ["c"], value=t))
    else:
        inits.append(t)
    outs = []
    if et in _FLOATLIKE:
        nodes.append(oh.make_node("Cast", ["c"], ["y"], to=TP.FLOAT))
        yt = TP.FLOAT
    else:
        nodes.append(oh.make_node("Identity", ["c"], ["y"]))
        yt = et
    if et in _FLOATLIKE or et in (TP.FLOAT, TP.DOUBLE):
        # 1/y makes the sign of a zero element observable (-0.0 -> -inf)
        nodes.append(oh.make_node("Reciprocal", ["y"], ["r"]))
        outs.append(vi("r", yt, list(arr.shape)))
    nodes.append(oh.make_node("Neg", ["x"], ["z"]))
    g = oh.make_graph(nodes, "g_ctypes", [vi("x", TP.FLOAT, [2])],
                      [vi("y", yt, list(arr.shape)), vi("z", TP.FLOAT, [2])] + outs, initializer=inits)
    return model(g, opset=21, ir=10)


# ---------------------------------------------------------------------------------------------------------
# loop bodies in which the next value of a carried variable is computed (by a non-Identity node) BEFORE another node
# reads the old value: SSA keeps both alive, Python code that re-uses one variable for both does not
# ---------------------------------------------------------------------------------------------------------
def _rotate_body(prefix, order, counter):
    q2 = oh.make_node("Mul", [prefix + "q", "two"], [prefix + "q2"])          # next q
    p2 = oh.make_node("Sub", [prefix + "q", prefix + "p"], [prefix + "p2"])   # next p reads the OLD q
    r2 = oh.make_node("Add", [prefix + "p", prefix + "q"], [prefix + "r2"])   # third value reads both old ones
    nodes = {"q-first": [q2, p2, r2], "p-first": [p2, q2, r2], "r-first": [r2, q2, p2]}[order]
    ins = [vi(prefix + "i", TP.INT64, []), vi(prefix + "cin", TP.BOOL, []), vi(prefix + "p", TP.FLOAT, [2]),
           vi(prefix + "q", TP.FLOAT, [2]), vi(prefix + "r", TP.FLOAT, [2])]
    outs = [vi(prefix + "cout", TP.BOOL, []), vi(prefix + "p2", TP.FLOAT, [2]), vi(prefix + "q2", TP.FLOAT, [2]),
            vi(prefix + "r2", TP.FLOAT, [2])]
    if counter:
        ins.append(vi(prefix + "c", TP.INT64, []))
        nodes = nodes + [oh.make_node("Add", [prefix + "c", "one"], [prefix + "c2"]),
                         oh.make_node("Less", [prefix + "c2", "n"], [prefix + "cout"])]
        outs.append(vi(prefix + "c2", TP.INT64, []))
    else:
        nodes = [oh.make_node("Identity", [prefix + "cin"], [prefix + "cout"])] + nodes
    return oh.make_graph(nodes, prefix + "body", ins, outs)


_ROT_FEEDS = [dict(x=f32(1, -2), z=f32(0.5, 3), n=i64(k)) for k in (3, 0, 1, 2)]


def _mk_rotate(name, order, counter):
    @_h(name, {}, _ROT_FEEDS, tags=("loop", "rotate") + (("while",) if counter else ("for",)))
    def build(ch, order=order, counter=counter):
        body = _rotate_body("k_", order, counter)
        nodes = [const_node("two", np.array(2.0, F)), const_node("one", np.array(1, I)), const_node("zero", np.array(0, I)),
                 oh.make_node("Greater", ["n", "zero"], ["c0"]), oh.make_node("Neg", ["x"], ["w"])]
        if counter:
            nodes.append(oh.make_node("Loop", ["", "c0", "x", "z", "w", "zero"], ["p0", "q0", "r0", "cnt"], body=body))
        else:
            nodes.append(oh.make_node("Loop", ["n", "", "x", "z", "w"], ["p0", "q0", "r0"], body=body))
        nodes += [oh.make_node("Identity", ["p0"], ["yp"]), oh.make_node("Identity", ["q0"], ["yq"]),
                  oh.make_node("Identity", ["r0"], ["yr"])]
        g = oh.make_graph(nodes, "g_" + name[2:], [vi("x", TP.FLOAT, [2]), vi("z", TP.FLOAT, [2]), vi("n", TP.INT64, [])],
                          [vi("yp", TP.FLOAT, [2]), vi("yq", TP.FLOAT, [2]), vi("yr", TP.FLOAT, [2])])
        return model(g)
    return build


for _o in ("q-first", "p-first", "r-first"):
    _mk_rotate("h_while_rot_" + _o[0], _o, True)
    _mk_rotate("h_for_rot_" + _o[0], _o, False)
