"""C12 observation side: drives the three onnxscript front ends on one call and reads back the operand
that each of them feeds to the operator.  No kernel is executed.  Expectations come from c12_spec."""
from __future__ import annotations

import linecache
import sys
import types

import numpy as np
import onnx
import onnx.numpy_helper
import onnx_ir as ir

import onnxscript  # noqa: F401
from onnxscript import evaluator as os_evaluator
from onnxscript._internal.evaluator import BaseEvaluator
from onnxscript import tensor as os_tensor
from onnxscript._internal import builder as os_builder

from vf.props import c12_spec as spec

UNDEF = spec.UNDEFINED

_NP2SHORT = {np.dtype(v[2]): k for k, v in spec.DTYPES.items()}
_ANN = {k: v[1] for k, v in spec.DTYPES.items()}
_IRDT = {k: getattr(ir.DataType, v[1]) for k, v in spec.DTYPES.items()}
_IR2SHORT = {v: k for k, v in _IRDT.items()}
_PROTO2SHORT = {int(v): k for k, v in _IRDT.items()}
# operators whose (first) output has the element type of their first input; only used to follow the
# CastLike target through the intermediate value of the two-literal "chain" shape
_PASS = {"Mul", "Add", "And", "Or", "Max", "Clip"}


def _short(npdtype):
    return _NP2SHORT.get(np.dtype(npdtype), str(npdtype))


def _tensor(dt, arr, via, name=None, **kw):
    d = {"st": "tensor", "dt": dt, "arr": arr, "via": via, "name": name}
    d.update(kw)
    return d


def _bad(why):
    return {"st": "bad", "why": why}


def _refused(exc):
    return {"st": "refused", "exc": f"{type(exc).__name__}: {str(exc)[:160]}"}


def _render(obs):
    if obs["st"] != "tensor":
        return {k: v for k, v in obs.items()}
    arr = obs["arr"]
    return {"dtype": obs["dt"], "via": obs["via"], "name": obs.get("name"), "src_dtype": obs.get("src"),
            "value": UNDEF if arr is UNDEF else arr.tolist(),
            "shape": None if arr is UNDEF else list(arr.shape),
            "bits": None if arr is UNDEF else arr.tobytes().hex()}


def _render_exp(exp):
    dt, arr = exp
    return {"dtype": dt, "value": UNDEF if arr is UNDEF else arr.tolist(),
            "shape": None if arr is UNDEF else list(arr.shape),
            "bits": None if arr is UNDEF else arr.tobytes().hex()}


# ------------------------------------------------------------------------------------------------
# a "program": steps [(opname, [argref...], attrs)], argref in {"L1","L2","None", ("in", name), ("step", k)}
# inputs: {name: {"k": "t"|"seq"|"str", "dt": short}}
# ------------------------------------------------------------------------------------------------

def single_program(opname, plan, attrs):
    ins, args = {}, []
    for i, a in enumerate(plan["args"]):
        if a["k"] == "lit":
            args.append("L1")
        elif a["k"] == "none":
            args.append("None")
        else:
            ins[f"a{i}"] = a
            args.append(("in", f"a{i}"))
    return {"inputs": ins, "steps": [(opname, args, attrs)], "returns": [0]}


def pair_program(shape, d1, d2):
    def binop(d, first):
        if d == "bool":
            return "And" if first else "Or"
        return "Mul" if first else "Add"
    x = {"k": "t", "dt": d1}
    if shape == "chain":
        return {"inputs": {"x": x}, "returns": [1], "targets": [(0, 1), (1, 1)],
                "steps": [(binop(d1, True), [("in", "x"), "L1"], {}), (binop(d1, False), [("step", 0), "L2"], {})]}
    if shape == "two":
        return {"inputs": {"x": x, "y": {"k": "t", "dt": d2}}, "returns": [0, 1], "targets": [(0, 1), (1, 1)],
                "steps": [(binop(d1, True), [("in", "x"), "L1"], {}), (binop(d2, True), [("in", "y"), "L2"], {})]}
    opname = {"max3": "Max", "clip": "Clip", "where": "Where"}[shape]
    return {"inputs": {"x": x}, "returns": [0], "targets": [(0, 1), (0, 2)],
            "steps": [(opname, [("in", "x"), "L1", "L2"], {})]}


def baseline_program(shape, d1, d2, slot, lit):
    """The pair program with the *other* literal replaced by a tensor input z: what the tested literal
    becomes when no second literal is around.  z is typed so that the expectation of the tested slot is
    unchanged (for `where`, where no tensor shares T, z gets the literal's natural type)."""
    prog = pair_program(shape, d1, d2)
    other = "L2" if slot == 0 else "L1"
    dz = spec.natural_dtype(lit) if shape == "where" else (d2 if slot == 0 else d1)
    prog["inputs"]["z"] = {"k": "t", "dt": dz}
    prog["steps"] = [(o, [("in", "z") if a == other else a for a in args], at) for o, args, at in prog["steps"]]
    prog["targets"] = [prog["targets"][slot]]
    return prog


# ------------------------------------------------------------------------------------------------
# static front end
# ------------------------------------------------------------------------------------------------

_MODS = {}
_SEQ = [0]


def _static_module(n):
    mod = _MODS.get(n)
    if mod is None:
        name = f"c12_static_{n}"
        mod = types.ModuleType(name)
        hdr = ("from typing import Sequence\nfrom onnxscript import script\n"
               "from onnxscript.onnx_types import FLOAT, INT64, FLOAT16, DOUBLE, INT32, UINT8, BOOL, STRING\n"
               f"from onnxscript.onnx_opset import opset{n} as op\n")
        exec(hdr, mod.__dict__)
        sys.modules[name] = mod
        _MODS[n] = mod
    return mod


def _ann(a):
    if a["k"] == "seq":
        return f"Sequence[{_ANN[a['dt']]}]"
    if a["k"] == "str":
        return "STRING[...]"
    return f"{_ANN[a['dt']]}[...]"


def render_source(prog, lits):
    def ref(r):
        if r == "L1":
            return repr(lits[0])
        if r == "L2":
            return repr(lits[1])
        if r == "None":
            return "None"
        if r[0] == "in":
            return r[1]
        return f"t{r[1]}"
    params = ", ".join(f"{n}: {_ann(a)}" for n, a in prog["inputs"].items())
    lines = ["@script(default_opset=op)", f"def f({params}):"]
    for k, (opname, args, attrs) in enumerate(prog["steps"]):
        kw = "".join(f", {a}={v!r}" for a, v in attrs.items())
        lines.append(f"    t{k} = op.{opname}({', '.join(ref(r) for r in args)}{kw})")
    lines.append("    return " + ", ".join(f"t{k}" for k in prog["returns"]))
    return "\n".join(lines) + "\n"


def _const_array(nd):
    for a in nd.attribute:
        if a.name == "value":
            return onnx.numpy_helper.to_array(a.t)
        if a.name == "value_int":
            return np.array(a.i, dtype=np.int64)
        if a.name == "value_float":
            return np.array(a.f, dtype=np.float32)
        if a.name == "value_ints":
            return np.array(list(a.ints), dtype=np.int64)
        if a.name == "value_floats":
            return np.array(list(a.floats), dtype=np.float32)
    return None


def _resolve_proto(name, prod, in_dt, depth=0):
    nd = prod.get(name)
    if nd is None:
        return _bad(f"operand '{name}' is not produced by a node")
    if nd.op_type == "Constant" and nd.domain == "":
        arr = _const_array(nd)
        if arr is None:
            return _bad("Constant without a tensor value")
        return _tensor(_short(arr.dtype), arr, "const", name=name)
    if nd.op_type in ("CastLike", "Cast") and nd.domain == "" and depth < 4:
        c = _resolve_proto(nd.input[0], prod, in_dt, depth + 1)
        if c["st"] != "tensor":
            return c
        if nd.op_type == "CastLike":
            tdt = _proto_dtype_of(nd.input[1], prod, in_dt)
            if tdt is None:
                return _bad(f"CastLike target '{nd.input[1]}' has no known element type")
        else:
            to = [a.i for a in nd.attribute if a.name == "to"]
            tdt = _PROTO2SHORT.get(to[0]) if to else None
            if tdt is None:
                return _bad("Cast to a type outside the pool")
        arr = c["arr"] if c["arr"] is UNDEF else spec.cast_array(c["arr"], tdt)
        return _tensor(tdt, arr, "castlike", name=c["name"], src=c["dt"], like=nd.input[1] if nd.op_type == "CastLike" else None)
    return _bad(f"operand produced by {nd.op_type}")


def _proto_dtype_of(name, prod, in_dt, depth=0):
    if name in in_dt:
        return in_dt[name]
    nd = prod.get(name)
    if nd is not None and nd.op_type in _PASS and depth < 4 and nd.input:
        return _proto_dtype_of(nd.input[0], prod, in_dt, depth + 1)
    return None


def observe_static(n, prog, lits, targets):
    src = render_source(prog, lits)
    _SEQ[0] += 1
    fname = f"<c12-{n}-{_SEQ[0]}>"
    linecache.cache[fname] = (len(src), None, src.splitlines(True), fname)
    mod = _static_module(n)
    try:
        try:
            exec(compile(src, fname, "exec"), mod.__dict__)
            fp = mod.__dict__["f"].to_function_proto()
        except Exception as e:  # the converter refuses the program
            return [_refused(e) for _ in targets], src
    finally:
        linecache.cache.pop(fname, None)
        mod.__dict__.pop("f", None)
    prod = {o: nd for nd in fp.node for o in nd.output if o}
    in_dt = {nm: a["dt"] for nm, a in prog["inputs"].items() if a["k"] == "t"}
    # locate the node of every step
    nodes = list(fp.node)
    outs = list(fp.output)
    if len(prog["steps"]) == 1:
        # the node that produces the function output (through Identity copies)
        nd = prod.get(outs[0]) if outs else None
        opname = prog["steps"][0][0]
        while nd is not None and nd.op_type == "Identity" and opname != "Identity":
            nd = prod.get(nd.input[0])
        step_nodes = [nd if nd is not None and nd.op_type == opname and nd.domain == "" else None]
    else:
        # multi-step shapes use Mul/Add/And/Or, which autocast never inserts: program order
        step_nodes, start = [], 0
        for opname, _, _ in prog["steps"]:
            found = None
            for idx in range(start, len(nodes)):
                if nodes[idx].op_type == opname and nodes[idx].domain == "":
                    found = idx
                    break
            step_nodes.append(None if found is None else nodes[found])
            if found is not None:
                start = found + 1
    res = []
    for (k, operand) in targets:
        nd = step_nodes[k]
        if nd is None:
            res.append(_bad(f"no {prog['steps'][k][0]} node produces the result"))
        elif operand >= len(nd.input) or not nd.input[operand]:
            res.append(_bad(f"operand {operand} absent from the node"))
        else:
            try:
                res.append(_resolve_proto(nd.input[operand], prod, in_dt))
            except Exception as e:  # a shape this reader does not understand is itself an observation
                res.append(_bad(f"unreadable operand: {type(e).__name__}: {e}"))
    return res, src


# ------------------------------------------------------------------------------------------------
# eager front end
# ------------------------------------------------------------------------------------------------

class _Rec(BaseEvaluator):
    def __init__(self):
        super().__init__()
        self.calls = []

    def _eval(self, schema, inputs, attributes, closure):
        self.calls.append((schema.name, list(inputs)))
        dt = np.float32
        for x in inputs:
            if isinstance(x, os_tensor.Tensor):
                dt = x.dtype
                break
        return [os_tensor.Tensor(np.zeros((2,), dtype=dt)) for _ in schema.outputs]


def _opset(n):
    import importlib
    return getattr(importlib.import_module("onnxscript.onnx_opset"), f"opset{n}")


def _eager_value(a):
    if a["k"] == "str":
        return os_tensor.Tensor(np.array(["a", "b"], dtype=object))
    t = os_tensor.Tensor(np.zeros((2,), dtype=spec.DTYPES[a["dt"]][2]))
    return [t] if a["k"] == "seq" else t


def _copy_lit(l):
    return list(l) if isinstance(l, list) else l


def observe_eager(n, prog, lits, targets):
    op = _opset(n)
    env = {nm: _eager_value(a) for nm, a in prog["inputs"].items()}
    rec = _Rec()
    results = []

    def ref(r):
        if r == "L1":
            return _copy_lit(lits[0])
        if r == "L2":
            return _copy_lit(lits[1])
        if r == "None":
            return None
        if r[0] == "in":
            return env[r[1]]
        return results[r[1]]
    try:
        with os_evaluator.default_as(rec):
            for opname, args, attrs in prog["steps"]:
                out = getattr(op, opname)(*[ref(r) for r in args], **attrs)
                results.append(out[0] if isinstance(out, (tuple, list)) else out)
    except Exception as e:
        return [_refused(e) for _ in targets]
    if len(rec.calls) != len(prog["steps"]):
        return [_bad(f"{len(rec.calls)} evaluator calls for {len(prog['steps'])} operator calls") for _ in targets]
    res = []
    for (k, operand) in targets:
        name, inputs = rec.calls[k]
        if operand >= len(inputs):
            res.append(_bad(f"operand {operand} absent from the adapted inputs"))
            continue
        v = inputs[operand]
        if isinstance(v, os_tensor.Tensor):
            arr = np.asarray(v.value)
            res.append(_tensor(_short(arr.dtype), arr, "tensor"))
        else:
            res.append({"st": "bad", "why": f"operand stays a Python {type(v).__name__}", "kind": "not-promoted"})
    return res


# ------------------------------------------------------------------------------------------------
# builder front end (typed inputs / inputs of unknown type)
# ------------------------------------------------------------------------------------------------

def _resolve_ir(v, graph, in_dt, depth=0):
    if v is None:
        return _bad("operand is None")
    nd = v.producer()
    if nd is None:
        if v.const_value is None:
            return _bad(f"operand '{v.name}' is neither an initializer nor a node output")
        if graph.initializers.get(v.name) is not v:
            return _bad(f"constant '{v.name}' is not registered as an initializer of the graph")
        arr = np.asarray(v.const_value.numpy())
        dt = _IR2SHORT.get(v.const_value.dtype, str(v.const_value.dtype))
        if v.type is not None and v.type.dtype != v.const_value.dtype:
            return _bad(f"initializer '{v.name}' declares {v.type.dtype} but holds {v.const_value.dtype}")
        return _tensor(dt, arr, "const", name=v.name)
    if nd.op_type == "Constant" and nd.domain == "":
        a = nd.attributes.get("value")
        if a is None:
            return _bad("Constant without a tensor value")
        t = a.value
        return _tensor(_IR2SHORT.get(t.dtype, str(t.dtype)), np.asarray(t.numpy()), "const", name=v.name)
    if nd.op_type == "CastLike" and nd.domain == "" and depth < 4:
        c = _resolve_ir(nd.inputs[0], graph, in_dt, depth + 1)
        if c["st"] != "tensor":
            return c
        tdt = _ir_dtype_of(nd.inputs[1], in_dt)
        if tdt is None:
            return _bad("CastLike target has no known element type")
        arr = c["arr"] if c["arr"] is UNDEF else spec.cast_array(c["arr"], tdt)
        return _tensor(tdt, arr, "castlike", name=c["name"], src=c["dt"], like=nd.inputs[1].name)
    return _bad(f"operand produced by {nd.op_type}")


def _ir_dtype_of(v, in_dt, depth=0):
    if v is None:
        return None
    if v.name in in_dt and v.producer() is None:
        return in_dt[v.name]
    nd = v.producer()
    if nd is not None and nd.op_type in _PASS and depth < 4 and nd.inputs:
        return _ir_dtype_of(nd.inputs[0], in_dt, depth + 1)
    return None


def observe_builder(n, prog, lits, targets, typed):
    graph = ir.Graph([], [], nodes=[], opset_imports={"": n}, name="g")
    gb = os_builder.GraphBuilder(graph)
    env = {}
    for nm, a in prog["inputs"].items():
        if a["k"] == "seq":
            env[nm] = gb.input(nm, type=ir.SequenceType(ir.TensorType(_IRDT[a["dt"]])))
        elif a["k"] == "str":
            env[nm] = gb.input(nm, dtype=ir.DataType.STRING)
        else:
            env[nm] = gb.input(nm, dtype=_IRDT[a["dt"]] if typed else None)
    in_dt = {nm: a["dt"] for nm, a in prog["inputs"].items() if a["k"] == "t"}
    results = []

    def ref(r):
        if r == "L1":
            return _copy_lit(lits[0])
        if r == "L2":
            return _copy_lit(lits[1])
        if r == "None":
            return None
        if r[0] == "in":
            return env[r[1]]
        return results[r[1]]
    try:
        for opname, args, attrs in prog["steps"]:
            out = getattr(gb.op, opname)(*[ref(r) for r in args], **attrs)
            results.append(out if isinstance(out, ir.Value) else out[0])
    except Exception as e:
        return [_refused(e) for _ in targets]
    res = []
    for (k, operand) in targets:
        nd = results[k].producer()
        if nd is None or nd.op_type != prog["steps"][k][0]:
            res.append(_bad("result is not produced by the requested operator"))
        elif operand >= len(nd.inputs) or nd.inputs[operand] is None:
            res.append(_bad(f"operand {operand} absent from the node"))
        else:
            try:
                res.append(_resolve_ir(nd.inputs[operand], graph, in_dt))
            except Exception as e:
                res.append(_bad(f"unreadable operand: {type(e).__name__}: {e}"))
    return res


def observe(fe, n, prog, lits, targets):
    """-> (list of observations, one per target; rendered source or None)."""
    if fe == "static":
        return observe_static(n, prog, lits, targets)
    if fe == "eager":
        return observe_eager(n, prog, lits, targets), None
    return observe_builder(n, prog, lits, targets, typed=(fe == "builder")), None


# ------------------------------------------------------------------------------------------------
# judgement
# ------------------------------------------------------------------------------------------------

def judge(obs, exp):
    """-> None (agrees) | kind string."""
    exp_dt, exp_arr = exp
    if obs["st"] == "refused":
        return "refused"
    if obs["st"] == "bad":
        return obs.get("kind", "structure")
    if obs["dt"] != exp_dt:
        return "dtype"
    if exp_arr is UNDEF or obs["arr"] is UNDEF:
        return None
    if tuple(obs["arr"].shape) != tuple(exp_arr.shape):
        return "shape"
    if not spec.same_bits(obs["arr"], exp_arr):
        return "value"
    return None


_FE_KEY = {"static": "static", "eager": "eager", "builder": "builder", "bdyn": "builder"}
_GENERAL_CACHE = {}


def _reference_fails(fe, n, sig, li, d, kind, opname):
    """Does the canonical operator of this signature class show the same alarm?  (=> not operator specific)"""
    ref = spec.REFERENCE.get(sig) or spec.REFERENCE.get(sig.split("+")[0])
    if ref is None:
        return False
    rop, rp, rfill = ref
    if rop == opname:
        return True
    key = (fe, n, rop, rp, rfill, li, d, kind)
    if key not in _GENERAL_CACHE:
        sch = spec.visible(n).get(rop)
        ok = False
        if sch is not None:
            dd = d if d != "-" else "f32"
            plan = spec.call_plan(sch, rp, rfill, dd, forced=True)
            lit = spec.POOL[li]
            prog = single_program(rop, plan, spec.required_attrs(sch))
            obs, _ = observe(fe, n, prog, (lit, None), [(0, rp)])
            exp = spec.expected_for(plan, lit)
            k2 = judge(obs[0], exp)
            if k2 == "refused" and exp[1] is UNDEF:
                k2 = None
            ok = (k2 == kind)
        _GENERAL_CACHE[key] = ok
    return _GENERAL_CACHE[key]


def run_single(item):
    n, opname, p = item["opset"], item["op"], item["pos"]
    sch = spec.visible(n)[opname]
    since = sch.since_version
    attrs = spec.required_attrs(sch)
    counts = {}
    viols, nkeys, sigs = [], [], set()
    show = None
    exp_by_cfg = {}

    def cnt(k, v=1):
        counts[k] = counts.get(k, 0) + v

    if not hasattr(_opset(n), opname):
        return {"status": "skip", "skip": "opset class has no such method (C17)", "outcome": "no-method"}
    for fill, d, li in item["cases"]:
        lit = spec.POOL[li]
        plan = spec.call_plan(sch, p, fill, d)
        exp = spec.expected_for(plan, lit)
        exp_by_cfg.setdefault((fill, d), {})[li] = exp[0]
        sig = plan["sig"]
        sigs.add(f"{sig}:{plan['exp_from']}")
        prog = single_program(opname, plan, attrs)
        cnt("cases")
        cnt("sig:" + sig)
        cnt("expect:" + plan["exp_from"])
        cnt("expect-dtype:" + exp[0])
        if exp[1] is UNDEF:
            cnt("cast-undefined-cases")
        per_fe, src = {}, None
        for fe in spec.FRONT_ENDS:
            obs, s = observe(fe, n, prog, (lit, None), [(0, p)])
            if s is not None:
                src = s
            per_fe[fe] = (obs[0], judge(obs[0], exp))
        if show is None:
            show = src
        refusing = [fe for fe, (o, k) in per_fe.items() if k == "refused"]
        compared = False
        for fe, (o, k) in per_fe.items():
            if o["st"] == "tensor":
                compared = True
                cnt(f"{fe}:tensor")
                if o["via"] == "castlike":
                    cnt(f"{fe}:via-castlike")
            if k is None:
                cnt(f"{fe}:agree")
                continue
            if k == "refused":
                cnt(f"{fe}:refused")
                if exp[1] is UNDEF:
                    cnt("refusal-of-undefined-cast")
                    continue
                if len(refusing) == len(per_fe):
                    cnt("refused-by-every-front-end")
                    continue
                k = "refusal-disagreement"
            if (k == "value" and o["via"] == "castlike" and o.get("src") == "f32"
                    and spec.lit_class(lit).startswith("float-inexact")):
                # value = Cast(float32(literal)) instead of Cast(literal): one cause whatever the signature
                via32 = spec.cast_array(np.array(lit, dtype=np.float32), exp[0])
                if via32 is not UNDEF and spec.same_bits(o["arr"], via32):
                    viols.append({"key": f"C12|{_FE_KEY[fe]}|value-via-float32|{spec.lit_class(lit)}", "detail": {
                        "front_end": fe, "opset": n, "op": opname, "position": p, "fill": fill, "sibling_dtype": d,
                        "literal": repr(lit), "expected": _render_exp(exp), "observed": _render(o), "source": src}})
                    continue
            jk = "refused" if k == "refusal-disagreement" else k
            sigkey = sig
            if "+none" in sig and _reference_fails(fe, n, sig.split("+")[0], li, d, jk, None):
                sigkey = sig.split("+")[0]  # not caused by the absent optional input
            opsfx = "" if _reference_fails(fe, n, sig, li, d, jk, opname) else f"|{opname}"
            viols.append({"group": (_FE_KEY[fe], k, sigkey, opsfx), "li": li, "cfg": (fe, fill, d),
                          "obs_dt": o.get("dt"), "detail": {
                "front_end": fe, "opset": n, "op": opname, "since_version": since, "position": p, "fill": fill,
                "sibling_dtype": d, "literal": repr(lit), "expectation": plan["exp_from"],
                "expected": _render_exp(exp), "observed": _render(o), "source": src,
                "others": {f: (_render(oo) if oo["st"] != "tensor" else {"dtype": oo["dt"], "value": UNDEF if oo["arr"] is UNDEF else oo["arr"].tolist()})
                           for f, (oo, _) in per_fe.items() if f != fe}}})
        if compared:
            nkeys.append(f"{opname}@{since}|{p}|{fill}|{d}|{li}")
        if all(k is None for _, k in per_fe.values()):
            cnt("cases-all-four-agree")
    # Finding keys.  The literal class is part of the key only when it matters: if, for one configuration
    # (front end, fill, sibling dtype), every literal that could show this kind of alarm does show it, the
    # cause does not depend on the literal and the class is "any".
    failing = {}
    fixed = [v for v in viols if "key" in v]
    viols = [v for v in viols if "key" not in v]
    for v in viols:
        failing.setdefault((v["group"], v["cfg"]), {})[v["li"]] = v["obs_dt"]
    any_groups = set()
    for (group, cfg), lis in failing.items():
        exps = exp_by_cfg[cfg[1:]]
        hyps = [set(exps)]  # every literal of this configuration fails
        if group[1] == "dtype":
            # "the literal keeps its natural type" / "the literal gets one fixed type"
            hyps.append({i for i, e in exps.items() if spec.natural_dtype(spec.POOL[i]) != e})
            if len(set(lis.values())) == 1:
                c = next(iter(lis.values()))
                hyps.append({i for i, e in exps.items() if e != c})
        if len(lis) >= 3 and any(set(lis) == h for h in hyps):
            any_groups.add(group)
    for v in viols:
        fe_k, k, sigkey, opsfx = v.pop("group")
        lc = "any" if (fe_k, k, sigkey, opsfx) in any_groups else spec.lit_class(spec.POOL[v.pop("li")])
        v.pop("li", None), v.pop("cfg"), v.pop("obs_dt")
        v["key"] = f"C12|{fe_k}|{k}|{lc}|{sigkey}{opsfx}"
    viols = fixed + viols
    # keep one violation per key per item (the runner groups by key; details of the first are kept)
    seen, uniq = set(), []
    for v in viols:
        if v["key"] not in seen:
            seen.add(v["key"])
            uniq.append(v)
    cnt("violating-observations", len(viols))
    return {"status": "viol" if viols else "ok", "outcome": "+".join(sorted(sigs)), "nkey": nkeys,
            "nontrivial": bool(nkeys), "counts": counts, "viols": uniq, "show": show}


PAIR_OPSET = 18


def run_pair(item):
    shape, d1, d2 = item["shape"], item["d1"], item["d2"]
    n = item.get("opset", PAIR_OPSET)
    prog = pair_program(shape, d1, d2)
    targets = prog["targets"]
    counts, viols, nkeys = {}, [], []
    show = None

    def cnt(k, v=1):
        counts[k] = counts.get(k, 0) + v

    L = spec.PAIR_POOL
    inter = {}
    # baseline: every literal alone in each slot (the other literal replaced by a tensor input)
    order = sorted(item["cases"])
    alone_ok = {}
    for idx in sorted({c[0] for c in order} | {c[1] for c in order}):
        lit = L[idx]
        for slot in (0, 1):
            bprog = baseline_program(shape, d1, d2, slot, lit)
            bexp = spec.pair_expected(shape, d1, d2, lit, lit)[slot]
            for fe in spec.FRONT_ENDS:
                bobs, _ = observe(fe, n, bprog, (lit, lit), bprog["targets"])
                bk = judge(bobs[0], bexp)
                if bk == "refused" and bexp[1] is UNDEF:
                    bk = None
                alone_ok[(fe, idx, slot)] = bk is None
                cnt("baseline-observations")
    for i, j in order:
        l1, l2 = L[i], L[j]
        exp = spec.pair_expected(shape, d1, d2, l1, l2)
        cnt("pairs")
        pc = spec.pair_class(l1, l2, exp[0], exp[1])
        must_differ = not (exp[0][1] is UNDEF or exp[1][1] is UNDEF) and not spec.same_bits(exp[0][1], exp[1][1])
        if must_differ:
            cnt("pairs-that-must-not-share")
        if must_differ and pc in ("signed-zero", "signed-zero-list", "equal-different-type"):
            cnt("pairs-equal-under-==-with-distinct-tensors:" + pc)
        compared = False
        for fe in spec.FRONT_ENDS:
            obs, src = observe(fe, n, prog, (l1, l2), targets)
            if show is None and src is not None:
                show = src
            ks = [judge(obs[0], exp[0]), judge(obs[1], exp[1])]
            if "refused" in ks and (exp[0][1] is UNDEF or exp[1][1] is UNDEF):
                # the program as a whole is refused because one literal has no defined cast
                ks = [None, None]
                cnt("refusal-of-undefined-cast")
            if obs[0]["st"] == "tensor" and obs[1]["st"] == "tensor":
                compared = True
                cnt(f"{fe}:pairs-compared")
                if obs[0].get("name") is not None and obs[0].get("name") == obs[1].get("name"):
                    cnt(f"{fe}:pairs-sharing-one-tensor")
            for slot, lit_idx in ((0, i), (1, j)):
                k = ks[slot]
                if k is None:
                    continue
                lit = L[lit_idx]
                if not alone_ok[(fe, lit_idx, slot)]:
                    # wrong even without a second literal: a single-literal defect seen in this shape
                    # (the single-literal walk reports it per literal class; here only the call shape is named)
                    key = f"C12|pair|{_FE_KEY[fe]}-alone-{k}|any|{shape}"
                else:
                    shared = (obs[0]["st"] == "tensor" and obs[1]["st"] == "tensor"
                              and obs[0].get("name") is not None and obs[0].get("name") == obs[1].get("name"))
                    kk = "shared-tensor" if shared else f"interference-{k}"
                    key = f"C12|pair|{_FE_KEY[fe]}-{kk}|{pc}"
                    inter.setdefault(f"C12|pair|{_FE_KEY[fe]}-{kk}|", set()).add(pc)
                viols.append({"key": key, "detail": {
                    "front_end": fe, "opset": n, "shape": shape, "dtypes": [d1, d2], "literals": [repr(l1), repr(l2)],
                    "operand": slot + 1, "expected": _render_exp(exp[slot]), "observed": _render(obs[slot]),
                    "other_operand": _render(obs[1 - slot]), "source": src or render_source(prog, (l1, l2))}})
        if compared:
            nkeys.append(f"pair|{n}|{shape}|{d1}|{d2}|{i}|{j}")
    # an interference seen for many unrelated literal classes does not depend on the class
    for v in viols:
        for prefix, pcs in inter.items():
            if v["key"].startswith(prefix) and len(pcs) >= 4:
                v["key"] = prefix + "any"
    seen, uniq = set(), []
    for v in viols:
        if v["key"] not in seen:
            seen.add(v["key"])
            uniq.append(v)
    cnt("violating-observations", len(viols))
    return {"status": "viol" if viols else "ok", "outcome": f"pair:{shape}:{'same' if d1 == d2 else 'mixed'}-dtype",
            "nkey": nkeys, "nontrivial": bool(nkeys), "counts": counts, "viols": uniq, "show": show}
