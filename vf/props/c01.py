"""C01 - script functions mean the same eagerly, as an ONNX graph, and as plain Python.

Programs come from vf.sggen (two bounded-exhaustive sub-explorations over one typed grammar); each accepted
program is observed four ways per input valuation: eager call, ORT on to_model_proto(), ORT on a one-node
model calling to_function_proto(), and the numpy interpreter over the generator's own AST (vf.sg.Interp).
"""
from __future__ import annotations

import json

from vf import explore, sg, sggen

ID = "C01"
LEVEL = "model_checking"
RULE = ("bounded-exhaustive enumeration of ONNX Script programs from a typed grammar through the choice-tree "
        "explorer: dataflow = every control skeleton (if/else, for over range(k|n|const), while with recomputed "
        "condition, trailing 'if c: break', nesting) of bounded size x every placement of 12(+2) def/use "
        "statements over {u,v}; operator = every operator/call form x every operand source (variable, "
        "literal 0/1/-3/2.5/True, attribute parameter) x context (straight-line, then, else, for, while, "
        "if-attr, for-attr) within a deviation bound; every program x a fixed pool of input valuations. "
        "distinct_nontrivial = distinct accepted programs with >=1 valuation on which the interpreter defines "
        "the program and all observations were compared")
ASSUMPTIONS = ["numpy interpreter vf/sg.py (operator semantics transcribed from the ONNX operator docs, opset 18) is "
               "the reference reading of a program",
               "onnxruntime 1.30 CPU executes a well-formed model per the ONNX spec; eager mode's per-op ORT "
               "sessions are memoised by model bytes (pure memoisation of the runtime)",
               "workers run with PYTHONHASHSEED=0; outputs are compared by position as the function returns them"]


def plan(tier, seed):
    st = explore.Stats()
    items, fam = sggen.enumerate_plan(tier, st, with_rename=True)
    d = st.as_dict()
    d["exhaustive"] = not st.capped
    d["dimensions"] = {k: len(v) for k, v in st.dim_hist.items()}
    d["families"] = fam
    return items, d


def worker_init(arg):
    from vf import sgrun
    sgrun.patch_ort_session_cache()


def execute(item):
    from vf import c01lib
    return c01lib.check_program(item)


def summarize(items, results, tier):
    acc = sum(1 for r in results if ":accepted" in str(r.get("outcome", "")))
    ref = sum(1 for r in results if ":refused" in str(r.get("outcome", "")))
    und = sum(1 for r in results if "undefined-everywhere" in str(r.get("outcome", "")))
    vals = sum((r.get("counts") or {}).get("defined", 0) for r in results)
    return {"programs_accepted": acc, "programs_refused": ref, "programs_accepted_but_undefined_on_every_input": und,
            "program_input_pairs_compared": vals}
