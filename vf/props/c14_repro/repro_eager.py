"""C14: a later (eager) call of a decorated script sees a global rebound after decoration; the proto does not."""
import numpy as np
from onnxscript import script, opset18 as op
from onnxscript.onnx_types import FLOAT

K = 3.0

@script(default_opset=op)
def g(x: FLOAT[2]) -> FLOAT[2]:
    return x * K

x = np.array([1.0, 2.0], dtype=np.float32)
y1 = g(x); p1 = g.to_model_proto().SerializeToString()
K = 4.0
y2 = g(x); p2 = g.to_model_proto().SerializeToString()
print(y1, y2, "proto unchanged:", p1 == p2)
assert np.array_equal(y1, y2), "eager call changed after rebinding a global"
