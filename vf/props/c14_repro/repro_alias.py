"""C14: script-time constants are not fixed at decoration: the IR aliases the global ndarray / TensorProto."""
import numpy as np, onnx
from onnxscript import script, opset18 as op
from onnxscript.onnx_types import FLOAT

ARR = np.array([1.0, 2.0], dtype=np.float32)
TP = onnx.numpy_helper.from_array(np.array([5.0, 6.0], dtype=np.float32), "tp")

@script(default_opset=op)
def f(x: FLOAT[2]) -> FLOAT[2]:
    return op.Add(x, ARR) + op.Constant(value=TP)

before = f.to_model_proto().SerializeToString()
ARR[0] = 100.0                                                       # in-place mutation after decoration
mid = f.to_model_proto().SerializeToString()
TP.raw_data = np.array([50.0, 60.0], dtype=np.float32).tobytes()
after = f.to_model_proto().SerializeToString()
print("ndarray mutated  -> proto changed:", before != mid)
print("TensorProto mutated -> proto changed:", mid != after)
assert before == mid == after
