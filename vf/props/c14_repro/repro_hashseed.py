"""C14: one script, six serializations. Run: python repro_hashseed.py"""
import os, subprocess, sys, tempfile, textwrap
SRC = textwrap.dedent('''
    import hashlib
    from onnxscript import script, opset18 as op
    from onnxscript.onnx_types import FLOAT, INT64

    @script(default_opset=op)
    def f(x: FLOAT[4], n: INT64) -> FLOAT[4]:
        if op.ReduceSum(x) > 0.0:
            alpha = x + 1.0
            beta = x * 2.0
        else:
            alpha = x - 1.0
            beta = x * 3.0
        acc = alpha
        run = beta
        for i in range(n):
            acc = acc + run
            run = run * 2.0
        return acc + run

    m = f.to_model_proto()
    n_if = [n for n in m.graph.node if n.op_type == "If"][0]
    n_loop = [n for n in m.graph.node if n.op_type == "Loop"][0]
    print(hashlib.sha256(m.SerializeToString()).hexdigest()[:12], list(n_if.output), list(n_loop.output))
''')
with tempfile.TemporaryDirectory() as d:
    p = os.path.join(d, "s.py")
    open(p, "w").write(SRC)
    outs = set()
    for seed in range(6):
        o = subprocess.run([sys.executable, "-W", "ignore", p], env={**os.environ, "PYTHONHASHSEED": str(seed)},
                           capture_output=True, text=True).stdout.strip()
        print("PYTHONHASHSEED", seed, o)
        outs.add(o)
print("distinct serializations:", len(outs))
assert len(outs) == 1, "same script, different ModelProto depending on the hash seed"
