"""C06 oracle: a relational specification of "the subgraph ending at node r is an instance of pattern P".

Written from docs/tutorial/rewriter/*.md and the docstrings of the pattern classes; it never imports
onnxscript.  It works on two plain-data structures produced by c06_gen:

pattern  {"nodes": {id: {"op", "dom": None|domain, "ins": [VP], "attrs": {name: ["c", v] | ["v", var, can_none]},
                         "oa": None|False, "oi": None|True, "outs": [name|None, ...]}},
          "outs": [["o", id, idx], ...], "inputs": [var names], "commute": bool}
   VP = None (absent input) | ["x", name, can_none] | ["k", value] | ["any"] | ["o", id, idx]
        | ["or", [VP, ...], name|None, tag_var|None, tag_values|None]
host     FlatHost: .nodes = [(name, op, ins [vid|None], attrs {name: value}, outs [vid], domain)] in graph order,
         .consts {vid: float | [ints]}, .gouts {vid}, .uses {vid: [node index]}, .prod {vid: (node index, out index)}

sols(p, h, root, swaps) enumerates ALL instances (every OR alternative, every graph node as candidate for a
further output node, the operand order of the node-patterns in ``swaps`` reversed).  A solution is
(bindings, node set, output values, maybe): ``maybe`` is set when the instance relies on a point where the
documentation and a plausible reading differ:
  * the host node has more outputs than the node-pattern lists (outputs_option.md says "exactly", the
    NodePattern docstring says the list only names outputs),
  * the host node has extra inputs that are all empty and the pattern does not allow other inputs
    (allow_other_inputs.md says "exactly the specified inputs"; ONNX says trailing empty inputs are omitted inputs),
  * ANY_VALUE against an absent input ("matches against any value": is an absent input a value?),
  * two node-patterns denote the same host node (the documentation does not say whether an instance must be
    injective on nodes).
"""
from __future__ import annotations

import itertools

REL_TOL, ABS_TOL = 1e-5, 1e-8          # Constant(value, rel_tol=1e-5, abs_tol=1e-8): the stated tolerance
COMMUTATIVE = ("Add",)                  # commute.md: "commutativity of addition and multiplication"


def close(a, b):
    return abs(a - b) <= max(REL_TOL * max(abs(a), abs(b)), ABS_TOL)


def const_agrees(pv, hv):
    """pattern constant pv (number or list) against host constant hv (number = rank 0, list = rank 1)."""
    if isinstance(pv, list):
        return isinstance(hv, list) and len(hv) == len(pv) and all(close(x, y) for x, y in zip(hv, pv))
    return not isinstance(hv, list) and close(hv, pv)


def _bind(bind, name, val):
    """A variable used twice binds one value.  Returns the extended dict or None."""
    if name in bind:
        return bind if bind[name] == val else None
    b = dict(bind)
    b[name] = val
    return b


class _M:
    def __init__(self, pat, host, swaps, first=False):
        # first=True is NOT the specification: it is the "first successful alternative is final" reading of
        # an OR, used only to label a disagreement (finding key), never to decide one.
        self.p, self.h, self.swaps, self.first = pat, host, swaps, first

    # env = (bind, nmap, maybe)
    def value(self, vp, v, env):
        bind, nmap, maybe = env
        if vp is None:
            if v is None:
                yield env
            return
        k = vp[0]
        if k == "any":
            yield (bind, nmap, maybe or v is None)
        elif k == "x":
            if v is None and not vp[2]:
                return
            b = _bind(bind, vp[1], v)
            if b is not None:
                yield (b, nmap, maybe)
        elif k == "k":
            if v is not None and v in self.h.consts and const_agrees(vp[1], self.h.consts[v]):
                yield env
        elif k == "o":
            if v is None or v not in self.h.prod:
                return
            n, idx = self.h.prod[v]
            if idx == vp[2]:
                yield from self.node(vp[1], n, env)
        elif k == "or":
            alts, name, tag, tagvals = vp[1], vp[2], vp[3], vp[4]
            if tagvals is None:
                tagvals = list(range(len(alts)))
            for i, alt in enumerate(alts):
                for (b, nm, mb) in self.value(alt, v, env):
                    if tag is not None:
                        b = _bind(b, tag, ("tag", tagvals[i]))
                    if b is not None and name is not None:
                        b = _bind(b, name, v)
                    if b is not None:
                        yield (b, nm, mb)
                    if self.first:
                        return
        else:
            raise AssertionError(vp)

    def node(self, pid, n, env):
        bind, nmap, maybe = env
        if pid in nmap:                       # one pattern node denotes one host node
            if nmap[pid] == n:
                yield env
            return
        pn = self.p["nodes"][pid]
        _, op, hins, hattrs, houts, dom = self.h.nodes[n]
        if op != pn["op"] or dom != (pn.get("dom") or ""):   # operator and domain agree
            return
        for name, ap in pn["attrs"].items():
            has = name in hattrs
            if ap[0] == "c":
                if not has or hattrs[name] != ap[1]:
                    return
            else:
                if not has and not ap[2]:
                    return
                bind = _bind(bind, ap[1], ("attr", hattrs[name]) if has else None)
                if bind is None:
                    return
        if pn["oa"] is False and any(a not in pn["attrs"] for a in hattrs):
            return
        pins = list(pn["ins"])
        if self.swaps.get(pid):
            pins.reverse()
        k, m = len(pins), len(hins)
        if m > k:
            if not pn["oi"]:
                if any(v is not None for v in hins[k:]) or self.first:   # (label mode: the stricter reading)
                    return
                maybe = True
            hins = hins[:k]
        else:
            hins = list(hins) + [None] * (k - m)   # omitted trailing inputs are absent inputs
        if len(pn["outs"]) > len(houts):
            return
        if len(pn["outs"]) < len(houts):
            maybe = True
        for i, name in enumerate(pn["outs"]):
            if name is not None:
                bind = _bind(bind, name, houts[i])
                if bind is None:
                    return
        nm = dict(nmap)
        nm[pid] = n
        envs = [(bind, nm, maybe)]
        for vp, v in zip(pins, hins):
            envs = [e2 for e in envs for e2 in self.value(vp, v, e)]
            if not envs:
                return
            if self.first:
                envs = envs[:1]
        yield from envs


def removable(host, nodes, outs):
    """No value computed by a matched node, other than the pattern's outputs, is a graph output or used
    by a node outside the match."""
    for n in nodes:
        for v in host.nodes[n][4]:
            if v in outs:
                continue
            if v in host.gouts or any(c not in nodes for c in host.uses.get(v, ())):
                return False
    return True


def sols(pat, host, root, swaps=None, first=False):
    """All instances of ``pat`` whose first output is computed by host node ``root``.

    -> list of (bindings dict, frozenset(node indices), [output vids], maybe)
    """
    m = _M(pat, host, swaps or {}, first)
    outs = pat["outs"]
    envs = list(m.node(outs[0][1], root, ({}, {}, False)))
    for o in outs[1:]:
        nxt = []
        for env in envs:
            if o[1] in env[1]:
                nxt.append(env)
            else:                                  # a further output node: any node of the graph
                for n in range(len(host.nodes)):
                    nxt.extend(m.node(o[1], n, env))
        envs = nxt
    res, seen = [], set()
    for bind, nmap, maybe in envs:
        b = dict(bind)
        for name in pat["inputs"]:                 # Pattern.match: unbound pattern inputs are bound to None
            b.setdefault(name, None)
        ovals = [host.nodes[nmap[o[1]]][4][o[2]] for o in outs]
        nodes = frozenset(nmap.values())
        maybe = maybe or len(nodes) < len(nmap)
        key = (tuple(sorted((k, repr(v)) for k, v in b.items())), nodes, tuple(ovals), maybe)
        if key not in seen:
            seen.add(key)
            res.append((b, nodes, ovals, maybe))
    return res


def swap_space(pat):
    """Every assignment operand-order -> {kept, reversed} for the commutative node-patterns."""
    ids = [i for i in sorted(pat["nodes"]) if pat["nodes"][i]["op"] in COMMUTATIVE and not pat["nodes"][i].get("dom")]
    return [dict(zip(ids, bits)) for bits in itertools.product([False, True], repeat=len(ids))]
