"""C18 - GraphBuilder / nn.Module graphs compute the trace; parameter names like PyTorch.

Part (a): bounded-exhaustive traces of OpBuilder calls in five families (general call sequences, literal pairs
aimed at the constant cache, output naming/scopes, control-flow subgraphs, function call vs inline); every
leaf runs the real GraphBuilder and is compared with a replay in which each recorded call is evaluated alone
by onnx.reference.  Part (b): bounded-exhaustive module trees built with onnxscript.nn and mirrored in torch.nn.
"""
from __future__ import annotations

import copy
import json
import re

import numpy as np

from vf import explore
from vf.props import c18_nn as N
from vf.props import c18_ops as O
from vf.props import c18_trace as T

ID = "C18"
LEVEL = "model_checking"
RULE = ("choice-tree enumeration (vf.explore) of (a) OpBuilder traces in 5 families: seq = 1..3 calls from a 45-entry "
        "typed op alphabet (op and attribute variant exhaustive, operand source deviation-bounded; operands = graph "
        "inputs | earlier results | literals {0,1,-3,2.5,-0.0,True,[..]} | None), lit = all ordered pairs/triples of "
        "literal uses x typed/untyped inputs, out = all explicit/default _outputs x scope combinations, sub = If/Loop/Scan "
        "bodies over outer values/literals, fn = call vs call_inline of 4 script and 4 build_function functions with "
        "attribute/prefix/_outputs variants; (b) module trees of depth<=3/4 over leaf/container/ModuleList/Sequential with "
        "build-order (ctor/append/extend/slice), named, 2-parameter, shared-instance and call-twice deviations.  A trace "
        "leaf is non-trivial when the builder produced a model that reached the replay comparison; a tree leaf when both "
        "onnxscript and the torch mirror built and ran.  distinct_nontrivial = distinct canonical trace / tree keys")
ASSUMPTIONS = [
    "onnx.reference evaluating one operator call at a time (cross-checked per call against ORT) defines what a call computes",
    "ONNX operator schemas (onnx.defs, opset 23) define type constraints and which operands share a type variable",
    "a Python literal operand denotes a constant of the element type of the first tensor operand bound to the same "
    "schema type variable, else bool/int64/float32 (tutorial 'Constant Promotion and Auto-Casting')",
    "torch.nn (2.14) Module/ModuleList/Sequential state_dict()/named_parameters() define PyTorch's names",
    "harness assembly a user must do anyway: ir.Model(graph, functions=builder.functions), graph outputs given "
    "type/shape where the builder inferred none, untyped graph inputs typed before serialisation",
]

V = lambda i: {"v": i}      # noqa: E731
L = lambda x: {"lit": x}    # noqa: E731


# =========================================================================================================
# Drivers, part (a)
# =========================================================================================================

def _feed_env():
    return {k: np.asarray(v) for k, v in T.FEEDS[0].items()}


def _kind(a):
    return {"f": "f", "i": "i", "u": "i", "b": "b"}[a.dtype.kind]


def _slot_menu(slot, order, env, rot=0):
    vals = [V(i) for i in order if _kind(env[i]) in slot["kinds"]]
    if vals:
        r = rot % len(vals)
        vals = vals[r:] + vals[:r]
    menu = vals + [L(x) for x in slot["lits"]]
    if slot["none"]:
        menu.append(None)
    return menu


def _try(calls, env):
    try:
        T.run_calls(calls, env, None, cross_check=False)
    except T.ReplayError:
        raise explore.Prune() from None


def _new_ids(call):
    n = call["id"]
    cnt = call["out"] if isinstance(call["out"], int) else len(call["out"])
    return [f"%{n}.{i}" for i in range(cnt)]


def _op_call(ch, p, entry, order, env, operand_cost=1, attr_cost=1):
    attrs = ch.choose(f"attrs{p}", entry["attrs"], cost=attr_cost) if len(entry["attrs"]) > 1 else entry["attrs"][0]
    args = []
    for j, slot in enumerate(entry["slots"]):
        menu = _slot_menu(slot, order, env, rot=j)
        if not menu:
            raise explore.Prune()
        args.append(ch.choose(f"arg{p}.{j}", menu, cost=operand_cost))
    while args and args[-1] is None:
        args.pop()
    return {"k": "op", "id": p, "op": entry["op"], "args": args, "attrs": attrs, "out": entry["nout"]}


def _drv_seq(length, menus):
    def driver(ch):
        env = _feed_env()
        order = ["x", "y", "k", "c"]
        calls = []
        for p in range(length):
            entry = ch.all(f"op{p}", menus[p])
            c = _op_call(ch, p, entry, order, env)
            _try([c], env)
            calls.append(c)
            order = _new_ids(c)[::-1] + order
            order = order[:6]
        typed = not ch.flag("untyped")
        return {"fam": "seq", "trace": {"typed": typed, "calls": calls}}
    return driver


# literal uses: (key, op, args with "$" = the literal, value operand id) - aimed at GraphBuilder._constant_cache
def _lit_uses():
    uses = []
    fl = [0, 1, -3, 2.5, -0.0, 0.0, 1.0]
    for l in fl:
        uses.append(("Add", [V("x"), L(l)], {}))
        uses.append(("Mul", [V("x"), L(l)], {}))
        uses.append(("Div", [V("y"), L(l)], {}))
        uses.append(("Div", [L(l), V("y")], {}))
    for l in [0, 1, -3]:
        uses.append(("Add", [V("k"), L(l)], {}))
        uses.append(("Mul", [L(l), V("k")], {}))
    uses.append(("Where", [L(True), V("x"), V("y")], {}))
    uses.append(("And", [V("c"), L(True)], {}))
    uses.append(("Equal", [V("k"), L(1)], {}))
    for l in [0, -0.0, 1]:
        uses.append(("Where", [V("c"), V("x"), L(l)], {}))
    uses.append(("Clip", [V("x"), L(0), L(1)], {}))
    uses.append(("Clip", [V("x"), L(-0.0), L(2.5)], {}))
    uses.append(("Reshape", [V("x"), L([3, 2])], {}))
    uses.append(("ReduceSum", [V("x"), L([1])], {"keepdims": 0}))
    uses.append(("Gather", [V("x"), L([1, 2])], {"axis": 1}))
    uses.append(("Gather", [V("x"), L(1)], {"axis": 1}))
    uses.append(("Unsqueeze", [V("k"), L([1, 2])], {}))
    uses.append(("Slice", [V("x"), L([0]), L([2]), L([1])], {}))
    uses.append(("Add", [V("k"), L([1, 2, 3])], {}))
    uses.append(("Add", [V("x"), L([1, 2, 3])], {}))
    uses.append(("Add", [V("x"), L([1.0, 2.0, 3.0])], {}))
    uses.append(("Div", [V("y"), L([1.0, -0.0, 2.0])], {}))
    uses.append(("Div", [V("y"), L([1.0, 0.0, 2.0])], {}))
    uses.append(("Pow", [V("x"), L(2)], {}))
    uses.append(("CumSum", [V("x"), L(1)], {}))
    uses.append(("Range", [L(0), L(3), L(1)], {}))
    uses.append(("Range", [L(-0.0), L(2.5), L(1.0)], {}))
    return [{"op": o, "args": a, "attrs": at} for o, a, at in uses]


LIT_USES = _lit_uses()
def _lit3_uses():
    """Scalar uses for triples: the values whose cache keys can collide (zeros, 1 / 1.0 / True) plus one bystander."""
    out = []
    for u in LIT_USES:
        lits = [a["lit"] for a in u["args"] if a and "lit" in a]
        if any(isinstance(l, list) for l in lits) or u["op"] not in ("Add", "Mul", "Div", "Where", "Equal", "And"):
            continue
        if all(l in (0, 1, True) for l in lits):     # 0 == 0.0 == -0.0, 1 == 1.0 == True for Python
            out.append(u)
    return out


LIT_SCALAR_USES = _lit3_uses()


def _drv_lit(length, pools):
    def driver(ch):
        calls = []
        for p in range(length):
            u = ch.all(f"use{p}", pools[p])
            calls.append({"k": "op", "id": p, "op": u["op"], "args": copy.deepcopy(u["args"]), "attrs": dict(u["attrs"]),
                          "out": 1})
        typed = ch.all("typed", [True, False])
        env = _feed_env()
        _try(calls, env)
        return {"fam": "lit", "trace": {"typed": typed, "calls": calls}}
    return driver


# output naming / scopes
_OUT_OPS = [
    {"op": "Add", "args": lambda prev: [V("x"), V(prev or "y")], "attrs": {}, "nout": 1},
    {"op": "Mul", "args": lambda prev: [V(prev or "x"), L(2.5)], "attrs": {}, "nout": 1},
    {"op": "Split", "args": lambda prev: [V("x"), L([1, 2])], "attrs": {"axis": 1}, "nout": 2},
]


def _drv_out(length, scopes=("", "L")):
    def driver(ch):
        calls = []
        prev = None
        nid = 0
        node_count = 0
        for p in range(length):
            o = ch.all(f"op{p}", _OUT_OPS)
            scope = ch.all(f"scope{p}", list(scopes))
            if o["nout"] == 1:
                # "auto" = the name the builder will give the NEXT node's output if it is an Add
                names = [1, ["a"], ["b"], ["L.a"], [f"Add_{node_count + 1}"], [f"Mul_{node_count + 1}"]]
            else:
                names = [2, ["a", "b"], ["a", "a"], [f"Add_{node_count + 1}", "b"]]
            out = ch.all(f"out{p}", names)
            parts = [x for x in scope.split("+") if x]
            for x in parts:
                calls.append({"k": "push", "name": x})
            calls.append({"k": "op", "id": nid, "op": o["op"], "args": o["args"](prev), "attrs": dict(o["attrs"]), "out": out})
            for _ in parts:
                calls.append({"k": "pop"})
            prev = f"%{nid}.0"
            nid += 1
            node_count += 1
        env = _feed_env()
        _try(calls, env)
        return {"fam": "out", "trace": {"typed": True, "calls": calls}}
    return driver


# subgraphs
_BODY_OPS = ["Add", "Mul", "Sub", "Neg"]


def _len(ch, label, max_body, exhaustive):
    menu = list(range(1, max_body + 1))
    return ch.all(label, menu) if exhaustive else ch.choose(label, menu)


def _body_calls(ch, tag, nid, length, locals_, outer, env, ops=None):
    """length calls over body-local values, outer values and literals.  Returns (calls, next id, last result)."""
    calls = []
    order = list(locals_)
    last = None
    for q in range(length):
        op = ch.all(f"{tag}.op{q}", ops or _BODY_OPS)
        first = [V(i) for i in order if env[i].dtype.kind == "f"]
        if not first:
            first = [V(i) for i in outer[:1]]
        a0 = ch.choose(f"{tag}.a{q}.0", first + [V(i) for i in outer if V(i) not in first])
        args = [a0]
        if op != "Neg":
            second = [V(i) for i in outer] + [L(1.0), L(2.5), L(0)] + [V(i) for i in order if env[i].dtype.kind == "f"]
            args.append(ch.choose(f"{tag}.a{q}.1", second))
        c = {"k": "op", "id": nid, "op": op, "args": args, "attrs": {}, "out": 1}
        _try([c], env)
        calls.append(c)
        last = f"%{nid}.0"
        order = [last] + order
        nid += 1
    return calls, nid, last


def _drv_sub(max_body, nested, len_exhaustive=True, ops=None):
    def driver(ch):
        return _sub_case(ch, max_body, nested, len_exhaustive, ops)
    return driver


def _sub_case(ch, max_body, nested, len_exhaustive, body_ops):
    env = _feed_env()
    calls = []
    nid = 0
    pre = ch.all("pre", ["none", "Add", "Mul"])
    outer = ["x", "y"]
    if pre != "none":
        c = {"k": "op", "id": nid, "op": pre, "args": [V("x"), L(1.0) if pre == "Add" else V("y")], "attrs": {}, "out": 1}
        _try([c], env)
        calls.append(c)
        outer = [f"%{nid}.0"] + outer
        nid += 1
    kind = ch.all("kind", ["if", "loop", "scan"] + (["loop-if"] if nested else []))
    cid = nid
    nid += 1
    if kind == "if":
        cond = ch.choose("cond", [V("c"), L(True)])
        branches = []
        for tag in ("then", "else"):
            n = _len(ch, f"{tag}.len", max_body, len_exhaustive)
            bc, nid, last = _body_calls(ch, tag, nid, n, [], outer, env, body_ops)
            ret = ch.choose(f"{tag}.ret", [V(last), V(outer[0])])
            branches.append({"calls": bc, "ret": [ret]})
        c = {"k": "if", "id": cid, "cond": cond, "then": branches[0], "else": branches[1]}
    elif kind in ("loop", "loop-if"):
        trip = ch.choose("trip", [L(3), L(1)])
        init = ch.choose("init", [V(outer[-1]), V(outer[0])])
        env[f"%{cid}.s0"] = T._need_array(env, init)
        env[f"%{cid}.it"] = np.array(0, np.int64)
        env[f"%{cid}.c"] = np.array(True)
        n = _len(ch, "body.len", max_body, len_exhaustive)
        bc, nid, last = _body_calls(ch, "body", nid, n, [f"%{cid}.s0"], outer, env, body_ops)
        if kind == "loop-if":
            # an If nested in the loop body, deciding on the iteration number
            tcid = nid
            lt = {"k": "op", "id": nid, "op": "Less", "args": [V(f"%{cid}.it"), L(1)], "attrs": {}, "out": 1}
            nid += 1
            icid = nid
            nid += 1
            tb, nid, tl = _body_calls(ch, "nthen", nid, 1, [last], outer, env)
            eb, nid, el = _body_calls(ch, "nelse", nid, 1, [last], outer, env)
            inner = {"k": "if", "id": icid, "cond": V(f"%{tcid}.0"), "then": {"calls": tb, "ret": [V(tl)]},
                     "else": {"calls": eb, "ret": [V(el)]}}
            bc = bc + [lt, inner]
            last = f"%{icid}.0"
        scan = ch.choose("scanout", ["same", "none", "other"])
        ret_scan = {"same": [V(last)], "none": [], "other": [V(bc[0]["args"][0]["v"])]}[scan]
        c = {"k": "loop", "id": cid, "trip": trip, "init": [init],
             "body": {"calls": bc, "ret_cond": V(f"%{cid}.c"), "ret_state": [V(last)], "ret_scan": ret_scan}}
    else:
        # Scan: state = column sums of y ([3]); scanned over the rows of x
        st = {"k": "op", "id": cid, "op": "ReduceSum", "args": [V("y"), L([0])], "attrs": {"keepdims": 0}, "out": 1}
        _try([st], env)
        calls.append(st)
        sid = nid
        nid += 1
        env[f"%{sid}.s0"] = env[f"%{cid}.0"]
        env[f"%{sid}.e0"] = env["x"][0]
        outer_s = [o for o in outer if o not in ("x", "y")] + [f"%{cid}.0"]
        n = _len(ch, "body.len", max_body, len_exhaustive)
        bc, nid, last = _body_calls(ch, "body", nid, n, [f"%{sid}.s0", f"%{sid}.e0"], outer_s or [f"%{cid}.0"], env, body_ops)
        scan = ch.choose("scanout", ["same", "elem"])
        ret_scan = [V(last)] if scan == "same" else [V(f"%{sid}.e0")]
        c = {"k": "scan", "id": sid, "init": [V(f"%{cid}.0")], "xs": [V("x")],
             "body": {"calls": bc, "ret_state": [V(last)], "ret_scan": ret_scan}}
        cid = sid
    c["decl_typed"] = not ch.flag("decl-untyped")
    calls.append(c)
    if ch.all("post", [False, True]):
        calls.append({"k": "op", "id": nid, "op": "Add", "args": [V(f"%{cid}.0"), L(1.0)], "attrs": {}, "out": 1})
        nid += 1
    typed = not ch.flag("untyped")
    tr = {"typed": typed, "calls": calls}
    try:
        T.replay(tr, T.FEEDS[0], cross_check=False)
    except T.ReplayError:
        raise explore.Prune() from None
    return {"fam": "sub", "trace": tr}


def _drv_sublit():
    """The same Python literal against the same outer value in sibling scopes and in the enclosing graph: every
    combination of {Add, Mul} x literal in the then-body, the else-body (or a Loop body) and a later outer call, with
    typed and untyped graph inputs (an untyped operand sends the promoted literal through a dynamic CastLike)."""
    lits = [L(1.0), L(2.5), L(0)]

    def driver(ch):
        env = _feed_env()
        nid = 0
        kind = ch.all("kind", ["if", "loop"])
        cid = nid
        nid += 1

        def body(tag, first):
            nonlocal nid
            op = ch.all(f"{tag}.op", ["Add", "Mul"])
            lit = ch.all(f"{tag}.lit", lits)
            c = {"k": "op", "id": nid, "op": op, "args": [first, lit], "attrs": {}, "out": 1}
            _try([c], env)
            nid += 1
            return c, f"%{c['id']}.0"

        if kind == "if":
            tb, tl = body("then", V("x"))
            eb, el = body("else", V("x"))
            c = {"k": "if", "id": cid, "cond": V("c"), "then": {"calls": [tb], "ret": [V(tl)]},
                 "else": {"calls": [eb], "ret": [V(el)]}}
        else:
            env[f"%{cid}.s0"] = T._need_array(env, V("y"))
            env[f"%{cid}.it"] = np.array(0, np.int64)
            env[f"%{cid}.c"] = np.array(True)
            b1, l1 = body("body", V("x"))
            b2 = {"k": "op", "id": nid, "op": "Add", "args": [V(f"%{cid}.s0"), V(l1)], "attrs": {}, "out": 1}
            _try([b2], env)
            nid += 1
            c = {"k": "loop", "id": cid, "trip": L(2), "init": [V("y")],
                 "body": {"calls": [b1, b2], "ret_cond": V(f"%{cid}.c"), "ret_state": [V(f"%{b2['id']}.0")], "ret_scan": []}}
        c["decl_typed"] = True
        calls = [c]
        when = ch.all("outer-use", ["after", "before", "none"])
        if when != "none":
            op = ch.all("outer.op", ["Add", "Mul"])
            lit = ch.all("outer.lit", lits)
            o = {"k": "op", "id": nid, "op": op, "args": [V("x"), lit], "attrs": {}, "out": 1}
            nid += 1
            calls = [o] + calls if when == "before" else calls + [o]
            calls.append({"k": "op", "id": nid, "op": "Sub", "args": [V(f"%{cid}.0"), V(f"%{o['id']}.0")], "attrs": {}, "out": 1})
            nid += 1
        tr = {"typed": ch.all("typed", [True, False]), "calls": calls}
        try:
            T.replay(tr, T.FEEDS[0], cross_check=False)
        except T.ReplayError:
            raise explore.Prune() from None
        return {"fam": "sub", "trace": tr}
    return driver


# functions
_FN_ATTRS = {
    "leaky": [({}, "py"), ({"alpha": 0.5}, "py"), ({"alpha": 0.5}, "obj")],
    "addmul": [({}, "py")],
    "softax": [({"axis": 0}, "py"), ({"axis": 0}, "obj")],
    "cumax": [({}, "py"), ({"axis": 1}, "obj"), ({"keep": 1}, "obj"), ({"axis": 1, "keep": 1}, "py")],
    "scale2": [({}, "py")],
}


def _fn_call(ch, tag, nid, prevs, full):
    from vf.props import c18_fns
    fn = ch.all(f"{tag}.fn", sorted(c18_fns.SPEC))
    impl = ch.all(f"{tag}.impl", ["script", "ir"])
    attrs, style = ch.all(f"{tag}.attrs", _FN_ATTRS[fn])
    spec = c18_fns.SPEC[fn]
    args = []
    for j, _ in enumerate(spec["params"]):
        menu = [V(i) for i in prevs] + [L(2.0)]
        r = j % len(prevs)
        menu = menu[r:len(prevs)] + menu[:r] + menu[len(prevs):]
        args.append(ch.choose(f"{tag}.arg{j}", menu))
    prefix = ch.choose(f"{tag}.prefix", ["", "blk"])
    nret = len(spec["ret"])
    outs = [None, [f"o{nid}_{i}" for i in range(nret)], ["t"] * nret if nret == 1 else ["t", "u"], ["t"] * nret]
    out = ch.choose(f"{tag}.out", outs[: (4 if nret > 1 else 3)])
    return {"k": "fn", "id": nid, "fn": fn, "impl": impl, "args": args, "attrs": dict(attrs), "attr_style": style,
            "prefix": prefix, "out": out}


def _drv_fn(two_exhaustive):
    def driver(ch):
        env = _feed_env()
        calls = []
        nid = 0
        pre = ch.all("pre", ["none", "LeakyRelu", "Add", "AddT"])
        prevs = ["x", "y"]
        if pre != "none":
            if pre == "LeakyRelu":
                c = {"k": "op", "id": nid, "op": "LeakyRelu", "args": [V("x")], "attrs": {"alpha": 0.5}, "out": 1}
            elif pre == "Add":
                c = {"k": "op", "id": nid, "op": "Add", "args": [V("x"), L(1.0)], "attrs": {}, "out": 1}
            else:
                c = {"k": "op", "id": nid, "op": "Add", "args": [V("x"), L(2.0)], "attrs": {}, "out": ["t"]}
            calls.append(c)
            prevs = [f"%{nid}.0"] + prevs
            nid += 1
        scoped = ch.flag("scoped")
        if scoped:
            calls.append({"k": "push", "name": "L"})
        f1 = _fn_call(ch, "f1", nid, prevs, True)
        calls.append(f1)
        prevs = [f"%{nid}.0"] + prevs
        nid += 1
        second = ch.all("second", [False, True]) if two_exhaustive else ch.flag("second")
        if second:
            f2 = _fn_call(ch, "f2", nid, prevs, False)
            calls.append(f2)
            prevs = [f"%{nid}.0"] + prevs
            nid += 1
        if scoped:
            calls.append({"k": "pop"})
        if ch.flag("post"):
            calls.append({"k": "op", "id": nid, "op": "Mul", "args": [V(prevs[0]), L(1.0)], "attrs": {}, "out": 1})
        typed = not ch.flag("untyped")
        tr = {"typed": typed, "calls": calls}
        try:
            T.replay(tr, T.FEEDS[0], cross_check=False)
        except T.ReplayError:
            raise explore.Prune() from None
        return {"fam": "fn", "trace": tr}
    return driver


# =========================================================================================================
# Driver, part (b)
# =========================================================================================================

def _drv_tree(depth, full_fanout_budget, chain=False):
    """chain=True: single-child chains only (nk=1) but the build order `how` of every list is exhaustive: reaches
    nested ModuleList/Sequential of the full depth cheaply (quick tier)."""
    def node(ch, budget, path, is_root, key_kind):
        kinds = ["leaf"] if budget == 1 else ["leaf", "cont", "list", "seq"]
        if is_root:
            kinds = ["cont", "seq", "leaf"] if budget > 1 else ["leaf"]
        kind = ch.all(f"kind@{path}", kinds)
        if kind == "leaf":
            s = {"t": "leaf", "np": 2 if ch.flag(f"np2@{path}") else 1}
            # an explicit name equal to the name the module inherits anyway (attribute name / Sequential key)
            s["named"] = ch.flag(f"named@{path}") if key_kind in ("attr", "seq", "root") else False
            if not is_root:
                # forward() raises (before / after realising its first parameter); the caller catches and goes on
                r = ch.choose(f"raise@{path}", [None, "pre", "post"])
                if r:
                    s["raise"] = r
            return s
        if chain:
            nk = 1 if budget > 2 else ch.all(f"nk@{path}", [1, 2])
        elif budget <= full_fanout_budget:
            nk = ch.all(f"nk@{path}", [1, 2])
        else:
            nk = 2 if ch.flag(f"nk2@{path}") else 1
        kids = []
        for i in range(nk):
            sub_budget = budget - 1
            if budget > full_fanout_budget and i == 1:
                sub_budget = min(sub_budget, 2)
            kk = {"cont": "attr", "list": "list", "seq": "seq"}[kind]
            kids.append(node(ch, sub_budget, f"{path}.{i}", False, kk))
        if kind == "cont":
            return {"t": "cont", "kids": kids, "named": ch.flag(f"named@{path}") if key_kind in ("attr", "seq", "root") else False}
        hows = ["ctor", "append", "extend"] if is_root else ["ctor", "append", "append_pre", "extend", "slice"]
        return {"t": kind, "kids": kids, "how": (ch.all if chain else ch.choose)(f"how@{path}", hows)}

    def driver(ch):
        spec = node(ch, depth, "r", True, "root")
        N.number(spec)
        # shared instance: node j becomes a reference to an earlier, non-ancestor node i
        nodes = []
        _walk(spec, [], nodes)
        pairs = [None]
        for (j, anc_j, sj) in nodes:
            for (i, anc_i, si) in nodes:
                if i < j and i not in anc_j and j != 0 and i != 0 and _ends_before(si, j):
                    pairs.append([i, j])
        share = ch.choose("share", pairs)
        if share:
            _replace(spec, share[1], {"t": "ref", "to": share[0], "id": share[1]})
        twice = ch.flag("twice")
        root_named = ch.all("rootname", [True, False]) if spec["t"] in ("leaf", "cont") else False
        return {"fam": "tree", "spec": spec, "twice": twice, "root_named": root_named}
    return driver


def _depth(s):
    return 1 + max([_depth(k) for k in s.get("kids", [])] or [0])


def _walk(s, anc, out):
    out.append((s["id"], set(anc), s))
    for k in s.get("kids", []):
        _walk(k, anc + [s["id"]], out)


def _ends_before(s, j):
    """all ids of subtree s are < j (so it is fully constructed before j in every build order)"""
    return max(i for (i, _, _) in _collect(s)) < j


def _collect(s):
    out = []
    _walk(s, [], out)
    return out


def _replace(s, target, new):
    for idx, k in enumerate(s.get("kids", [])):
        if k["id"] == target:
            s["kids"][idx] = new
            return True
        if _replace(k, target, new):
            return True
    return False


# =========================================================================================================
# plan
# =========================================================================================================

def _explorations(tier):
    full, core = O.OPS, O.CORE
    if tier == "quick":
        return [
            ("seq1", _drv_seq(1, [full]), 2),
            ("seq2", _drv_seq(2, [core, full]), 1),
            ("lit2", _drv_lit(2, [LIT_USES, LIT_USES]), 0),
            ("out2", _drv_out(2, ("", "L", "L+M", "K+M")), 0),
            ("sub", _drv_sub(2, False, len_exhaustive=False), 1),
            ("sublit", _drv_sublit(), 0),
            ("fn", _drv_fn(False), 1),
            ("tree", _drv_tree(3, 3), 1),
            ("tree", _drv_tree(4, 3, chain=True), 1),
        ]
    return [
        ("seq1", _drv_seq(1, [full]), 4),
        ("seq2", _drv_seq(2, [full, full]), 1),
        ("seq2c", _drv_seq(2, [core, core]), 2),
        ("seq3", _drv_seq(3, [core, core, full]), 0),
        ("seq3c", _drv_seq(3, [core, core, core]), 1),
        ("lit2", _drv_lit(2, [LIT_USES, LIT_USES]), 0),
        ("lit3", _drv_lit(3, [LIT_SCALAR_USES, LIT_SCALAR_USES, LIT_SCALAR_USES]), 0),
        ("out2", _drv_out(2, ("", "L", "L+M", "K+M")), 0),
        ("out3", _drv_out(3), 0),
        ("sub", _drv_sub(2, True, len_exhaustive=False), 1),
        ("subx", _drv_sub(2, True, ops=["Add", "Mul", "Neg"]), 1),
        ("sublit", _drv_sublit(), 0),
        ("fn", _drv_fn(False), 2),
        ("tree", _drv_tree(4, 3), 2),
    ]


def plan(tier, seed):
    items = []
    total = dict(states=0, transitions=0, leaves=0, pruned=0, capped=False, bound={})
    dims = {}
    per = {}
    seen = set()
    dup = 0
    for name, drv, bound in _explorations(tier):
        st = explore.Stats()
        n0 = len(items)
        for picks, case in explore.explore(drv, bound=bound, stats=st):
            key = json.dumps(case, sort_keys=True)
            if key in seen:        # the same case reached through two explorations (seq2 / seq2c)
                dup += 1
                continue
            seen.add(key)
            case["x"] = name
            items.append(case)
        d = st.as_dict()
        for k in ("states", "transitions", "leaves", "pruned"):
            total[k] += d[k]
        total["capped"] = total["capped"] or d["capped"]
        total["bound"][name] = bound
        per[name] = {"leaves": d["leaves"], "pruned": d["pruned"], "states": d["states"], "bound": bound,
                     "items": len(items) - n0}
        for k, v in st.dim_hist.items():
            kk = re.sub(r"\d+", "#", k)
            dims[f"{name}:{kk}"] = max(dims.get(f"{name}:{kk}", 0), len(v))
    # cross-opset histories (vf/props/c18_xopset.py): one item per operator with >= 2 schema versions
    from . import c18_xopset
    xi = c18_xopset.plan_items()
    items.extend(xi)
    nh = sum(len(it["pairs"]) * 2 + sum(2 for p in it["pairs"] if p[2]) for it in xi)
    per["xopset"] = {"leaves": nh, "pruned": 0, "states": nh + len(xi), "bound": 0, "items": len(xi)}
    total["states"] += nh + len(xi)
    total["transitions"] += nh
    total["leaves"] += nh
    total["bound"]["xopset"] = 0
    total["bound"] = max(total["bound"].values())
    total["exhaustive"] = not total["capped"]
    total["dimensions"] = dims
    total["explorations"] = per
    total["duplicate_cases_dropped"] = dup
    return items, total


# =========================================================================================================
# execute
# =========================================================================================================

def worker_init(arg):
    import warnings
    warnings.filterwarnings("ignore")


def _exec_xopset(item):
    from . import c18_xopset
    recs = c18_xopset.execute(item)
    viols = []
    for r in recs:
        if r["status"] == "viol":
            cls = "moved-name" if r.get("moved") else "same-split"
            viols.append({"key": f"C18|xopset|{r['why']}|{cls}", "detail": {"show": r["show"]}})
    n_ok = sum(1 for r in recs if r["status"] == "ok")
    return {"status": "viol" if viols else ("ok" if n_ok else "skip"), "skip": "no-call-form", "viols": viols,
            "outcome": "xopset:" + ("differs" if viols else ("same-as-fresh" if n_ok else "no-call-form")),
            "nontrivial": n_ok > 0, "nkey": [f"xopset|{item['op']}|{r['hist']}" for r in recs if r["status"] != "skip"],
            "show": "; ".join(r["show"] for r in recs[:2]), "counts": {"xopset_histories": len(recs),
                                                                     "extra_evaluations": max(len(recs) - 1, 0)}}


def execute(item):
    if item["fam"] == "xopset":
        return _exec_xopset(item)
    if item["fam"] == "tree":
        return _exec_tree(item)
    return _exec_trace(item)


# ------------------------------------------------------------------------------------------ traces

def _render(trace):
    def opnd(o):
        if o is None:
            return "None"
        return o["v"] if "v" in o else repr(o["lit"])

    def calls(cs, ind):
        out = []
        for c in cs:
            k = c["k"]
            if k == "push":
                out.append(f"{ind}push({c['name']})")
            elif k == "pop":
                out.append(f"{ind}pop()")
            elif k == "op":
                at = "".join(f", {a}={v}" for a, v in c["attrs"].items())
                o = "" if c["out"] == 1 else f", _outputs={c['out']}"
                out.append(f"{ind}%{c['id']} = op.{c['op']}({', '.join(opnd(a) for a in c['args'])}{at}{o})")
            elif k == "if":
                out.append(f"{ind}%{c['id']} = op.If({opnd(c['cond'])}) then:")
                out += calls(c["then"]["calls"], ind + "  ") + [f"{ind}  ret {opnd(c['then']['ret'][0])}", f"{ind}else:"]
                out += calls(c["else"]["calls"], ind + "  ") + [f"{ind}  ret {opnd(c['else']['ret'][0])}"]
            elif k in ("loop", "scan"):
                hd = f"trip={opnd(c['trip'])}, " if k == "loop" else f"xs={[opnd(o) for o in c['xs']]}, "
                out.append(f"{ind}%{c['id']} = op.{k.title()}({hd}init={[opnd(o) for o in c['init']]}) body:")
                out += calls(c["body"]["calls"], ind + "  ")
                out.append(f"{ind}  ret state={[opnd(o) for o in c['body']['ret_state']]} scan={[opnd(o) for o in c['body']['ret_scan']]}")
            else:
                out.append(f"{ind}%{c['id']} = op.call|call_inline({c['impl']}:{c['fn']}, {', '.join(opnd(a) for a in c['args'])}, "
                           f"attrs={c['attrs']}/{c['attr_style']}, _prefix={c['prefix']!r}, _outputs={c['out']})")
        return out
    return ("typed" if trace.get("typed", True) else "untyped") + " inputs\n" + "\n".join(calls(trace["calls"], ""))


def _all_calls(calls):
    for c in calls:
        yield c
        if c["k"] == "if":
            yield from _all_calls(c["then"]["calls"])
            yield from _all_calls(c["else"]["calls"])
        elif c["k"] in ("loop", "scan"):
            yield from _all_calls(c["body"]["calls"])


def _literals(trace):
    out = []
    for c in _all_calls(trace["calls"]):
        for key in ("args", "init", "xs"):
            for a in c.get(key, []) or []:
                if a and "lit" in a:
                    out.append(a["lit"])
        for key in ("cond", "trip"):
            a = c.get(key)
            if a and "lit" in a:
                out.append(a["lit"])
    return out


def _alias_pairs(lits):
    """Literals that compare equal in Python (== and hash) but denote different constants."""
    def canon(v):
        if isinstance(v, list):
            return ("list",) + tuple(canon(x) for x in v)
        if isinstance(v, bool):
            return ("bool", v)
        if isinstance(v, float):
            return ("num", v, np.signbit(v).item())
        return ("num", float(v), False)
    out = set()
    for i, a in enumerate(lits):
        for b in lits[i + 1:]:
            ka = tuple(a) if isinstance(a, list) else a
            kb = tuple(b) if isinstance(b, list) else b
            try:
                eq = ka == kb
            except Exception:  # noqa: BLE001
                eq = False
            if eq and canon(a) != canon(b):
                fa = [abs(x) for x in (a if isinstance(a, list) else [a])]
                fb = [abs(x) for x in (b if isinstance(b, list) else [b])]
                if canon(fa) == canon(fb) and not any(isinstance(x, bool) for x in fa + fb):
                    out.add("signed-zero")          # differ only in the sign of a zero
                else:
                    out.add("~".join(sorted([repr(a), repr(b)])))
    return sorted(out)


def _explicit_names(trace):
    out = []
    for c in _all_calls(trace["calls"]):
        o = c.get("out")
        if isinstance(o, list):
            out += o
    return out


def _explicit_qualified(trace):
    """Explicit output names with the scope they were given in: the qualified name the tutorial promises
    ("v_" + dotted scope + name).  Only top-level calls carry scopes in the alphabets."""
    out, scope = [], []
    for c in trace["calls"]:
        if c["k"] == "push":
            scope.append(c["name"])
        elif c["k"] == "pop":
            scope.pop()
        elif isinstance(c.get("out"), list):
            out += ["v_" + ".".join(scope + [n]) for n in c["out"]]
    return out


def _has(trace, kinds):
    return any(c["k"] in kinds for c in _all_calls(trace["calls"]))


def _name_class(trace, name, where):
    """Feature class of a duplicated value name."""
    base = name[2:] if name.startswith("v_") else name
    last = base.split(".")[-1]
    exp = _explicit_names(trace)
    if base in exp or last in exp or any(base.endswith(e) for e in exp):
        q = _explicit_qualified(trace)
        if len(set(q)) != len(q):
            return "explicit-output-name-reused"          # the caller asked for one qualified name twice
        if sum(1 for e in exp if e.split(".")[-1] == last) >= 2:
            return "distinct-scoped-explicit-names-collide"      # different scopes/names, one emitted name
        return "auto-name-equals-explicit-output-name"
    if where.startswith("graph/") or _has(trace, ("if", "loop", "scan")):
        # auto-generated names count nodes per graph, so every subgraph restarts at <Op>_0: an inner name equals
        # an outer one (checker: not SSA), a sibling's, or one the outer graph defines later
        return "subgraph-auto-names-restart"
    if _has(trace, ("fn",)):
        return "function-call-names"
    return "auto-names"


_RE_SSA = re.compile(r"'([^']+)' has been used as output names multiple times")
_RE_WF_DUP = re.compile(r"^(\S+): value '([^']+)' defined more than once")


def _check_model(trace, b, exp, viols, counts, tag):
    """All oracles on one built model.  Appends to viols; returns outcome string."""
    import onnx
    from vf import runeq, wf
    m = b["model"]
    add = lambda kind, cls, detail: viols.append(  # noqa: E731
        {"key": f"C18|trace|{kind}|{cls}", "detail": dict(detail, variant=tag)})
    if b["notes"]["scope_left"]:
        add("scope-leak", "push-pop-unbalanced", {"left": b["notes"]["scope_left"]})
    if b["notes"]["missing_function_imports"]:
        add("invalid-model", "call:function-domain-not-in-opset-imports",
            {"domains": b["notes"]["missing_function_imports"],
             "what": "op.call() registers the function but graph.opset_imports lacks its domain; the model "
                     "ir.Model(graph, functions=builder.functions) is rejected by checker and ORT"})
    bad_names = False
    # 1. independent well-formedness (names unique, defined before use, scopes)
    probs = wf.check_model(m, unique_node_names=True)
    same_value_twice = _returns_same_value_twice(trace)
    has_dup_value = any(_RE_WF_DUP.match(p) for p in probs)
    for p in probs:
        mm = _RE_WF_DUP.match(p)
        if mm:
            bad_names = True
            add_names = _name_class(trace, mm.group(2), mm.group(1))
            viols.append({"key": f"C18|names|dup-value|{add_names}", "detail": {"problem": p, "variant": tag}})
        elif "duplicate node names" in p:
            bad_names = True
            viols.append({"key": f"C18|names|dup-node|{'function-call' if _has(trace, ('fn',)) else 'ops'}",
                          "detail": {"problem": p, "variant": tag}})
        elif "duplicate graph output names" in p and same_value_twice and "/" in p.split(":")[0]:
            bad_names = True
            add("invalid-model", "subgraph-output-listed-twice",
                {"problem": p, "what": "the body returns one value for two outputs; build_graph renames it twice and "
                                       "lists it twice (ORT computes garbage for Scan)"})
        elif "duplicate graph output names" in p and has_dup_value:
            pass        # consequence of the duplicated value name already reported
        else:
            bad_names = True
            add("invalid-model", "wf:" + re.sub(r"'[^']*'|#\d+|\d+", "_", p.split(": ", 1)[-1])[:60], {"problem": p})
    # 2. onnx.checker
    try:
        onnx.checker.check_model(m, full_check=True)
        checker_ok = True
    except Exception as e:  # noqa: BLE001
        checker_ok = False
        msg = str(e)
        mm = _RE_SSA.search(msg)
        if mm:
            if not bad_names:
                viols.append({"key": f"C18|names|dup-value|{_name_class(trace, mm.group(1), 'checker')}",
                              "detail": {"problem": msg[:300], "variant": tag}})
        elif _inline_omits_default(trace, tag):
            # the harness typed an output the builder left untyped with the shape the trace means; the inlined
            # body, having lost the attribute, produces another one
            add("not-equal", "inline-ignores-attribute-default", {"problem": msg[:400]})
        else:
            add("invalid-model", "checker:" + re.sub(r"'[^']*'|\"[^\"]*\"|\d+", "_", msg.strip().split("\n")[0])[:70],
                {"problem": msg[:400]})
    # 3. execution == replay
    outcome = "checked"
    for fi, feeds in enumerate(T.FEEDS):
        want = [exp[fi][i] for i in b["out_ids"]]
        try:
            got = runeq.run_ort(m, feeds)
        except runeq.RunError as e:
            if viols:
                return "invalid"
            if exp[fi].get("__unsettled__"):
                # ORT already refused one of the calls on its own (one-node model): nothing is concluded
                counts["ort_refuses_a_call_of_the_trace"] = counts.get("ort_refuses_a_call_of_the_trace", 0) + 1
                return "ort-refuses-unsettled"
            # every single call ran on ORT in the replay, so a model ORT cannot load/run is not a valid model
            if _returns_outer(trace):
                add("invalid-model", "subgraph-returns-outer-value", {"problem": e.msg[:400],
                    "what": "build_graph renames the returned value although it belongs to the enclosing graph"})
                return "not-runnable"
            add("invalid-model", f"ort-{e.kind}:" + re.sub(r"'[^']*'|\"[^\"]*\"|\d+", "_", e.msg)[:70], {"problem": e.msg[:400]})
            return "not-runnable"
        if exp[fi].get("__unsettled__"):
            outcome = "ran-unsettled"
            continue
        b.setdefault("ran", []).append(got)
        d = runeq.compare(got, want)
        if d and same_value_twice:
            add("invalid-model", "subgraph-output-listed-twice", {"diff": d, "feed": fi})
            return "not-equal"
        if d:
            # DESIGN 2.3: when ORT and the reference evaluator disagree on the built model itself, what the
            # model computes is not settled by the two runtimes - nothing is concluded
            try:
                ref = runeq.run_ref(m, feeds)
                if runeq.compare(ref, want) is None:
                    counts["runtimes_disagree_on_built_model"] = counts.get("runtimes_disagree_on_built_model", 0) + 1
                    return "runtimes-disagree"
            except Exception:  # noqa: BLE001
                pass
            add("not-equal", _neq_class(trace, tag), {"diff": d, "feed": fi, "got": runeq.describe(got), "want": runeq.describe(want)})
            return "not-equal"
        outcome = "equal"
    b["outs"] = True
    return outcome


def _returns_same_value_twice(trace):
    for c in _all_calls(trace["calls"]):
        if c["k"] in ("loop", "scan"):
            r = [json.dumps(o) for o in ([c["body"].get("ret_cond")] if c["k"] == "loop" else []) + c["body"]["ret_state"] + c["body"]["ret_scan"]]
            if len(set(r)) != len(r):
                return True
    return False


def _returns_outer(trace):
    """Does some body return a value it did not compute (outer value or its own formal input)?"""
    for c in _all_calls(trace["calls"]):
        bodies = [c["then"], c["else"]] if c["k"] == "if" else [c["body"]] if c["k"] in ("loop", "scan") else []
        for b in bodies:
            own = {f"%{x['id']}.{i}" for x in b["calls"] if "id" in x for i in range(4)}
            rets = b.get("ret", []) + b.get("ret_state", []) + b.get("ret_scan", [])
            if any(r and r.get("v") not in own and not re.search(r"\.(c|it|s\d|e\d)$", r.get("v", "")) for r in rets):
                return True
    return False


def _inline_omits_default(trace, tag):
    from vf.props import c18_fns
    if "inline" not in tag:
        return False
    for c in _all_calls(trace["calls"]):
        if c["k"] == "fn":
            spec = c18_fns.SPEC[c["fn"]]
            if any(d["default"] is not None and a not in c["attrs"] for a, d in spec["attrs"].items()):
                return True
    return False


def _neq_class(trace, tag):
    al = _alias_pairs(_literals(trace))
    if al:
        return "constant-cache-aliases:" + al[0]
    fns = [c for c in _all_calls(trace["calls"]) if c["k"] == "fn"]
    if _inline_omits_default(trace, tag):
        return "inline-ignores-attribute-default"
    if fns and "inline" in tag:
        return "inline"
    if fns:
        return "call"
    if _has(trace, ("if", "loop", "scan")):
        return "subgraph" + (":returns-outer-value" if _returns_outer(trace) else "")
    ops = [c["op"] for c in trace["calls"] if c["k"] == "op"]
    return "ops:" + (ops[-1] if ops else "?")


def _variants(trace):
    fns = [c["id"] for c in trace["calls"] if c["k"] == "fn"]
    if not fns:
        return [("plain", {})]
    if len(fns) == 1:
        return [("call", {fns[0]: "call"}), ("inline", {fns[0]: "inline"})]
    a, b = fns[:2]
    return [("call+call", {a: "call", b: "call"}), ("inline+inline", {a: "inline", b: "inline"}),
            ("call+inline", {a: "call", b: "inline"}), ("inline+call", {a: "inline", b: "call"})]


def _exec_trace(item):
    from vf import runeq
    trace = item["trace"]
    counts = {}
    show = _render(trace)
    nkey = item["fam"] + "|" + json.dumps(trace, sort_keys=True)
    # oracle first: what does the trace mean
    exp = []
    unsettled = None
    for feeds in T.FEEDS:
        try:
            exp.append(T.replay(trace, feeds, cross_check=True))
        except T.Unsettled as e:
            unsettled = str(e)
            try:
                env = T.replay(trace, feeds, cross_check=False)
            except T.ReplayError as e2:
                return {"status": "skip", "skip": "replay-error", "outcome": "skip:replay-error", "show": show + f"\n{e2}"}
            env["__unsettled__"] = True
            exp.append(env)
        except T.ReplayError as e:
            return {"status": "skip", "skip": "replay-error", "outcome": "skip:replay-error", "show": show + f"\n{e}"}
    if unsettled:
        counts["oracle_unsettled"] = 1
    viols = []
    outcomes = []
    built = {}
    for tag, modes in _variants(trace):
        try:
            b = T.build(trace, exp[0], lambda c, _m=modes: _m.get(c["id"], "call"))
        except T.Refused as e:
            outcomes.append(f"{tag}:refused[{e.exc_type}]")
            counts["refused:" + tag.split("+")[0]] = counts.get("refused:" + tag.split("+")[0], 0) + 1
            continue
        if not trace.get("typed", True):
            counts["castlike_nodes"] = counts.get("castlike_nodes", 0) + sum(1 for n in b["model"].graph.node if n.op_type == "CastLike")
        counts["initializers"] = counts.get("initializers", 0) + len(b["init_names"])
        oc = _check_model(trace, b, exp, viols, counts, tag)
        outcomes.append(f"{tag}:{oc}")
        built[tag] = b
    # call vs inline directly: needs no replay, so it also covers traces whose meaning is unsettled
    tags = [t for t in built if len(built[t].get("ran", [])) == len(T.FEEDS)]
    if len(tags) >= 2:
        ref_tag = tags[0]
        for t in tags[1:]:
            if built[t]["out_ids"] != built[ref_tag]["out_ids"]:
                continue
            counts["call_inline_pairs_compared"] = counts.get("call_inline_pairs_compared", 0) + 1
            for fi in range(len(T.FEEDS)):
                d = runeq.compare(built[ref_tag]["ran"][fi], built[t]["ran"][fi])
                if d:
                    if not any("|not-equal|" in v["key"] for v in viols):      # else already explained
                        viols.append({"key": f"C18|trace|call-vs-inline|{_neq_class(trace, 'inline')}",
                                      "detail": {"diff": d, "variants": [ref_tag, t], "feed": fi}})
                    break
    # one violation per key per leaf
    uniq = {}
    for v in viols:
        uniq.setdefault(v["key"], v)
    viols = list(uniq.values())
    outcome = item["fam"] + ":" + ",".join(sorted(set(o.split(":", 1)[1] for o in outcomes)))
    if not built:
        return {"status": "ok", "outcome": item["fam"] + ":refused", "nontrivial": False, "counts": counts, "show": show,
                "nkey": nkey}
    counts["extra_evaluations"] = max(0, len(outcomes) - 1)
    return {"status": "viol" if viols else "ok", "outcome": outcome, "viols": viols, "counts": counts, "nkey": nkey,
            "show": show}


# ------------------------------------------------------------------------------------------ trees

def _tree_features(spec, share):
    """Feature class of a tree for finding keys: the non-default constructions it contains."""
    f = set()
    for (_, _, s) in _collect(spec):
        if s.get("how") and s["how"] != "ctor":
            f.add(f"{s['t']}:{s['how']}")
        if s.get("named"):
            f.add("named")
        if s.get("raise"):
            f.add("forward-raises")
    return f


def _strip_raise(s):
    s = dict(s)
    s.pop("raise", None)
    if "kids" in s:
        s["kids"] = [_strip_raise(k) for k in s["kids"]]
    return s


def _exec_tree(item):
    res = _exec_tree1(item)
    if res.get("viols") and any(s.get("raise") for (_, _, s) in _collect(item["spec"])):
        # a finding that the same tree shows without any raising forward() keeps its own class (one root cause, one key)
        base = _exec_tree1(dict(item, spec=_strip_raise(item["spec"])))
        base_keys = {v["key"] for v in base.get("viols", [])}
        for v in res["viols"]:
            head, cls = v["key"].rsplit("|", 1)
            plain = "+".join(f for f in cls.split("+") if f != "forward-raises") or "plain"
            if f"{head}|{plain}" in base_keys:
                v["key"] = f"{head}|{plain}"
    return res


def _exec_tree1(item):
    import onnx
    import onnx_ir as ir
    from onnxscript._internal.builder import GraphBuilder
    from vf import runeq, wf
    spec, twice = item["spec"], item["twice"]
    root_name = "root" if item["root_named"] else None
    show = N.render(spec) + (" x2" if twice else "") + (" root='root'" if root_name else " root unnamed")
    nkey = "tree|" + show
    counts = {}
    # --- the PyTorch mirror
    tb = N.backend("torch")
    import torch
    torch_exc = None
    try:
        troot, tinst = N.build(tb, spec, root_name)
        tb.entered = set()
        with torch.no_grad():
            ty = troot(torch.zeros(3))
            if twice:
                ty = troot(ty)
        t_sd = list(troot.state_dict().keys())
        t_np_all = [k for k, _ in troot.named_parameters(remove_duplicate=False)]
        t_paths = {}
        for k, p in troot.named_parameters(remove_duplicate=False):
            t_paths.setdefault(id(p), []).append(k)
        t_y = ty.numpy()
    except Exception as e:  # noqa: BLE001
        torch_exc = type(e).__name__
    # --- onnxscript
    ob = N.backend("onnxscript")
    g = ir.Graph(name="tree", inputs=[], outputs=[], nodes=[], opset_imports={"": 23})
    gb = GraphBuilder(g)
    x = gb.input("x", ir.DataType.FLOAT, [3])
    try:
        root, inst = N.build(ob, spec, root_name)
        y = root(gb.op, x)
        if twice:
            y = root(gb.op, y)
    except Exception as e:  # noqa: BLE001
        et = type(e).__name__
        if torch_exc is not None:
            return {"status": "ok", "outcome": f"tree:both-refuse[{et}]", "nontrivial": False, "show": show, "nkey": nkey}
        return {"status": "ok", "outcome": f"tree:onnxscript-refuses[{et}]", "nontrivial": False, "show": show, "nkey": nkey,
                "counts": {"refused_only_by_onnxscript": 1}}
    if torch_exc is not None:
        return {"status": "skip", "skip": f"torch-mirror-raises[{torch_exc}]", "outcome": "tree:torch-raises", "show": show}
    viols = []
    feats = _tree_features(spec, None)
    shared = any(s["t"] == "ref" for (_, _, s) in _collect(spec))

    def add(kind, cls, detail):
        viols.append({"key": f"C18|module-tree|{kind}|{cls}", "detail": dict(detail, tree=show)})

    prefix = (root.name + ".") if root.name else ""
    sd = list(root.state_dict().keys())
    npk = [k for k, _ in root.named_parameters()]
    inits = list(g.initializers.keys())
    params = {}
    for k, p in root.named_parameters():
        params.setdefault(id(p), (p, []))[1].append(k)
    # 1. state_dict / named_parameters agree with each other and with PyTorch
    if sorted(sd) != sorted(set(npk)):
        add("state-dict-vs-named-parameters", _where(spec, set(sd) ^ set(npk)), {"state_dict": sd, "named_parameters": npk})
    if sorted(sd) != sorted(t_sd):
        cls = "Sequential-slice" if "seq:slice" in feats else _where(spec, set(sd) ^ set(t_sd))
        add("state-dict-vs-pytorch", cls, {"onnxscript": sd, "torch": t_sd})
    if sorted(npk) != sorted(t_np_all):
        if sorted(sd) == sorted(t_sd):
            add("named-parameters-vs-pytorch", _where(spec, set(npk) ^ set(t_np_all)), {"onnxscript": npk, "torch": t_np_all})
    # 2. every parameter exactly once, under (one of) its dotted path(s)
    if len(set(inits)) != len(inits):
        add("initializer-twice", "duplicate-key", {"initializers": inits})
    by_obj = {}
    for name, v in g.initializers.items():
        by_obj.setdefault(id(v), []).append(name)
    # parameters of a leaf whose forward() raised need not be realised (but if they are: once, under their path)
    # (which forward() calls are entered at all is taken from the PyTorch mirror: a raise inside a Sequential skips
    # the rest of that Sequential)
    optional = set()
    if any(s_.get("raise") for (_, _, s_) in _collect(spec)):
        for (_, _, s_) in _collect(spec):
            if s_["t"] != "leaf":
                continue
            lm = inst[s_["id"]]
            entered = s_["id"] in tb.entered
            if not entered or s_.get("raise") == "pre":
                optional |= {id(getattr(lm, a)) for a in ("w", "b") if hasattr(lm, a)}
            elif s_.get("raise") == "post" and hasattr(lm, "b"):
                optional.add(id(lm.b))
    for pid, (p, paths) in params.items():
        names = by_obj.get(pid, [])
        want = [prefix + k for k in paths]
        if pid in optional and not names:
            continue
        if len(names) != 1:
            add("parameter-not-once", _where(spec, paths), {"parameter_paths": want, "initializer_names": names})
        elif names[0] not in want:
            add("initializer-name", _where(spec, paths), {"initializer": names[0], "expected_one_of": want})
    extra = [n for n, v in g.initializers.items() if id(v) not in params]
    if extra:
        add("unexpected-initializer", "extra", {"names": extra})
    opt_names = {prefix + k for pid, (p, paths) in params.items() if pid in optional for k in paths}
    if not shared and sorted(set(inits) | opt_names) != sorted({prefix + k for k in sd} | opt_names):
        if not viols:
            add("initializer-name", _where(spec, set(inits) ^ {prefix + k for k in sd}), {"initializers": inits, "state_dict": sd})
    # 3. valid model computing the sum of the parameters actually applied
    if y is x:
        y = gb.op.Identity(y)     # every call was refused: do not turn the graph input itself into the output
    gb.add_output(y, "out")
    m = ir.serde.serialize_model(ir.Model(g, ir_version=10))
    probs = wf.check_model(m, unique_node_names=True)
    if probs:
        add("invalid-model", "wf", {"problems": probs[:3]})
    try:
        onnx.checker.check_model(m, full_check=True)
    except Exception as e:  # noqa: BLE001
        add("invalid-model", "checker", {"problem": str(e)[:300]})
    try:
        got = runeq.run_ort(m, {"x": np.zeros(3, np.float32)})
        d = runeq.compare(got, [t_y])
        if "seq:slice" in feats and "forward-raises" in feats:
            # Sequential[1:] is a ModuleList here (known finding Sequential-slice) and is iterated child by child, the
            # PyTorch mirror calls the sliced Sequential as one module: which calls a raise skips differs by construction
            counts["not_compared_slice_with_raise"] = 1
        elif d and not any("|parameter-not-once|" in v["key"] for v in viols):
            add("not-equal", _where(spec, []), {"diff": d})
    except runeq.RunError as e:
        if not viols:
            add("invalid-model", "ort-" + e.kind, {"problem": e.msg[:300]})
    counts["parameters"] = len(params)
    counts["initializers"] = len(inits)
    depth = _depth(spec)
    outcome = f"tree:d{depth}:" + ("viol" if viols else "names-equal") + (":shared" if shared else "")
    uniq = {}
    for v in viols:
        uniq.setdefault(v["key"], v)
    return {"status": "viol" if viols else "ok", "outcome": outcome, "viols": list(uniq.values()), "counts": counts,
            "nkey": nkey, "show": show + f"\ninitializers={inits}\nstate_dict={sd}\ntorch={t_sd}"}


def _where(spec, keys):
    """Feature class of a tree alarm.

    A tree with a shared instance: which kind of container received the instance the second time (its
    _set_name is what renames the shared child).  Otherwise: the non-default constructions in the tree."""
    if _ref_parent(spec) is not None:
        return "shared-module"
    return "+".join(sorted(_tree_features(spec, None))) or "plain"


def _ref_parent(s):
    for k in s.get("kids", []):
        if k["t"] == "ref":
            return s["t"]
        r = _ref_parent(k)
        if r is not None:
            return r
    return None
