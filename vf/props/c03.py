"""C03 - optimize() never changes what a model computes.

Bounded-exhaustive enumeration (choice-tree explorer) of models built by ``vf.mz`` from the optimizer's own
alphabet (partial-evaluator registry + ops of every default rewrite rule, read from the live code), times operand
sources, constant pools, wrappers, APIs and options; plus the ONNX backend node-test corpus lifted so that
folding fires.  Every leaf runs the real optimizer and executes both models.  Shares its execution with C04
(``vf.optplan.run_item``); this module reports only the semantic part.
"""
from __future__ import annotations

import copy

import numpy as np

from vf import mz, optplan, optrun, runeq

ID = "C03"
LEVEL = "model_checking"
RULE = ("choice-tree exploration per family: single node (every mz config; deviation bound over primary kind/shape/"
        "source, each operand's value x source, wrapper, opset, API, each option, entry form, value_info), "
        "producer->consumer pairs with the consumer in the live optimizer alphabet, pairs adjacent in a live rewrite "
        "rule pattern with operand values deviating, Shape->shape-op->shape-op triples, multi-input rule templates, "
        "every ONNX backend node-test model lifted (inputs->initializers ...); plus one fully-constant (or runtime-input + "
        "body-owned initializer) node kept alive by Where(runtime cond, v, v) inside every wrapper form incl. the composed "
        "and repeated ones (two If/Loop/call instances with sibling bodies reusing inner names; constant-condition If "
        "nested in a function / Loop body / If branch) x inline {T,F}; every config x Constant attribute form "
        "(value_float(s)/value_int(s)/value_string(s), sparse_value); partial-evaluator op pairs at opsets 11/12/17; "
        "string / bfloat16 / optional-typed configs; for ops with a partial evaluator the opset menu holds every version "
        "at which the op's schema changed down to its first. distinct_nontrivial = distinct "
        "items whose original was admitted (ORT and onnx.reference agree) and whose optimized model was executed "
        "and compared")
ASSUMPTIONS = ["onnxruntime 1.30 CPU with graph optimizations disabled and onnx.reference (onnx 1.22) define what a "
               "model computes; a valuation is used only when both run the ORIGINAL and agree",
               "onnx.checker full_check decides which generated models are valid inputs",
               "floats compared with rtol/atol 1e-5/1e-6 (f32), NaN masks and infinities exactly"]


def plan(tier, seed):
    return optplan.plan_c03(tier)


_WATCHDOG_S = 90
_devnull = None


def worker_init(arg):
    import logging
    logging.disable(logging.CRITICAL)


def watchdog(on):
    """A case stuck in native code (runtime or shape inference) kills the worker; the pool attributes the death to
    the case (on_crash) and resumes after it."""
    import faulthandler
    global _devnull
    if _devnull is None:
        _devnull = open(__import__("os").devnull, "w")
    if on:
        faulthandler.dump_traceback_later(_WATCHDOG_S, exit=True, file=_devnull)
    else:
        faulthandler.cancel_dump_traceback_later()


def _outcome(rec):
    if rec.get("skip"):
        return "skip:" + rec["skip"].split(":")[0]
    if rec.get("raised"):
        return "api-raised"
    d = rec.get("diff")
    if (rec.get("counts") or {}).get("optimized_runtimes_disagree_reference_matches_original") and not rec.get("c03"):
        return "inconclusive:ort-and-reference-disagree-on-optimized:" + (d or "")[:60]
    return ("changed:" + d[:60]) if d else "unchanged"


def _key_for(item, built, rec):
    """Minimise the case, attribute it to a component, build the finding key."""
    v = rec["c03"][0]

    def fails(it):
        b, r = optplan.run_item(it)
        return bool(r.get("c03"))
    small = item
    if "steps" in item or "spec" in item:
        small = optplan.minimise_item(item, fails)
    b2, r2 = (built, rec) if small is item else optplan.run_item(small)
    if not r2.get("c03"):
        b2, r2, small = built, rec, item
    v2 = r2["c03"][0]
    model = b2.model
    feeds_bind = dict(mz.BIND_DEFAULT)
    feeds_bind.update(v2.get("bind") or {})
    feeds = b2.feeds(v2["k"], feeds_bind)
    orig = optrun.Orig(model)
    exp, _ = orig.admit(feeds)

    def still_bad(m2):
        if exp is None:
            return False
        try:
            got = optrun.Sess(m2).run(feeds)
        except runeq.RunError:
            try:
                got = optrun.run_ref(m2, feeds)
            except runeq.RunError:
                return True
        return runeq.compare(exp, got) is not None
    comp, dsig = optrun.attribute(model, small.get("api", "optimize"), small.get("opts"), small.get("entry"), still_bad)
    if dsig is None:
        dsig = r2.get("diff", "")
    api = small.get("api", "optimize")
    diff_ops = set(x for part in (dsig or "").split("=>") for x in part.split(",") if x)
    params = optplan.nondefault_params(small, diff_ops)
    # C03 sees an invalid result as a model that no longer loads; the structural tags that C04 derives from the class of
    # the validity problem may apply only when the independent validity check finds that class on the optimized model
    param = "symptom:" + str(v2.get("symptom"))
    if v2.get("symptom") == "optimized-fails" and r2.get("opt") is not None:
        param = ";".join(optrun._classify_validity(p) for p in optrun.validity_problems(r2["opt"])) or param
    tag = optplan.root_cause_tag(small, comp, dsig, param=param)
    if tag:
        return f"C03|not-equivalent|{comp if str(comp).startswith('rule:') else 'fold'}|{tag}", small, v2
    key = f"C03|not-equivalent|{comp if api in ('optimize', 'optimize_ir') or comp != 'pipeline' else api}|{dsig}"
    if params:
        key += "|" + ",".join(params)
    return key, small, v2


def execute(item):
    watchdog(True)
    try:
        return _execute(item)
    finally:
        watchdog(False)


def _execute(item):
    built, rec = optplan.run_item(item)
    counts = dict(rec.get("counts") or {})
    label = optplan.item_label(item)
    out = {"outcome": _outcome(rec), "counts": counts, "nkey": label + "|" + _short(item)}
    if rec.get("skip"):
        out.update(status="skip", skip=rec["skip"])
        return out
    if rec.get("raised"):
        # C03 says nothing about raising (C04 does): nothing to compare
        out.update(status="skip", skip="api-raised")
        return out
    viols = []
    # extra oracle for the corpus: the recorded expected outputs
    if item.get("fam") == "corpus" and rec.get("recorded") and not rec["c03"]:
        pass  # the comparison with the original's ORT output already ran; recorded outputs are checked below
    if rec["c03"]:
        key, small, v = _key_for(item, built, rec)
        viols.append({"key": key, "detail": {"case": label, "minimised": _short(small), "symptom": v.get("symptom"),
                                             "what": v.get("detail"), "valuation": v.get("k"), "bind": v.get("bind"),
                                             "expected": v.get("expected"), "got": v.get("got"),
                                             "chain": optplan.chain_ops(item)}})
    elif item.get("fam") == "corpus" and rec.get("recorded") is not None and rec.get("opt") is not None:
        d = _check_recorded(built, rec)
        if d == "orig-differs-from-recorded":
            counts["corpus_recorded_output_not_reproduced_by_original"] = 1
        elif d:
            viols.append({"key": f"C03|not-equivalent|recorded-output|{item['name']}",
                          "detail": {"case": label, "what": d}})
        else:
            counts["corpus_recorded_output_confirmed"] = 1
    out["status"] = "viol" if viols else "ok"
    out["viols"] = viols
    out["show"] = mz.render(built.model, 700) if built is not None and built.model is not None else None
    return out


def _check_recorded(built, rec):
    """Optimized model's outputs vs the outputs recorded in the ONNX test data (looser tolerance: recorded values
    come from numpy implementations)."""
    recd = rec["recorded"]
    feeds = built.feeds(0)
    try:
        o_orig = optrun.Sess(built.model).run(feeds)
        o_opt = optrun.Sess(rec["opt"]).run(feeds)
    except runeq.RunError:
        return None
    for a, b, c in zip(recd, o_orig, o_opt):
        if a is None:
            continue
        if runeq.compare_arrays(a, b, loose=100.0):
            return "orig-differs-from-recorded"
        d = runeq.compare_arrays(a, c, loose=100.0)
        if d:
            return "optimized differs from recorded output: " + d
    return None


def _short(item):
    if item.get("fam") == "corpus":
        return item["lift"]
    bits = []
    for st in item.get("steps", []):
        bits.append(st["cfg"] + "(" + ",".join(f"{vi}@{s}" for vi, s in st.get("ops", [])) + ")")
    if "tmpl" in item:
        import hashlib, json
        bits.append(item["tmpl"] + ":" + hashlib.sha1(json.dumps(item["spec"], sort_keys=True).encode()).hexdigest()[:10])
    bits.append(f"x={item.get('x')}@{item.get('xsrc')}")
    bits.append("w=" + "/".join(item.get("wrap", ["none"])) if "wrap" in item else "")
    bits.append(f"{item.get('api')}{sorted((item.get('opts') or {}).items())}{item.get('entry')}{item.get('opset')}"
                f"{'vi' if item.get('vi') else ''}{item.get('outs', '')}")
    return " ".join(b for b in bits if b)


def on_crash(item, res):
    """A native crash: decide by re-running only the ORIGINAL in a subprocess."""
    return _crash_triage(item)


def _crash_triage(item, module="vf.props.c03"):
    """Worker death on this item (native crash, or the watchdog on a case stuck / starved for > _WATCHDOG_S).
    1. re-run the whole case alone in a fresh process with a generous timeout: if it completes, the death was not
       reproducible in isolation (machine load, memory pressure) -> skipped and counted;
    2. otherwise run only the ORIGINAL: if that dies too the runtime cannot run the original -> skipped and counted;
    3. otherwise the crash belongs to the optimizer or the optimized model -> violation."""
    import json
    import os
    import subprocess
    import sys
    root = os.path.dirname(os.path.dirname(os.path.dirname(os.path.abspath(__file__))))
    whole = (f"import json,sys,importlib\nm=importlib.import_module('{module}')\nm._WATCHDOG_S=100000\n"
             "r=m._execute(json.loads(sys.argv[1]))\nprint('WHOLE-OK')\n")
    try:
        p = subprocess.run([sys.executable, "-W", "ignore", "-c", whole, json.dumps(item)], capture_output=True, text=True,
                           timeout=900, cwd=root)
        if "WHOLE-OK" in p.stdout:
            return "not-reproducible-in-isolation"
    except subprocess.TimeoutExpired:
        pass
    code = ("import json,sys\nfrom vf import optplan, optrun, mz\nitem=json.loads(sys.argv[1])\n"
            "b,why,_=optplan.build_item(item)\n"
            "o=optrun.Orig(b.model)\n"
            "[o.admit(b.feeds(k, dict(mz.BIND_DEFAULT))) for k in range(mz.N_VALUATIONS)]\nprint('ORIG-OK')\n")
    try:
        p = subprocess.run([sys.executable, "-W", "ignore", "-c", code, json.dumps(item)], capture_output=True, text=True,
                           timeout=600, cwd=root)
    except subprocess.TimeoutExpired:
        return "original-hangs"
    if "ORIG-OK" in p.stdout:
        return None
    return "original-crashes-runtime"


def summarize(items, results, tier):
    import collections
    fam = collections.Counter()
    fam_changed = collections.Counter()
    ops_changed = collections.Counter()
    for it, r in zip(items, results):
        if r.get("status") in ("ok", "viol"):
            fam[it.get("fam")] += 1
            if str(r.get("outcome", "")).startswith("changed"):
                fam_changed[it.get("fam")] += 1
                ops_changed[str(r.get("outcome"))[8:]] += 1
    return {"compared_by_family": dict(fam), "optimizer_changed_model_by_family": dict(fam_changed),
            "distinct_transformations_observed": len(ops_changed),
            "top_transformations": dict(ops_changed.most_common(60))}
