"""C12 - Python literals are promoted identically by the converter, eager mode and the graph builder.

Exhaustive registry walk through the choice-tree explorer (every dimension exhaustive, cost 0):

  single : opset N x op visible at N (domain "", not deprecated, >=1 tensor input, no graph attribute)
           x literal position (every formal input; variadic: the first two variadic slots)
           x fill (optional inputs around the literal absent / every formal input present)
           x dtype of the sibling operands (schema-allowed types of the shared type variable, intersected
             with {f32,i64,f16,f64,i32,u8,bool}) x literal in {0,1,-3,2.5,-0.0,True,[1,2],[0.5]} + {0.1}
  pair   : opset x call shape {chain, two, max3, clip, where} x sibling dtype(s) x every ordered pair of
           literals of the pool extended with {0.0, 1.0, [0.0], [-0.0], [1], [True]}

Each case is observed through four front ends, no kernel is executed:
  static   `@script` on generated source, operand read back from the FunctionProto
  eager    a recording BaseEvaluator installed with evaluator.default_as
  builder  GraphBuilder with typed inputs (initializer fed to the node)
  bdyn     GraphBuilder with inputs whose type is unknown (initializer + CastLike)
and compared with an expectation computed from onnx.defs alone (c12_spec.py); observation code is in
c12_obs.py.  Finding keys: C12|<static|eager|builder|pair>|<kind>|<literal class or any>|<signature class>
[|<op> when the canonical operator of that signature class does not show the alarm].
"""
from __future__ import annotations

import collections

from vf import explore
from vf.props import c12_spec as spec

ID = "C12"
LEVEL = "model_checking"
RULE = ("exhaustive walk of onnx.defs (domain ''): every opset in the tier x every usable op visible there x every "
        "literal position (variadic: two slots) x {optional neighbours absent, all inputs present} x every "
        "schema-allowed sibling dtype in the 7-type pool x 9 literals (the 8 of the property record and 0.1); plus, "
        "per pair opset, every ordered pair of 16 literals in 5 two-literal call shapes x sibling dtypes (quick: the "
        "second sibling of shape `two` ranges over {same, f32, i64}; thorough: all 7).  Each case is observed in 4 "
        "front ends (static, eager, builder, builder with untyped inputs); pair cases also observe every literal "
        "alone in each slot.  distinct_nontrivial = distinct (op, since_version, position, fill, dtype, literal) / "
        "(opset, pair shape, dtypes, literal pair) cases in which at least one front end produced a tensor that was "
        "compared bit-for-bit with the expectation")
ASSUMPTIONS = [
    "onnx.defs (installed onnx) is the reference for input positions, type variables and allowed types",
    "ONNX Cast semantics for the literal pool: truncation toward zero, non-zero -> true, round-to-nearest floats; "
    "out-of-range integer casts (-3 -> uint8) are undefined: refusal or any value of the right dtype accepted",
    "the operand a front end feeds is what is visible in the FunctionProto / recording evaluator / ir.Graph; "
    "CastLike(c, y) yields c cast to the element type of y; outputs of Mul/Add/And/Or have their input's type",
]

TIERS = {"quick": [18, 23], "thorough": list(range(13, 24))}
PAIR_OPSETS = {"quick": [18], "thorough": [13, 18, 23]}


# ------------------------------------------------------------------------------------------------
# plan (parent process): the whole case space is enumerated by the explorer
# ------------------------------------------------------------------------------------------------

def _driver_for(opsets, pair_opsets, full_pairs):
    def driver(ch):
        kind = ch.all("kind", ["single", "pair"])
        if kind == "single":
            n = ch.all("opset", opsets)
            name = ch.all("op", spec.usable_ops(n))
            sch = spec.visible(n)[name]
            p = ch.all("pos", spec.positions(sch))
            fill = ch.all("fill", spec.fills(sch, p))
            menu = spec.dtype_menu(sch, p, fill)
            if not menu:
                raise explore.Prune()  # shared type variable admits no dtype of the pool (string ops)
            d = ch.all("dtype", menu)
            li = ch.all("lit", range(len(spec.POOL)))
            return ("s", n, name, p, fill, d, li)
        n = ch.all("pair-opset", pair_opsets)
        shape = ch.all("shape", spec.PAIR_SHAPES)
        d1 = ch.all("d1", spec.pair_dtypes(shape))
        d2 = ch.all("d2", spec.pair_dtypes2(shape, d1, full=full_pairs))
        i = ch.all("l1", range(len(spec.PAIR_POOL)))
        j = ch.all("l2", range(len(spec.PAIR_POOL)))
        return ("p", n, shape, d1, d2, i, j)
    return driver


def plan(tier, seed):
    opsets = TIERS[tier]
    st = explore.Stats()
    groups = collections.OrderedDict()
    for _, case in explore.explore(_driver_for(opsets, PAIR_OPSETS[tier], tier == "thorough"), bound=0, stats=st):
        if case[0] == "s":
            _, n, name, p, fill, d, li = case
            groups.setdefault(("s", n, name, p), []).append([fill, d, li])
        else:
            _, n, shape, d1, d2, i, j = case
            groups.setdefault(("p", n, shape, d1, d2), []).append([i, j])
    items = []
    for key in sorted(groups, key=lambda k: tuple(str(x) for x in k)):
        if key[0] == "s":
            items.append({"kind": "single", "opset": key[1], "op": key[2], "pos": key[3], "cases": groups[key]})
        else:
            items.append({"kind": "pair", "opset": key[1], "shape": key[2], "d1": key[3], "d2": key[4],
                          "cases": groups[key]})
    d = st.as_dict()
    d["exhaustive"] = not st.capped
    d["dimensions"] = {k: len(v) for k, v in st.dim_hist.items()}
    d["opsets"] = opsets
    d["pair_opsets"] = PAIR_OPSETS[tier]
    d["excluded_ops"] = spec.exclusion_histogram(opsets)
    return items, d


# ------------------------------------------------------------------------------------------------
# execute (worker)
# ------------------------------------------------------------------------------------------------

def worker_init(arg):
    from vf.props import c12_obs  # noqa: F401  (imports onnxscript once per worker)


def execute(item):
    from vf.props import c12_obs
    if item["kind"] == "single":
        return c12_obs.run_single(item)
    return c12_obs.run_pair(item)


def summarize(items, results, tier):
    ops = set()
    for it in items:
        if it["kind"] == "single":
            ops.add((it["op"], spec.visible(it["opset"])[it["op"]].since_version))
    n_single = sum(len(it["cases"]) for it in items if it["kind"] == "single")
    n_pair = sum(len(it["cases"]) for it in items if it["kind"] == "pair")
    return {"op_versions_covered": len(ops), "single_cases": n_single, "pair_cases": n_pair,
            "front_ends": list(spec.FRONT_ENDS)}
