"""C14 phase `rules`: history-independence of every shipped rewrite rule OBJECT (run as ``python -m vf.props.c14_rules``,
job on stdin, one fresh interpreter per job).

The rule objects of onnxscript.rewriter.rules.* are module-level singletons; many stash per-match data on themselves
(`_allowzero`, `_new_shape`, `_pads_list`, attribute dicts ...).  The property demands that rewriting a given model gives
the same serialized result whatever the same rule object handled before.  Explored here, on the real objects:

mode "chain" (one job per rule R):
  instances  = EVERY bound-0 grid point of R's C05 rule space (vf.props.c05_spaces: the rule's whole rule-specific
               parameter grid incl. near-misses; host dimensions at their default) - built with onnx.helper only
  golden(k)  = digest of onnxscript.rewriter.rewrite(model_k, [R]) in a child forked from the PRISTINE parent (the
               parent never applies a rule), one fork per instance
  chains     = for every rotation of the space's dimension list (so that every dimension is in turn the fastest-varying
               one: each instance is preceded by its neighbour along every dimension) x {forward, backward}: ALL
               instances executed one after the other in ONE process (a forked child); digest(k after history) must
               equal golden(k)
  a divergence is reduced to the shortest suffix of its history that still reproduces it (fresh forks).

mode "cross" (jobs over blocks of rules): A = first firing instance of every rule; for every ordered pair (A, B):
  child applies A, grandchild applies B: digest must equal golden(B).

Nothing is sampled; orders and instances are enumerated deterministically.
"""
from __future__ import annotations

import hashlib
import json
import os
import re
import select
import sys
import time

import onnx


def _digest(b: bytes) -> str:
    return hashlib.sha256(b).hexdigest()[:24]


def _norm_err(e) -> str:
    s = f"{type(e).__name__}: {str(e).splitlines()[0] if str(e) else ''}"
    s = re.sub(r"0x[0-9a-f]+", "0x_", s)
    return "raise:" + s[:160]


def _forked(fn, timeout=300.0):
    """Run fn() in a forked child; -> its JSON-serialisable result, or {"crash": ...}."""
    rfd, wfd = os.pipe()
    pid = os.fork()
    if pid == 0:
        code = 0
        try:
            os.close(rfd)
            r = fn()
            with os.fdopen(wfd, "w") as w:
                w.write(json.dumps(r))
        except BaseException as e:  # noqa: BLE001
            try:
                sys.stderr.write(f"c14_rules child: {e!r}\n")
            finally:
                code = 3
        os._exit(code)
    os.close(wfd)
    data = []
    deadline = time.time() + timeout
    timed_out = False
    with os.fdopen(rfd, "rb") as rd:
        while True:
            left = deadline - time.time()
            if left <= 0:
                timed_out = True
                break
            ready, _, _ = select.select([rd], [], [], left)
            if not ready:
                timed_out = True
                break
            chunk = os.read(rd.fileno(), 1 << 16)
            if not chunk:
                break
            data.append(chunk)
    if timed_out:
        try:
            os.kill(pid, 9)
        except OSError:
            pass
    _, st = os.waitpid(pid, 0)
    if timed_out:
        return {"crash": "timeout"}
    if st != 0 or not data:
        return {"crash": f"wait={st}"}
    return json.loads(b"".join(data).decode())


# ---------------------------------------------------------------------------------------------------------
_GENERIC_DIMS = {"ck", "inter", "vi", "opset", "symstyle", "dims"}


def _instances(rule_desc, tier):
    """-> [(params, model bytes)] for every grid point of the rule's C05 space with at most one rule-specific deviation."""
    from vf import explore
    from vf.props import c05
    from vf.props import c05_spaces as spaces
    st = explore.Stats()
    out = []
    sp0 = spaces.lookup(rule_desc)
    dims0 = sp0.dims(tier, rule_desc) if sp0 is not None else []
    default = {d.name: d.values(tier)[0] for d in dims0}
    cost = {d.name: d.cost for d in dims0}
    for _, it in explore.explore(c05._driver_for(tier, [rule_desc]), bound=1, stats=st):
        if it["space"] is None:
            continue
        sp = spaces.SPACES[it["space"]]
        p = it["p"]
        # the rule's whole exhaustive grid, plus ONE deviation in a rule-specific dimension (epsilon value, attribute
        # present/absent, operand order ...); deviations of the generic host dimensions (how a constant is given, extra
        # consumers, value_info, opset, symbolic-dim style) do not reach the rule object's own state
        dev = [k for k, v in p.items() if cost.get(k, 0) and v != default.get(k)]
        if any(k in _GENERIC_DIMS for k in dev):
            continue
        try:
            mb = sp.build(dict(p), {"id": it["rule"], "path": it["path"], "sig": it.get("sig", "")})
            model = mb.build(value_info=p.get("vi", "yes") != "no")
        except Exception:  # noqa: BLE001  Skip / host not typable: not an instance
            continue
        out.append((p, model.SerializeToString(deterministic=True)))
    return out


def _apply(rule, mbytes):
    """The operation under test: the public rewrite() with exactly this shared rule object."""
    import onnxscript.rewriter as RW
    m = onnx.ModelProto.FromString(mbytes)
    try:
        out = RW.rewrite(m, pattern_rewrite_rules=[rule])
    except Exception as e:  # noqa: BLE001
        return _norm_err(e)
    return _digest(out.SerializeToString(deterministic=True))


def _baseline(mbytes):
    """digest of rewrite() with an empty rule list: what the API returns when no rule fires"""
    import onnxscript.rewriter as RW
    out = RW.rewrite(onnx.ModelProto.FromString(mbytes), pattern_rewrite_rules=[])
    return _digest(out.SerializeToString(deterministic=True))


def _orders(params):
    """Deterministic instance orders: for every rotation of the dimension list, lexicographic by (rank of value in order
    of first appearance); each forward and backward.  -> list of (label, [indices])."""
    if not params:
        return []
    dims = list(params[0].keys())
    for p in params:
        for d in p:
            if d not in dims:
                dims.append(d)
    rank = {d: {} for d in dims}
    for p in params:
        for d in dims:
            v = json.dumps(p.get(d), sort_keys=True)
            rank[d].setdefault(v, len(rank[d]))
    varying = [d for d in dims if len(rank[d]) > 1] or dims[:1]
    out, seen = [], set()
    for r in range(len(varying)):
        rot = varying[r:] + varying[:r]
        # the LAST dimension of `rot` varies fastest
        idx = sorted(range(len(params)), key=lambda k: tuple(rank[d][json.dumps(params[k].get(d), sort_keys=True)] for d in rot))
        for lab, order in ((f"fastest={rot[-1]}", idx), (f"fastest={rot[-1]},reversed", idx[::-1])):
            t = tuple(order)
            if t not in seen:
                seen.add(t)
                out.append((lab, order))
    return out


def _run_chains(res, params, apply_k, max_rot=None, max_reports=6, chain_timeout=1200.0):
    """Shared core: goldens by one fork per instance from the pristine parent, then every order as one chain in a forked
    child; divergences reduced to the shortest reproducing suffix.  apply_k(k) -> digest string."""
    n = len(params)
    gold = []
    for k in range(n):
        g = _forked(lambda k=k: {"d": apply_k(k)})
        res["forks"] += 1
        if "crash" in g:
            res["crashes"] += 1
            gold.append(None)
        else:
            gold.append(g["d"])
    res["golden_raise"] = sum(1 for g in gold if g is not None and g.startswith("raise:"))
    res["golden_distinct"] = len(set(gold))
    orders = _orders(params)
    if max_rot is not None and len(orders) > 2 * max_rot:
        # first and last rotation(s): the last and the first dimension vary fastest
        keep = orders[:2] + orders[-2 * (max_rot - 1):] if max_rot > 1 else orders[:2]
        orders = keep
    for lab, order in orders:
        got = _forked(lambda order=order: {"ds": [apply_k(k) for k in order]}, timeout=chain_timeout)
        res["forks"] += 1
        if "crash" in got:
            res["crashes"] += 1
            res["orders"].append({"order": lab, "crash": got["crash"]})
            continue
        res["applications"] += len(order)
        nd = 0
        for pos, (k, d) in enumerate(zip(order, got["ds"])):
            if gold[k] is None or d == gold[k]:
                continue
            nd += 1
            if len(res["divergences"]) >= max_reports:
                continue
            # shortest suffix of the history that reproduces the divergence (fresh forks from the pristine parent)
            def run_hist(h, k=k):
                def body():
                    for j in h:
                        apply_k(j)
                    return {"d": apply_k(k)}
                res["forks"] += 1
                return _forked(body).get("d")

            hist = None
            widths = []
            w = 1
            while w < pos:
                widths.append(w)
                w *= 2
            if pos:
                widths.append(pos)
            for w in widths:
                suffix = order[pos - w:pos]
                if run_hist(suffix) not in (None, gold[k]):
                    hist = list(suffix)
                    break
            if hist is not None and len(hist) > 1:
                i = 0
                while i < len(hist) and len(hist) > 1:      # greedy removal, front first
                    h2 = hist[:i] + hist[i + 1:]
                    if run_hist(h2) not in (None, gold[k]):
                        hist = h2
                    else:
                        i += 1
            res["divergences"].append({
                "order": lab, "position": pos, "instance": params[k], "golden": gold[k], "got": d,
                "history": [params[j] for j in (hist if hist is not None else order[max(0, pos - 3):pos])],
                "history_minimal": hist is not None,
                "differs_from_last_in": sorted(dn for dn in params[k]
                                               if hist and params[hist[-1]].get(dn) != params[k].get(dn))})
        res["orders"].append({"order": lab, "diverging": nd})
    return gold


def _chain_job(rule_desc, tier):
    from vf.props import c05_core as core
    inst = _instances(rule_desc, tier)
    rule = core.resolve(rule_desc["path"])      # the live shared object (nothing applied in this process)
    n = len(inst)
    res = {"rule": rule_desc["id"], "instances": n, "forks": 0, "applications": 0, "orders": [], "divergences": [],
           "crashes": 0}
    if n == 0:
        return res
    indig = _forked(lambda: {"b": [_baseline(b) for _, b in inst]}).get("b") or [None] * n
    # quick: at most 4 rotations of the dimension list (8 chains); thorough: every rotation
    gold = _run_chains(res, [p for p, _ in inst], lambda k: _apply(rule, inst[k][1]),
                       max_rot=4 if tier == "quick" else None)
    res["golden_changed"] = sum(1 for g, i in zip(gold, indig) if g is not None and not g.startswith("raise:") and g != i)
    return res


def _fusion_job(fam_name, tier):
    """The same exploration for one ORT-fusion family of C19: instances = every configuration of the family's quick/thorough
    plan; operation = build the model (script template) and run the family's single-fusion chains on it with the shared
    module-level fusion rule objects of onnxscript.rewriter.ort_fusions; digest of all resulting protos."""
    from vf import explore
    from vf.props import c19
    fam = c19.FAMILIES[fam_name]
    # instances: the family's QUICK plan in both tiers (one process handles a whole family: the thorough plans of C19, up to
    # 10k configurations per family, would take hours in a single chain); the thorough tier adds the families that C19
    # runs only there and more dimension orders
    bound = fam.get("bound", {}).get("quick", c19.BOUND["quick"])
    st = explore.Stats()
    cfgs = [cfg for _, cfg in explore.explore(c19._make_driver(fam), bound=bound, stats=st)]
    res = {"rule": "fusion:" + fam_name, "instances": len(cfgs), "forks": 0, "applications": 0, "orders": [],
           "divergences": [], "crashes": 0}
    if not cfgs:
        return res

    def apply_k(k):
        cfg = cfgs[k]
        try:
            m0, _spec = fam["build"](cfg)
        except Exception as e:  # noqa: BLE001
            return "build-" + _norm_err(e)
        parts = []
        for fname, chain in fam["fusions"](cfg):
            try:
                model = c19._prepare(m0)
                ctx = {}
                for s in chain:
                    if s.endswith("_if"):
                        nfired = int(c19.steps()[s[:-3]](model) or 0) if (ctx.get("mha1") or ctx.get("mha2")) else 0
                    else:
                        nfired = int(c19.steps()[s](model) or 0)
                    ctx[s] = nfired
                parts.append(fname + ":" + _digest(c19._to_proto(model).SerializeToString(deterministic=True)))
            except Exception as e:  # noqa: BLE001
                parts.append(fname + ":" + _norm_err(e))
        return "|".join(parts)
    _run_chains(res, cfgs, apply_k, max_rot=1 if tier == "quick" else 3, chain_timeout=3000.0)
    return res


def _first_firing(rule_desc, tier, tries=60):
    from vf.props import c05_core as core
    inst = _instances(rule_desc, tier)
    rule = core.resolve(rule_desc["path"])
    for p, b in inst[:tries]:
        g = _forked(lambda b=b: {"d": _apply(rule, b), "base": _baseline(b)})
        d = g.get("d")
        if d and not d.startswith("raise:") and d != g.get("base"):
            return p, b, d
    return None


def _cross_job(block, tier):
    from vf.props import c05
    from vf.props import c05_core as core
    rules = c05._rules()
    firing = []
    for r in rules:
        f = _first_firing(r, tier)
        if f is not None:
            firing.append((r, f))
    res = {"rules_with_firing_instance": len(firing), "pairs": 0, "forks": 0, "divergences": [], "crashes": 0,
           "a": [firing[i][0]["id"] for i in block if i < len(firing)]}
    for i in block:
        if i >= len(firing):
            continue
        ra, (pa, ba, _da) = firing[i]

        def child(ra=ra, ba=ba):
            _apply(core.resolve(ra["path"]), ba)
            out = []
            for rb, (pb, bb, db) in firing:
                g = _forked(lambda rb=rb, bb=bb: {"d": _apply(core.resolve(rb["path"]), bb)})
                out.append(g.get("d"))
            return {"ds": out}
        got = _forked(child, timeout=1800.0)
        res["forks"] += 1 + len(firing)
        if "crash" in got:
            res["crashes"] += 1
            continue
        for (rb, (pb, bb, db)), d in zip(firing, got["ds"]):
            res["pairs"] += 1
            if d is None:
                res["crashes"] += 1
            elif d != db:
                res["divergences"].append({"a": ra["id"], "a_params": pa, "b": rb["id"], "b_params": pb,
                                           "golden": db, "got": d})
    return res


def main():
    out_fd = os.dup(1)
    os.dup2(2, 1)
    job = json.loads(sys.stdin.read())
    import onnxscript
    import onnxscript.rewriter  # noqa: F401
    from vf.props import c14_events  # noqa: F401  (same import closure + source-tree fingerprint as the other phases)
    tier = job.get("tier", "quick")
    if job["mode"] == "chain":
        from vf.props import c05
        rd = [r for r in c05._rules() if r["id"] == job["rule"]]
        res = _chain_job(rd[0], tier) if rd else {"rule": job["rule"], "instances": 0, "missing": True}
    elif job["mode"] == "fusion":
        res = _fusion_job(job["family"], tier)
    elif job["mode"] == "cross":
        res = _cross_job(job["block"], tier)
    elif job["mode"] == "list":
        from vf.props import c05
        from vf.props import c19
        res = {"rules": [r["id"] for r in c05._rules()],
               "fusion_families": [f["name"] for f in c19._families(tier)]}
    else:
        raise SystemExit("unknown mode")
    res["tree"] = c14_events.TREE
    res["onnxscript"] = os.path.dirname(onnxscript.__file__)
    res["hashseed"] = os.environ.get("PYTHONHASHSEED")
    with os.fdopen(out_fd, "w") as f:
        f.write(json.dumps(res, default=repr))


if __name__ == "__main__":
    main()
