"""C16 - every registered torch_lib overload binds correctly to its ATen schema.

Exhaustive walk of get_torchlib_ops() x {static checks, FunctionProto check, every call shape the exporter can
emit}.  Binding is done by the code that really binds: ``inspect.Signature.bind`` of the Python function for
trace-only functions (the exporter calls ``TracedOnnxFunction.__call__`` = the Python function itself) and
torch's ``_building._construct_named_inputs_and_attrs`` over ``function.op_signature`` for scripted functions
(``OnnxFunction.__call__`` -> ``OpRecorder.eval_function``).  The oracle is the ATen schema of the installed
PyTorch plus a small table saying which ATen argument types a parameter kind accepts.
"""
from __future__ import annotations

import inspect
import itertools
import re
import warnings

from vf import explore

ID = "C16"
LEVEL = "model_checking"
RULE = ("exhaustive walk: every (qualified name, function, real/complex) entry of get_torchlib_ops() x {static: name "
        "form, overload exists in torch.ops, uniqueness, full-call binding with name/kind agreement; proto: "
        "to_function_proto through onnx.checker.check_function + vf.wf for scripted functions; call: every call shape "
        "= positional prefix that leaves only defaulted schema arguments out x subset of keyword-only arguments "
        "(quick: none/all keyword-only; thorough: every subset)}.  Each call shape is bound by the real binder and "
        "compared with the schema.  distinct_nontrivial = distinct (entry, check/shape) leaves that reached the oracle")
ASSUMPTIONS = ["torch.ops.<ns>.<name>.<overload>._schema of the installed PyTorch 2.14 (+ torchvision, "
               "torch.ao.quantization.fx._decomposed) is the reference for ATen schemas",
               "the exporter binds as torch/onnx/_internal/exporter/_core.py does: onnx_function(*args, **kwargs); "
               "TracedOnnxFunction -> plain Python call, OnnxFunction -> _construct_named_inputs_and_attrs which "
               "silently discards unknown keywords and surplus positionals",
               "semantics of the bound function are C08's business; here only where arguments land"]

# arguments whose loss cannot change the result (exactly the set of the property statement)
# the statement: "drops only arguments that cannot affect the result (generator, layout, device, pin_memory,
# memory_format, requires_grad)"; non_blocking (a copy-scheduling hint) equally cannot affect the result, so
# dropping it is not demanded to be a violation
DROPPABLE = frozenset({"generator", "layout", "device", "pin_memory", "memory_format", "requires_grad", "non_blocking"})

_NAME_RE = re.compile(r"^[A-Za-z_][A-Za-z0-9_]*::[A-Za-z_][A-Za-z0-9_]*(\.[A-Za-z_][A-Za-z0-9_]*)?$")

_STATE = {}


def _load():
    """Import the registry once per process; returns dict with ops, duplicate-registration warnings."""
    if _STATE:
        return _STATE
    with warnings.catch_warnings(record=True) as w:
        warnings.simplefilter("always")
        from onnxscript._framework_apis.torch_2_5 import get_torchlib_ops
        ops = get_torchlib_ops()
    dups = sorted({str(x.message) for x in w if "already registered" in str(x.message)})
    import torch  # noqa: F401  (the registry import pulls it in anyway)
    avail = {}
    try:
        import torch.ao.quantization.fx._decomposed  # noqa: F401  defines quantized_decomposed::*
        avail["quantized_decomposed"] = True
    except Exception:
        avail["quantized_decomposed"] = False
    try:
        import torchvision  # noqa: F401
        avail["torchvision"] = True
    except Exception:
        avail["torchvision"] = False
    entries = []
    for i, m in enumerate(ops):
        entries.append({"i": i, "q": m.qualified_name, "c": bool(m.is_complex)})
    _STATE.update(ops=ops, dups=dups, avail=avail, entries=entries)
    return _STATE


# ---------------------------------------------------------------------------------------------
# schema side
# ---------------------------------------------------------------------------------------------

def _split(q):
    ns, _, rest = q.partition("::")
    name, _, ov = rest.partition(".")
    return ns, name, ov


def _torch_overload(q):
    """-> (overload | None, reason).  Independent of the exporter's own lookup."""
    import torch
    ns, name, ov = _split(q)
    if ns in ("_operator", "math"):
        import math
        import operator
        mod = operator if ns == "_operator" else math
        return (getattr(mod, name), "builtin") if hasattr(mod, name) else (None, f"no {mod.__name__}.{name}")
    try:
        packet = getattr(getattr(torch.ops, ns), name)
    except (AttributeError, RuntimeError) as e:
        return None, f"torch.ops.{ns}.{name} does not exist"
    names = list(packet.overloads())
    want = ov or "default"
    if want not in names:
        return None, f"torch.ops.{ns}.{name} has overloads {names}, no '{want}'"
    return getattr(packet, want), "ok"


def _kind(tstr):
    t = tstr.replace("Optional[", "").replace("]", "") if tstr.startswith("Optional[") else tstr
    opt = tstr.startswith("Optional[")
    if tstr.startswith("Optional[List["):
        t = tstr[len("Optional["):-1]
    table = {"Tensor": "tensor", "List[Tensor]": "tensors", "List[Optional[Tensor]]": "tensors",
             "number": "scalar", "int": "int", "SymInt": "int", "float": "float", "bool": "bool", "str": "str",
             "List[int]": "ints", "List[SymInt]": "ints", "List[float]": "floats", "List[bool]": "bools",
             "List[number]": "scalars", "ScalarType": "dtype", "Layout": "layout", "Device": "device",
             "MemoryFormat": "memory_format", "Generator": "generator"}
    return table.get(t, "other:" + t), opt


def _schema_args(ov):
    out = []
    for a in ov._schema.arguments:
        k, opt = _kind(str(a.real_type))
        out.append({"name": a.name, "type": str(a.real_type), "kind": k, "opt": opt, "kw": bool(a.kwarg_only),
                    "has_default": a.has_default_value(), "is_out": bool(a.is_out)})
    return out


def _call_shapes(args, tier):
    """All (n positional, keyword-only subset) shapes: the positional prefix must contain every positional argument
    without a schema default; every keyword-only argument without a default is always present."""
    pos = [a for a in args if not a["kw"]]
    kws = [a for a in args if a["kw"]]
    n_req = 0
    for i, a in enumerate(pos):
        if not a["has_default"]:
            n_req = i + 1
    kw_req = [a["name"] for a in kws if not a["has_default"]]
    kw_opt = [a["name"] for a in kws if a["has_default"]]
    if tier == "quick":
        subsets = [[], kw_opt] if kw_opt else [[]]
    else:
        subsets = [list(s) for r in range(len(kw_opt) + 1) for s in itertools.combinations(kw_opt, r)]
    shapes = []
    for n in range(n_req, len(pos) + 1):
        for s in subsets:
            shapes.append(["call", n, kw_req + s])
    return shapes


# ---------------------------------------------------------------------------------------------
# function side
# ---------------------------------------------------------------------------------------------

class _M:
    """Marker passed as an argument: remembers which schema argument it stands for."""
    __slots__ = ("name", "kind", "type")

    def __init__(self, a):
        self.name, self.kind, self.type = a["name"], a["kind"], a["type"]

    def __repr__(self):
        return f"<{self.name}:{self.type}>"


def _is_traced(fn):
    from onnxscript import values
    return isinstance(fn, values.TracedOnnxFunction)


_SURPLUS = {}


def _bind(fn, pos_markers, kw_markers):
    """-> (bound: {param name: marker}, dropped: [marker], error | None) using the real binder."""
    if _is_traced(fn):
        sig = inspect.signature(fn.func)
        n_accept = 0
        for p in sig.parameters.values():
            if p.kind in (p.POSITIONAL_ONLY, p.POSITIONAL_OR_KEYWORD):
                n_accept += 1
            elif p.kind == p.VAR_POSITIONAL:
                n_accept = 10 ** 6
        surplus = list(pos_markers[n_accept:])
        try:
            ba = sig.bind(*pos_markers[:n_accept], **kw_markers)
        except TypeError as e:
            return {}, surplus, f"TypeError: {e}"
        bound, dropped = {}, []
        _SURPLUS[id(pos_markers)] = surplus
        for pname, v in ba.arguments.items():
            p = sig.parameters[pname]
            if p.kind == p.VAR_KEYWORD:
                dropped += list(v.values())
            elif p.kind == p.VAR_POSITIONAL:
                dropped += list(v)
            else:
                bound[pname] = v
        # parameters left to their python default are fine; required ones would have raised TypeError
        return bound, dropped, None
    from torch.onnx._internal.exporter import _building
    sig = fn.op_signature
    try:
        named_inputs, named_attrs = _building._construct_named_inputs_and_attrs(sig, list(pos_markers), dict(kw_markers))
    except ValueError as e:
        return {}, [], f"ValueError: {str(e)[:160]}"
    bound = {}
    for k, v in list(named_inputs.items()) + list(named_attrs.items()):
        if isinstance(v, _M):
            bound[k] = v
    seen = {id(v) for v in bound.values()}
    dropped = [m for m in list(pos_markers) + list(kw_markers.values()) if id(m) not in seen]
    return bound, dropped, None


_PY_ATTR = {int: "INT", float: "FLOAT", bool: "INT", str: "STRING"}
_PY_ATTRS = {int: "INTS", float: "FLOATS", bool: "INTS", str: "STRINGS"}


def _annotation_attr(ann):
    """INT/FLOAT/... when the (Optional-unwrapped) annotation is a python scalar / sequence of scalars, else None."""
    import collections.abc
    import types
    import typing
    origin = typing.get_origin(ann)
    if origin is typing.Union or (hasattr(types, "UnionType") and origin is types.UnionType):
        rest = [a for a in typing.get_args(ann) if a is not type(None)]
        if len(rest) == 1:
            return _annotation_attr(rest[0])
        return None
    if ann in _PY_ATTR:
        return _PY_ATTR[ann]
    if origin in (collections.abc.Sequence, list, tuple):
        args = typing.get_args(ann)
        if args and args[0] in _PY_ATTRS:
            return _PY_ATTRS[args[0]]
    return None


def _effective_params(fn):
    """{name: ("input", None) | ("attr", TYPE)} from function.op_signature; for trace-only functions an input whose
    annotation is Optional[<python scalar>] is an attribute in effect (op_signature_from_function does not unwrap
    Optional, and the exporter calls the Python function directly)."""
    import typing
    from onnxscript import ir
    out = {}
    hints = {}
    if _is_traced(fn):
        try:
            hints = typing.get_type_hints(fn.func)
        except Exception:
            hints = {}
    for p in fn.op_signature.params:
        if isinstance(p, ir.schemas.Parameter):
            a = _annotation_attr(hints[p.name]) if p.name in hints else None
            # "~": derived here, not by op_signature; annotations of trace-only functions are not enforced, so only
            # the element type is compared (Optional[int] receiving int[1]? is how torch_lib writes `dim`)
            out[p.name] = ("attr", "~" + a) if a else ("input", None)
        else:
            out[p.name] = ("attr", p.type.name)
    return out


_ATTR_OK = {
    "int": {"INT", "FLOAT"},        # the exporter converts an int given to a FLOAT attribute
    "float": {"FLOAT"},
    "bool": {"INT"},
    "str": {"STRING"},
    "ints": {"INTS"},
    "floats": {"FLOATS"},
    "bools": {"INTS"},
    "scalar": {"FLOAT", "INT"},
    "scalars": {"FLOATS", "INTS"},
    "dtype": {"INT"},
    "layout": {"STRING"}, "device": {"STRING"}, "memory_format": {"STRING"},
}
_INPUT_OK = {"int", "float", "bool", "scalar", "ints", "floats", "bools", "scalars"}


def _check_binding(fn, args, n_pos, kw_names):
    """Bind one call shape; -> list of (kind, detail)."""
    from onnxscript import ir
    out = []
    pos = [a for a in args if not a["kw"]][:n_pos]
    kws = [a for a in args if a["kw"] and a["name"] in kw_names]
    pos_m = [_M(a) for a in pos]
    kw_m = {a["name"]: _M(a) for a in kws}
    _SURPLUS.clear()
    bound, dropped, err = _bind(fn, pos_m, kw_m)
    for m in _SURPLUS.get(id(pos_m), []) if err is None else dropped:
        # the Python function has fewer positional parameters than the call has positional arguments: TypeError
        if m.name not in DROPPABLE:
            out.append(("surplus-positional", f"{m!r} exceeds the arity of the Python function (the call raises TypeError)"))
    if err is not None:
        m = re.search(r"unexpected keyword argument '(\w+)'", err)
        if m:
            nm = m.group(1)
            out.append(("kwarg-rejected-droppable" if nm in DROPPABLE else "kwarg-rejected", f"{nm}: {err}"))
        elif "missing" in err or "Required" in err:
            out.append(("required-unbound", err))
        elif "multiple values" in err:
            out.append(("bound-twice", err))
        else:
            out.append(("bind-error", err))
        return out
    if _is_traced(fn):
        # the function's published signature (op_signature_from_function) must tell the same story as the Python
        # function that was just bound: a parameter it calls required is bound by this call shape
        for p in fn.op_signature.params:
            if getattr(p, "required", False) and p.name not in bound:
                out.append(("required-unbound", f"op_signature marks '{p.name}' required (has_default="
                            f"{p.has_default() if hasattr(p, 'has_default') else '?'}) but the call shape leaves it unbound"))
    params = _effective_params(fn)
    for pname, m in bound.items():
        if pname not in params:
            out.append(("bind-error", f"{m!r} bound to unknown parameter {pname}"))
            continue
        pk, ptype = params[pname]
        is_input = pk == "input"
        if m.kind in ("tensor", "tensors"):
            if not is_input:
                out.append(("tensor-on-attribute", f"{m!r} -> attribute {pname}:{ptype}"))
        elif m.kind == "generator":
            pass
        elif is_input:
            if m.kind not in _INPUT_OK and m.name not in DROPPABLE:
                out.append(("nontensor-on-input", f"{m!r} -> input {pname}"))
        else:
            ok = _ATTR_OK.get(m.kind)
            if ptype.startswith("~") and ok is not None:
                ok = ok | {t + "S" for t in ok} | {t[:-1] for t in ok if t.endswith("S")}
                ptype = ptype[1:]
            if ok is None or ptype not in ok:
                if m.name not in DROPPABLE:
                    out.append(("attribute-type", f"{m!r} -> attribute {pname}:{ptype}"))
    for m in dropped:
        if m.name not in DROPPABLE:
            out.append(("arg-dropped", f"{m!r} is not given to any parameter"))
    # names: a positional argument landing on a parameter of another name while a parameter of its own name exists
    # (a pure rename is not a violation; a permutation is: the parameter carrying the argument's name is taken by
    # another argument of the same call)
    for pname, m in bound.items():
        if pname != m.name and m.name in bound and bound[m.name] is not m:
            out.append(("position-permuted", f"schema argument {m.name} lands on parameter {pname} while parameter {m.name} "
                        f"receives schema argument {bound[m.name].name}"))
    return out


# ---------------------------------------------------------------------------------------------
# driver / plan
# ---------------------------------------------------------------------------------------------

_TIER = "quick"


def _driver(ch):
    st = _load()
    e = ch.all("entry", st["entries"] + [{"i": -1, "q": "<registry>", "c": False}])
    if e["i"] < 0:
        return {"i": -1, "q": e["q"], "c": False, "check": ["registry"]}
    fn = st["ops"][e["i"]].function
    checks = [["static"]]
    if not _is_traced(fn):
        checks.append(["proto"])
    ov, why = _torch_overload(e["q"])
    if ov is not None and why == "ok":
        checks += _call_shapes(_schema_args(ov), _TIER)
    c = ch.all("check", checks)
    return {"i": e["i"], "q": e["q"], "c": e["c"], "check": c}


def plan(tier, seed):
    global _TIER
    _TIER = tier
    st = explore.Stats()
    items = [case for _, case in explore.explore(_driver, bound=0, stats=st)]
    d = st.as_dict()
    d["exhaustive"] = True
    d["dimensions"] = {k: len(v) for k, v in st.dim_hist.items()}
    d["registry_entries"] = len(_load()["entries"])
    return items, d


def worker_init(arg):
    _load()


def execute(item):
    st = _load()
    q, i, chk = item["q"], item["i"], item["check"]
    viols = []

    def bad(kind, detail, comp=None):
        viols.append({"key": f"C16|{kind}|{comp or q}", "detail": {"complex": item["c"], "check": chk, "what": detail}})

    def done(outcome, **kw):
        return dict({"status": "viol" if viols else "ok", "outcome": outcome, "viols": viols,
                     "nkey": f"{q}|{int(item['c'])}|{i}|{chk}"}, **kw)

    if chk[0] == "registry":
        # (6) a second registration under the same (name, real/complex) is dropped with a warning at import
        for msg in st["dups"]:
            m = re.search(r"'([^']+)' already registered", msg)
            bad("duplicate-registration", msg[:200], m.group(1) if m else None)
        counts = {}
        for e in st["entries"]:
            counts[(e["q"], e["c"])] = counts.get((e["q"], e["c"]), 0) + 1
        for (qq, cc), n in counts.items():
            if n != 1:
                bad("ambiguous-overload", f"{n} functions for ({qq}, complex={cc})", qq)
        return done("registry", counts={"registry_keys": len(counts)})

    meta = st["ops"][i]
    fn = meta.function
    if meta.qualified_name != q:
        raise RuntimeError(f"registry order differs between processes: {meta.qualified_name} vs {q}")
    traced = _is_traced(fn)
    tag = "traced" if traced else "scripted"

    if chk[0] == "proto":
        import onnx
        from vf import wf
        try:
            fp = fn.to_function_proto()
        except Exception as e:
            bad("function-proto", f"to_function_proto raises {type(e).__name__}: {str(e)[:200]}")
            return done("proto-raises")
        try:
            onnx.checker.check_function(fp)
        except Exception as e:
            bad("function-proto", f"onnx.checker: {str(e)[:300]}")
        probs = wf.check_function(fp)
        if probs:
            bad("function-proto", f"wf: {probs[:3]}")
        return done("proto", show=f"{fp.domain}::{fp.name} {len(fp.node)} nodes")

    ov, why = _torch_overload(q)

    if chk[0] == "static":
        ns, name, ovn = _split(q)
        if not _NAME_RE.fullmatch(q) or q.endswith(".default"):
            bad("malformed-name", q)
        if ov is None:
            if ns == "torchvision" and not st["avail"]["torchvision"]:
                return done("skip-torchvision", status="skip", skip="torchvision not installed")
            bad("no-such-overload", why)
            return done("no-overload|" + tag)
        if why == "builtin":
            # python builtin (operator.*, math.*): no schema; arity from the function's own signature vs the builtin
            n_req = sum(1 for p in fn.op_signature.params if p.required)
            try:
                bsig = inspect.signature(ov)
                n_b = sum(1 for p in bsig.parameters.values() if p.default is p.empty and p.kind in (p.POSITIONAL_ONLY, p.POSITIONAL_OR_KEYWORD))
            except (TypeError, ValueError):
                n_b = None
            if n_b is not None and n_req != n_b:
                bad("builtin-arity", f"{q}: builtin takes {n_b} positional arguments, function requires {n_req}")
            return done("builtin|" + tag)
        args = _schema_args(ov)
        # full call: everything given
        res = _check_binding(fn, args, len([a for a in args if not a["kw"]]), [a["name"] for a in args if a["kw"]])
        for kind, detail in res:
            bad(kind, detail)
        # keyword-only schema arguments must be addressable by name (or be droppable)
        params = {p.name for p in fn.op_signature.params}
        show = f"{ov._schema}  <-  {fn.name}({', '.join(p.name for p in fn.op_signature.params)})"
        return done("static|" + tag, show=show[:300], counts={"schema_args": len(args)})

    if chk[0] == "call":
        if ov is None or why != "ok":
            raise RuntimeError("call shape planned for an entry without a schema")
        args = _schema_args(ov)
        res = _check_binding(fn, args, chk[1], chk[2])
        for kind, detail in res:
            bad(kind, detail)
        return done(f"call|{tag}|{'bound' if not res else res[0][0]}")
    raise RuntimeError(f"unknown check {chk}")
