"""C19 pattern families (quick tier): parameterised model builders derived from the repo's *_unit_test.py scripts.

A family is a dict:
  name, tier, params = [(param, values | callable(cfg)->values, "all"|"dev")]   (values[0] = default)
  valid(cfg) -> bool, build(cfg) -> (ModelProto, feeds_spec), near(cfg) -> [labels],
  fusions(cfg) -> [(fusion_name, [step names])]   (steps are looked up in c19.STEPS)
"""
from __future__ import annotations

import math

import numpy as np

from .c19_build import BOOL, F16, F32, F64, G, I32, I64, INT64_MAX, NP  # noqa: F401

FAMILIES = {}


def family(name, tier, params, build, fusions, valid=None, near=None, canon=None, bound=None):
    FAMILIES[name] = dict(name=name, tier=tier, params=params, build=build, fusions=fusions,
                          valid=valid or (lambda c: True), near=near or (lambda c: []), canon=canon,
                          bound=bound or {})


def _ulp(v, n, npdt=np.float32):
    x = npdt(v)
    for _ in range(abs(n)):
        x = np.nextafter(x, npdt(np.inf if n > 0 else -np.inf), dtype=npdt)
    return float(x)


CVAR = ["exact", "+ulp", "-ulp", "+1e-3", "-1e-3", "*1.25"]


def cvar(v, variant, npdt=np.float32):
    if variant == "exact":
        return float(npdt(v))
    if variant == "+ulp":
        return _ulp(v, 1, npdt)
    if variant == "-ulp":
        return _ulp(v, -1, npdt)
    if variant == "+1e-3":
        return float(npdt(v * (1 + 1e-3)))
    if variant == "-1e-3":
        return float(npdt(v * (1 - 1e-3)))
    if variant == "*1.25":
        return float(npdt(v * 1.25))
    raise ValueError(variant)


def _binop(g, op, a, b, swapped):
    return g.op(op, b, a) if swapped else g.op(op, a, b)


def _decl(shape, sym):
    if not sym:
        return list(shape)
    names = ["B", "S", "X", "Y"]
    return [names[i] if i < len(shape) - 1 else shape[i] for i in range(len(shape))]


BSD = [("B", [1, 2], "all"), ("S", [1, 3], "all"), ("D", [4, 8], "all")]

# ---------------------------------------------------------------------------------------------
# RMS normalization  (rms_normalization_unit_test.py: _rms_norm_scale_first / _norm_first / _with_cast_input)
# ---------------------------------------------------------------------------------------------

RMS_TYPING = {
    # name: (x dtype, cast x to, cast normalized to, scale dtype, cast scale to)
    "f32": (F32, None, None, F32, None),
    "f16>f32>f16": (F16, F32, F16, F16, None),
    "f16": (F16, None, None, F16, None),
    "f16>f32,s32": (F16, F32, None, F32, None),
    "f16>f32,s16>32": (F16, F32, None, F16, F32),
    "f32,n>f16,s16": (F32, None, F16, F16, None),
    "f32>f32": (F32, F32, None, F32, None),
    "f32,s16>32": (F32, None, None, F16, F32),
    "f32>f64,n>f32": (F32, F64, F32, F32, None),
}


def _rms_core(g, c, x, xdt, B, S, D):
    """Emit the RMS pattern over value x; returns (output value, output dtype, extras dict)."""
    _, cast_x, cast_n, sdt, cast_s = RMS_TYPING[c["typing"]]
    cdt = cast_x or xdt
    xc = g.op("Cast", x, to=cast_x) if cast_x else x
    init = c.get("const_kind", "node") == "init"
    if c["pow"] == "2.0":
        e = g.const(2.0, cdt, init=init)
    elif c["pow"] == "2i":
        e = g.const(np.int64(2), init=init)
    else:
        e = g.const(3.0, cdt, init=init)
    sq = g.op("Pow", xc, e)
    axes = g.i64([c["axis"]], init=init)
    if c["rm_attrs"] == "explicit":
        mean = g.op("ReduceMean", sq, axes, keepdims=1, noop_with_empty_axes=0)
    else:
        mean = g.op("ReduceMean", sq, axes)
    eps = g.const(np.full(c["eps_shape"], c["eps"]), cdt, init=init)
    mpe = _binop(g, "Add", mean, eps, c["add_order"] == "eps+mean")
    rms = g.op("Sqrt", mpe)
    if c["recip"] == "Reciprocal":
        rr = g.op("Reciprocal", rms)
        normalized = _binop(g, "Mul", xc, rr, c["xr_order"] == "r*x")
    else:
        normalized = g.op("Div", xc, rms)
    nc = g.op("Cast", normalized, to=cast_n) if cast_n else normalized
    sshape = {"D": [D], "1": [1], "11D": [1, 1, D], "SD": [S, D]}[c["scale_shape"]]
    if c["axis"] == 1:
        sshape = {"D": [D], "1": [1], "11D": [1, 1, D], "SD": [S, D]}[c["scale_shape"]]
    scale = g.inp("scale", sdt, sshape, role="scale")
    sc = g.op("Cast", scale, to=cast_s) if cast_s else scale
    out = _binop(g, "Mul", nc, sc, c["mul_order"] == "scale*norm")
    odt = cast_s or sdt
    return out, odt, {"normalized": (normalized, cdt), "mean": (mean, cdt)}


def build_rms(c):
    B, S, D = c["B"], c["S"], c["D"]
    xdt = RMS_TYPING[c["typing"]][0]
    g = G()
    x = g.inp("x", xdt, [B, S, D], decl=_decl([B, S, D], c["sym"]))
    out, odt, extra = _rms_core(g, c, x, xdt, B, S, D)
    g.out(out, odt)
    if c["extra_out"] != "none":
        v, dt = extra[c["extra_out"]]
        g.out(v, dt)
    return g.model(), g.feeds_spec


RMS_DEV = [
    ("typing", list(RMS_TYPING), "dev"),
    ("eps", [1e-6, 1e-5, 0.0, 1e-2], "dev"),
    ("eps_shape", [[1], [], [1, 1, 1], [1, 1, 1, 1]], "dev"),
    ("axis", [-1, 2, 1], "dev"),
    ("pow", ["2.0", "2i", "3.0"], "dev"),
    ("rm_attrs", ["explicit", "omitted"], "dev"),
    ("add_order", ["mean+eps", "eps+mean"], "dev"),
    ("recip", ["Reciprocal", "Div"], "dev"),
    ("xr_order", ["x*r", "r*x"], "dev"),
    ("mul_order", ["norm*scale", "scale*norm"], "dev"),
    ("scale_shape", ["D", "11D", "1", "SD"], "dev"),
    ("const_kind", ["node", "init"], "dev"),
]


def _rms_near(c):
    out = []
    for p, bad in (("axis", (2, 1)), ("pow", ("3.0",)), ("eps_shape", ([1, 1, 1, 1],)), ("recip", ("Div",)),
                   ("xr_order", ("r*x",)), ("add_order", ("eps+mean",)), ("scale_shape", ("11D", "1", "SD")),
                   ("rm_attrs", ("omitted",)), ("typing", ("f16", "f16>f32,s16>32", "f32,s16>32", "f32>f64,n>f32"))):
        if c.get(p) in bad:
            out.append(f"{p}={c[p]}")
    return out


family("rms", "quick",
       BSD + RMS_DEV + [("extra_out", ["none", "normalized", "mean"], "dev"), ("sym", [False, True], "dev")],
       build_rms, lambda c: [("rms_normalization", ["rms"])], near=_rms_near,
       canon=lambda kind, fusion, c, detail: "scale-is-Cast-to-compute-dtype(output-dtype-changes)"
       if (c["typing"] in ("f16>f32,s16>32", "f32,s16>32") and kind == "ort-load-fails") else None)

# ---------------------------------------------------------------------------------------------
# Skip (RMS | Layer) normalization   (skip_normalization_unit_test.py)
# ---------------------------------------------------------------------------------------------


def _build_skip(c, kind):
    B, S, D = c["B"], c["S"], c["D"]
    dt = F16 if c["dtype"] == "f16" else F32
    g = G()
    sym = c["sym"]
    inp = g.inp("input", dt, [B, S, D], decl=_decl([B, S, D], sym))
    sshape = {"BSD": [B, S, D], "1SD": [1, S, D], "SD": [S, D], "11D": [1, 1, D]}[c["skip_shape"]]
    skip = g.inp("skip", dt, sshape, decl=_decl(sshape, sym and c["skip_shape"] == "BSD"))
    bias = None
    if c["bias"] != "none":
        bshape = {"D": [D], "11D": [1, 1, D], "SD": [S, D], "1": [1]}[c["bias_shape"]]
        if c["bias_kind"] == "input":
            bias = g.inp("bias", dt, bshape)
        else:
            bias = g.const((np.arange(int(np.prod(bshape))).reshape(bshape) % 5 - 2) * 0.25, dt,
                           init=c["bias_kind"] == "init")
    x = inp
    if c["bias"] in ("pre", "pre_comm"):
        x = _binop(g, "Add", x, bias, c["bias"] == "pre_comm")
    inner = _binop(g, "Add", x, skip, c["add_order"] == "skip+input")
    final = inner
    if c["bias"] in ("post", "post_comm"):
        final = _binop(g, "Add", inner, bias, c["bias"] == "post_comm")
    axis = c["axis"]
    nshape = [D] if axis in (-1, 2) else [S, D]
    gshape = [1] if c["gamma_shape"] == "1" else nshape
    gamma = g.inp("gamma", dt, gshape, role="scale")
    attrs = {"axis": axis}
    if c["eps_attr"] != "absent":
        attrs["epsilon"] = float(c["eps_attr"])
    if c["stash"] != "absent":
        attrs["stash_type"] = int(c["stash"])
    n_out = 2 if c["extra_norm_out"] else 1
    if kind == "ln":
        ins = [final, gamma]
        if c["beta"] != "absent":
            ins.append(g.inp("beta", dt, [1] if c["beta"] == "1" else nshape))
        outs = g.op("LayerNormalization", *ins, n_out=n_out, **attrs)
    elif c["norm_form"] == "op":
        outs = g.op("SimplifiedLayerNormalization", final, gamma, n_out=n_out, **attrs)
    else:
        # raw RMS pattern (as exported), fused to SimplifiedLayerNormalization by fuse_rms_normalization first
        cc = dict(typing="f32" if dt == F32 else "f16>f32>f16", pow="2.0", axis=axis, rm_attrs="explicit",
                  eps_shape=[1], eps=float(c["eps_attr"]) if c["eps_attr"] != "absent" else 1e-5,
                  add_order="mean+eps", recip="Reciprocal", xr_order="x*r", mul_order="norm*scale",
                  scale_shape="D")
        _, cast_x, cast_n, _, _ = RMS_TYPING[cc["typing"]]
        cdt = cast_x or dt
        xc = g.op("Cast", final, to=cast_x) if cast_x else final
        sq = g.op("Pow", xc, g.const(2.0, cdt))
        mean = g.op("ReduceMean", sq, g.i64([axis]), keepdims=1, noop_with_empty_axes=0)
        rr = g.op("Reciprocal", g.op("Sqrt", g.op("Add", mean, g.const([cc["eps"]], cdt))))
        nrm = g.op("Mul", xc, rr)
        nrm = g.op("Cast", nrm, to=cast_n) if cast_n else nrm
        outs = g.op("Mul", nrm, gamma)
        n_out = 1
    normalized = outs if n_out == 1 else outs[0]
    g.out(normalized, dt)
    if n_out == 2:
        g.out(outs[1], F32 if kind == "rms" else dt)
    if c["sum_out"] == "final":
        g.out(final, dt)
    elif c["sum_out"] == "inner":
        g.out(inner, dt)
    return g.model(), g.feeds_spec


SKIP_COMMON = BSD + [
    ("dtype", ["f32", "f16"], "dev"),
    ("add_order", ["input+skip", "skip+input"], "dev"),
    ("bias", ["none", "post", "pre", "post_comm", "pre_comm"], "dev"),
    ("bias_shape", lambda c: ["D"] if c["bias"] == "none" else ["D", "11D", "SD", "1"], "dev"),
    ("bias_kind", lambda c: ["input"] if c["bias"] == "none" else ["input", "node", "init"], "dev"),
    ("skip_shape", ["BSD", "1SD", "SD", "11D"], "dev"),
    ("gamma_shape", ["D", "1"], "dev"),
    ("eps_attr", ["1e-06", "absent", "0.01"], "dev"),
    ("axis", [-1, 2, 1], "dev"),
    ("stash", ["1", "absent", "11"], "dev"),
    ("sum_out", lambda c: ["none", "final"] + (["inner"] if c["bias"] in ("post", "post_comm") else []), "dev"),
    ("extra_norm_out", [False, True], "dev"),
    ("sym", [False, True], "dev"),
]


def _skip_near(c):
    out = []
    for p, bad in (("axis", (2, 1)), ("skip_shape", ("1SD", "SD", "11D")), ("bias_shape", ("11D", "SD", "1")),
                   ("gamma_shape", ("1",)), ("stash", ("11",)), ("extra_norm_out", (True,)), ("beta", ("absent", "1")),
                   ("sum_out", ("inner",)), ("bias", ("post_comm", "pre_comm"))):
        if c.get(p) in bad:
            out.append(f"{p}={c[p]}")
    return out


def _skip_valid(c):
    if c.get("norm_form") == "pattern" and (c["extra_norm_out"] or c["stash"] != "1" or c["gamma_shape"] != "D"):
        return False
    return True


family("skip_rms", "quick", SKIP_COMMON + [("norm_form", ["op", "pattern"], "dev")],
       lambda c: _build_skip(c, "rms"),
       lambda c: [("skip_rms_normalization", ["skip_rms"])] if c["norm_form"] == "op"
       else [("rms+skip_rms_normalization", ["rms", "skip_rms"])],
       valid=_skip_valid, near=_skip_near)

family("skip_ln", "quick", SKIP_COMMON + [("beta", ["D", "absent", "1"], "dev")],
       lambda c: _build_skip(c, "ln"), lambda c: [("skip_layer_normalization", ["skip_ln"])],
       near=_skip_near)

# ---------------------------------------------------------------------------------------------
# GELU (tanh)    gelu_test.py::gelu_model
# ---------------------------------------------------------------------------------------------

_S2PI = math.sqrt(2.0 / math.pi)
_SQRT2 = math.sqrt(2.0)
ELT_SHAPES = {"234": [2, 3, 4], "4": [4], "0d": [], "1x8": [1, 8]}


def _c(g, c, v, dt):
    arr = np.asarray(v, dtype=NP[dt])
    if c["const_shape"] == "[1]":
        arr = arr.reshape([1])
    return g.const(arr, init=c["const_kind"] == "init")


def build_gelu_tanh(c):
    dt = {"f32": F32, "f16": F16}[c["dtype"]]
    npdt = NP[dt]
    shape = ELT_SHAPES[c["shape"]]
    g = G()
    x = g.inp("x", dt, shape)
    if c["pow"] == "3.0":
        t1 = g.op("Pow", x, g.const(3.0, dt))
    elif c["pow"] == "3i":
        t1 = g.op("Pow", x, g.const(np.int64(3)))
    else:
        t1 = g.op("Mul", g.op("Mul", x, x), x)
    t2 = _binop(g, "Mul", _c(g, c, cvar(0.044715, c["c_a"], npdt), dt), t1, c["o1"])
    t3 = _binop(g, "Add", x, t2, c["o2"])
    t4 = _binop(g, "Mul", _c(g, c, cvar(_S2PI, c["c_b"], npdt), dt), t3, c["o3"])
    t5 = g.op("Tanh", t4)
    t6 = _binop(g, "Add", t5, _c(g, c, cvar(1.0, c["c_one"], npdt), dt), c["o4"])
    t7 = _binop(g, "Mul", _c(g, c, cvar(0.5, c["c_half"], npdt), dt), t6, c["o5"])
    out = _binop(g, "Mul", x, t7, c["o6"])
    g.out(out, dt)
    if c["extra_out"]:
        g.out(t5, dt)
    return g.model(), g.feeds_spec


def _flags(names):
    return [(n, [False, True], "dev") for n in names]


def _gelu_near(c):
    out = [f"{k}={c[k]}" for k in ("c_a", "c_b", "c_one", "c_half", "c_s2") if c.get(k) in ("+1e-3", "-1e-3", "*1.25")]
    out += [f"{k}" for k in ("o1", "o2", "o3", "o4", "o5", "o6") if c.get(k)]
    if c.get("const_shape") == "[1]":
        out.append("const_shape=[1]")
    if c.get("pow") == "xxx":
        out.append("pow=xxx")
    return out


family("gelu_tanh", "quick",
       [("shape", list(ELT_SHAPES), "all"), ("dtype", ["f32", "f16"], "dev"),
        ("c_a", CVAR, "dev"), ("c_b", CVAR, "dev"), ("c_one", CVAR, "dev"), ("c_half", CVAR, "dev"),
        ("const_shape", ["[]", "[1]"], "dev"), ("const_kind", ["node", "init"], "dev"),
        ("pow", ["3.0", "3i", "xxx"], "dev")] + _flags(["o1", "o2", "o3", "o4", "o5", "o6"]) +
       [("extra_out", [False, True], "dev")],
       build_gelu_tanh, lambda c: [("gelu", ["gelu"])], near=_gelu_near)

# ---------------------------------------------------------------------------------------------
# GELU (erf): three association forms; gelu.py::GeluErfFusion (A), erfgelu.py pattern_1 (B), pattern_2 (C)
# ---------------------------------------------------------------------------------------------


def build_erf(c):
    dt = {"f32": F32, "f16": F16}[c["dtype"]]
    npdt = NP[dt]
    shape = [2, 3, c["D"]] if c["shape"] == "23D" else [c["D"]]
    g = G()
    x = g.inp("x", dt, shape)
    if c["bias"] != "none":
        bshape = {"D": [c["D"]], "1": [1], "1D": [1, c["D"]]}[c["bias"]]
        b = g.inp("bias", dt, bshape)
        x = _binop(g, "Add", x, b, c["ob"])
    s2 = cvar(_SQRT2, c["c_s2"], npdt)
    if c["div"] == "Div":
        t1 = g.op("Div", x, _c(g, c, s2, dt))
    else:
        t1 = g.op("Mul", x, _c(g, c, 1.0 / s2, dt))
    t2 = g.op("Erf", t1)
    one = _c(g, c, cvar(1.0, c["c_one"], npdt), dt)
    half = _c(g, c, cvar(0.5, c["c_half"], npdt), dt)
    t3 = _binop(g, "Add", t2, one, c["o1"])
    if c["form"] == "A":      # (x * (erf+1)) * 0.5
        t4 = _binop(g, "Mul", x, t3, c["o2"])
        out = _binop(g, "Mul", t4, half, c["o3"])
    elif c["form"] == "B":    # 0.5 * (x * (erf+1))
        t4 = _binop(g, "Mul", x, t3, c["o2"])
        out = _binop(g, "Mul", half, t4, c["o3"])
    else:                     # x * (0.5 * (erf+1))
        t4 = _binop(g, "Mul", half, t3, c["o2"])
        out = _binop(g, "Mul", x, t4, c["o3"])
    g.out(out, dt)
    return g.model(), g.feeds_spec


family("gelu_erf", "quick",
       [("form", ["A", "B", "C"], "all"), ("D", [4, 8], "all"), ("shape", ["23D", "D"], "all"),
        ("dtype", ["f32", "f16"], "dev"),
        ("c_s2", CVAR, "dev"), ("c_one", CVAR, "dev"), ("c_half", CVAR, "dev"),
        ("div", ["Div", "MulRecip"], "dev"), ("const_shape", ["[]", "[1]"], "dev"),
        ("const_kind", ["node", "init"], "dev"), ("bias", ["none", "D"], "dev"),
        ("ob", lambda c: [False] if c["bias"] == "none" else [False, True], "dev")] + _flags(["o1", "o2", "o3"]),
       build_erf, lambda c: [("gelu", ["gelu"]), ("erf_gelu", ["erfgelu"])] +
       ([("erf_gelu+bias_gelu", ["erfgelu", "bias_gelu"])] if c["bias"] != "none" else []),
       near=lambda c: _gelu_near(c) + ([f"bias={c['bias']}"] if c["bias"] in ("1", "1D") else []) +
       (["div=MulRecip"] if c["div"] != "Div" else []))

# ---------------------------------------------------------------------------------------------
# Bias + Gelu op     bias_gelu_test.py
# ---------------------------------------------------------------------------------------------


def build_bias_gelu(c):
    dt = {"f32": F32, "f16": F16}[c["dtype"]]
    B, S, D = c["B"], c["S"], c["D"]
    ishape = {"BSD": [B, S, D], "SD": [S, D], "D": [D], "BS1": [B, S, 1]}[c["in_shape"]]
    bshape = {"D": [D], "1": [1], "0d": [], "1D": [1, D], "SD": [S, D]}[c["bias_shape"]]
    g = G(opset=20)
    x = g.inp("x", dt, ishape)
    if c["bias_kind"] == "input":
        b = g.inp("y", dt, bshape)
    else:
        b = g.const((np.arange(int(np.prod(bshape)) if bshape else 1).reshape(bshape) % 5 - 2) * 0.25, dt,
                    init=c["bias_kind"] == "init")
    s = _binop(g, "Add", x, b, c["order"] == "bias+input")
    if c["gelu"] == "onnx":
        out = g.op("Gelu", s, approximate=None if c["approx"] == "absent" else c["approx"])
    else:
        out = g.ms_op("Gelu", s)
    g.out(out, dt)
    if c["extra_out"]:
        g.out(s, dt)
    return g.model(), g.feeds_spec


def _bg_near(c):
    out = []
    for p, bad in (("bias_shape", ("1", "0d", "1D", "SD")), ("in_shape", ("BS1", "D")), ("approx", ("tanh",)),
                   ("extra_out", (True,))):
        if c.get(p) in bad:
            out.append(f"{p}={c[p]}")
    return out


family("bias_gelu", "quick",
       BSD + [("gelu", ["onnx", "ms"], "all"), ("dtype", ["f32", "f16"], "dev"),
              ("in_shape", ["BSD", "SD", "D", "BS1"], "dev"),
              ("bias_shape", ["D", "1", "0d", "1D", "SD"], "dev"),
              ("bias_kind", ["input", "node", "init"], "dev"),
              ("order", ["input+bias", "bias+input"], "dev"),
              ("approx", lambda c: ["absent", "none", "tanh"] if c["gelu"] == "onnx" else ["absent"], "dev"),
              ("extra_out", [False, True], "dev")],
       build_bias_gelu, lambda c: [("bias_gelu", ["bias_gelu"])], near=_bg_near,
       canon=lambda kind, fusion, c, detail: "bias-length!=input-last-dim" if kind == "ort-load-fails" else None)

# ---------------------------------------------------------------------------------------------
# Softmax upcast removal     softmax_test.py
# ---------------------------------------------------------------------------------------------

SM_SHAPES = {"234": [2, 3, 4], "4": [4], "23": [2, 3], "2134": [2, 1, 3, 4]}


def build_softmax(c):
    idt = {"f16": F16, "f32": F32, "f64": F64}[c["in_dtype"]]
    up = {"f32": F32, "f64": F64, "f16": F16}[c["up"]]
    down = {"f16": F16, "f32": F32, "f64": F64}[c["down"]]
    shape = SM_SHAPES[c["shape"]]
    g = G(opset=c["opset"], ms=False)
    x = g.inp("x", idt, shape, decl=_decl(shape, c["sym"]) if shape else shape)
    u = g.op("Cast", x, to=up)
    s = g.op("Softmax", u, axis=None if c["axis"] == "absent" else int(c["axis"]))
    z = g.op("Cast", s, to=down)
    g.out(z, down)
    if c["extra_out"]:
        g.out(s, up)
    return g.model(), g.feeds_spec


def _sm_valid(c):
    r = len(SM_SHAPES[c["shape"]])
    if c["axis"] != "absent" and not (-r <= int(c["axis"]) < r):
        return False
    return True


family("softmax", "quick",
       [("shape", list(SM_SHAPES), "all"), ("axis", ["-1", "absent", "0", "1", "-2"], "all"),
        ("in_dtype", ["f16", "f32", "f64"], "dev"), ("up", ["f32", "f64", "f16"], "dev"),
        ("down", ["f16", "f32", "f64"], "dev"), ("opset", [18, 13, 11], "dev"),
        ("extra_out", [False, True], "dev"), ("sym", [False, True], "dev")],
       build_softmax, lambda c: [("softmax", ["softmax"])], valid=_sm_valid,
       near=lambda c: [f"{p}={c[p]}" for p, d in (("in_dtype", "f16"), ("up", "f32"), ("down", "f16"),
                                                   ("extra_out", False)) if c[p] != d])

# ---------------------------------------------------------------------------------------------
# FusedMatMul rule set     fused_matmul_rule_sets_test.py
# ---------------------------------------------------------------------------------------------

_M, _K, _N = 2, 3, 4
_BATCH = {2: [], 3: [5], 4: [5, 6]}


def _perms(rank):
    # every permutation of the rank (not a hand-picked subset: a seeded defect needed [1, 0, 3, 2]); the
    # historically "relevant" ones first so that counterexamples stay short
    import itertools
    first = {2: [[1, 0]],
             3: [[0, 2, 1], [1, 2, 0], [2, 0, 1], [1, 0, 2], [2, 1, 0]],
             4: [[0, 1, 3, 2], [1, 2, 3, 0], [3, 0, 1, 2], [1, 2, 0, 3], [2, 0, 1, 3], [3, 1, 2, 0], [0, 2, 1, 3]]}[rank]
    rest = [list(p) for p in itertools.permutations(range(rank)) if list(p) not in first]
    return ["none", "noattr"] + first + rest


FMM_ATTRS = ["MatMul", {}, {"alpha": 0.5}, {"transA": 1}, {"transB": 1}, {"transA": 1, "transB": 1},
             {"transBatchA": 1}, {"transBatchB": 1}, {"transBatchA": 1, "transA": 1},
             {"transBatchB": 1, "transB": 1}, {"transBatchA": 1, "transBatchB": 1, "alpha": 2.0}]


def _inv_apply(shape, perm):
    """shape of the tensor BEFORE np.transpose(.., perm) given the shape after."""
    before = [0] * len(perm)
    for i, p in enumerate(perm):
        before[p] = shape[i]
    return before


def _operand_shape(logical, rank, fmm, side, tr):
    """Shape the graph input must have so that, after the explicit Transpose (tr) and the (Fused)MatMul's own
    trans/transBatch flags, the operand is logical = batch + [rows, cols]."""
    shape = list(logical)
    if isinstance(fmm, dict):
        if fmm.get("trans" + side):
            shape = _inv_apply(shape, list(range(rank - 2)) + [rank - 1, rank - 2])
        if fmm.get("transBatch" + side):
            perm = [*range(1, rank - 1), 0, rank - 1]
            shape = _inv_apply(shape, perm)
    if tr == "noattr":
        shape = shape[::-1]
    elif tr != "none":
        shape = _inv_apply(shape, tr)
    return shape


def build_fused_matmul(c):
    rank = c["rank"]
    dt = {"f32": F32, "f16": F16}[c["dtype"]]
    batch = _BATCH[rank]
    fmm = c["mm"]
    g = G()
    a_shape = _operand_shape(batch + [_M, _K], rank, fmm, "A", c["trA"])
    b_shape = _operand_shape(batch + [_K, _N], rank, fmm, "B", c["trB"])
    a = g.inp("A", dt, a_shape, role="small")
    b = g.inp("B", dt, b_shape, role="small")

    def tr(v, t):
        if t == "none":
            return v
        return g.op("Transpose", v) if t == "noattr" else g.op("Transpose", v, perm=t)
    a2, b2 = tr(a, c["trA"]), tr(b, c["trB"])
    if fmm == "MatMul":
        y = g.op("MatMul", a2, b2)
    else:
        y = g.ms_op("FusedMatMul", a2, b2, **fmm)
    for d in c["div"]:
        val, shp = d
        cst = g.const(np.full(shp, val) if shp != "vec" else np.array([val, val * 2][: _N] + [val] * (_N - 2)), dt,
                      init=c["const_kind"] == "init")
        y = g.op("Div", y, cst)
    y = tr(y, c["trOut"])
    g.out(y, dt)
    return g.model(), g.feeds_spec


DIVS = [[], [[2.0, []]], [[0.8, [1]]], [[2.0, [1, 1]]], [[2.0, [1, 1, 1, 1, 1]]], [[2.0, "vec"]],
        [[0.6, []], [0.6, []]], [[-4.0, []]]]


def _fmm_valid(c):
    rank = c["rank"]
    fmm = c["mm"]
    if isinstance(fmm, dict) and rank < 3 and (fmm.get("transBatchA") or fmm.get("transBatchB")):
        return False
    return True


def _fmm_near(c):
    out = []
    rank = c["rank"]
    swap = list(range(rank - 2)) + [rank - 1, rank - 2]
    for k in ("trA", "trB", "trOut"):
        if c[k] not in ("none", swap) and not (c[k] == "noattr" and rank == 2):
            out.append(f"{k}={c[k]}")
    if c["trOut"] != "none" and rank > 2:
        out.append("trOut-rank>2")
    for d in c["div"]:
        if d[1] not in ([], [1]):
            out.append(f"div-shape={d[1]}")
    return sorted(set(out))


def _fmm_canon(kind, fusion, c, detail):
    rank = c["rank"]
    if kind == "raises" and "'perm'" in detail:
        return "Transpose-without-perm-feeding-FusedMatMul-rank>2"

    def swapped(t):
        return t == list(range(rank - 2)) + [rank - 1, rank - 2] or (t == "noattr" and rank == 2)
    fmm = c["mm"] if isinstance(c["mm"], dict) else {}
    ta = bool(fmm.get("transA")) != swapped(c["trA"])
    tb = bool(fmm.get("transB")) != swapped(c["trB"])
    if c["trOut"] != "none" and ta != tb and not c["div"]:
        return "output-Transpose-of-FusedMatMul-with-transA!=transB"
    return None


family("fused_matmul", "quick",
       [("rank", [2, 3, 4], "all"),
        ("mm", FMM_ATTRS, "dev"),
        ("trA", lambda c: _perms(c["rank"]), "dev"), ("trB", lambda c: _perms(c["rank"]), "dev"),
        ("trOut", lambda c: _perms(c["rank"]), "dev"),
        ("div", DIVS, "dev"), ("dtype", ["f32", "f16"], "dev"), ("const_kind", ["node", "init"], "dev")],
       build_fused_matmul, lambda c: [("fused_matmul", ["fused_matmul"])], valid=_fmm_valid, near=_fmm_near,
       canon=_fmm_canon)

# ---------------------------------------------------------------------------------------------
# InstanceNormalization simulating GroupNorm     instance_to_group_normalization_test.py
# ---------------------------------------------------------------------------------------------


def build_inst2group(c):
    dt = {"f32": F32, "f16": F16}[c["dtype"]]
    N, C, gr = c["N"], c["C"], c["groups"]
    H, W = c["HW"]
    g = G(opset=17)
    x = g.inp("image", dt, [N, C, H, W])
    adj = {"0g-1": [0, gr, -1], "Ng-1": [N, gr, -1], "0g-1_4d": [0, gr, -1, 1]}[c["adj"]]
    r1 = g.op("Reshape", x, g.i64(adj))
    wn = np.ones(gr) if c["w_norm"] == "ones" else np.linspace(0.5, 1.5, gr)
    bn = np.zeros(gr) if c["b_norm"] == "zeros" else np.linspace(-0.5, 0.5, gr)
    inorm = g.op("InstanceNormalization", r1, g.const(wn, dt, init=True), g.const(bn, dt, init=True),
                 epsilon=c["eps"])
    orig = {"NCHW": [N, C, H, W], "0CHW": [0, C, H, W], "N-1HW": [N, -1, H, W]}[c["orig"]]
    r2 = g.op("Reshape", inorm, g.i64(orig))
    wshape = {"C11": [C, 1, 1], "1C11": [1, C, 1, 1], "C1W": [C, 1, W], "111": [1, 1, 1]}[c["w_shape"]]
    n = int(np.prod(wshape))
    wf = (np.arange(n) % 5 * 0.25 + 0.5).reshape(wshape)
    bf = ((np.arange(n) % 3) * 0.5 - 0.5).reshape(wshape)
    if c["wb_kind"] == "input":
        w = g.inp("weight_full", dt, wshape, role="scale")
        b = g.inp("bias_full", dt, wshape)
    else:
        w = g.const(wf, dt, init=True)
        b = g.const(bf, dt, init=True)
    mul = _binop(g, "Mul", r2, w, c["o1"])
    out = _binop(g, "Add", mul, b, c["o2"])
    g.out(out, dt)
    return g.model(), g.feeds_spec


def _i2g_valid(c):
    H, W = c["HW"]
    return (c["C"] * H * W) % c["groups"] == 0


def _i2g_near(c):
    out = []
    if c["C"] % c["groups"]:
        out.append("C%groups!=0")
    for p, d in (("adj", "0g-1"), ("orig", "NCHW"), ("w_shape", "C11"), ("w_norm", "ones"), ("b_norm", "zeros"),
                 ("o1", False), ("o2", False)):
        if c[p] != d:
            out.append(f"{p}={c[p]}")
    return out


family("inst2group", "quick",
       [("N", [1, 2], "all"), ("C", [4, 6], "all"), ("groups", [2, 4, 1], "all"), ("HW", [[2, 2], [1, 3]], "all"),
        ("dtype", ["f32", "f16"], "dev"), ("eps", [1e-5, 1e-3, 0.0], "dev"),
        ("adj", ["0g-1", "Ng-1", "0g-1_4d"], "dev"), ("orig", ["NCHW", "0CHW", "N-1HW"], "dev"),
        ("w_shape", ["C11", "1C11", "C1W", "111"], "dev"), ("w_norm", ["ones", "other"], "dev"),
        ("b_norm", ["zeros", "other"], "dev"), ("wb_kind", ["init", "input"], "dev")] + _flags(["o1", "o2"]),
       build_inst2group, lambda c: [("instance_to_group_normalization", ["inst2group"])], valid=_i2g_valid,
       near=_i2g_near)
