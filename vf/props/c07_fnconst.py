"""C07 family ``fnconst``: an as_function rewrite whose matched nodes read a CONSTANT that is not an operand of the call
(the pattern mentions it as a literal), over element types and constant forms.

    t = Mul(x, c) ; out = Add(t, y)          rule: Add(Mul(x, 2.0), y) -> c07.fn::Fused(x, y)   (as_function=True)

The extracted function must contain the matched nodes AND a faithful copy of the constant: same element type, rank and
value (seeded C07g rewrote rank-0 constants as value_float / value_int, losing the element type).  Dimensions, all
enumerated: element type {f32, f64, f16, bf16?, i32, i64} (bf16 decided by onnx.reference alone), constant rank {0, 1},
constant source {initializer, Constant node}, site {main, then-branch of an If}, value {2, 0.5 (floats only)}.
Oracle: onnx.checker(full_check) on the result, and equal outputs before/after on two inputs (ORT, else onnx.reference).
"""
from __future__ import annotations

import numpy as np
import onnx
from onnx import TensorProto as T
from onnx import helper as h
from onnx import numpy_helper as nh

DTYPES = {"f32": (T.FLOAT, np.float32), "f64": (T.DOUBLE, np.float64), "f16": (T.FLOAT16, np.float16),
          "i32": (T.INT32, np.int32), "i64": (T.INT64, np.int64)}


def plan_items():
    out = []
    for dt in DTYPES:
        for rank in (0, 1):
            for src in ("init", "const"):
                for site in ("main", "then"):
                    for val in ((2, 0.5) if dt.startswith("f") else (2,)):
                        out.append({"fam": "fnconst", "rule": "mulc_add_fn", "dtype": dt, "rank": rank, "src": src,
                                    "site": site, "val": val, "blocks": [], "extra": "none", "meta": "off",
                                    "clash": "none", "kind": "fnconst"})
    return out


def build(item):
    et, npdt = DTYPES[item["dtype"]]
    c = np.array(item["val"], dtype=npdt).reshape(() if item["rank"] == 0 else (1,))
    vi = lambda n, e=et, s=(2, 3): h.make_tensor_value_info(n, e, list(s))   # noqa: E731
    inits, pre = [], []
    if item["src"] == "init":
        inits.append(nh.from_array(c, "c"))
    else:
        pre.append(h.make_node("Constant", [], ["c"], value=nh.from_array(c, "c_t"), name="c_node"))
    body = pre + [h.make_node("Mul", ["x", "c"], ["t"], name="mul"), h.make_node("Add", ["t", "y"], ["r"], name="add")]
    if item["site"] == "main":
        nodes, out = body, "r"
        g_inits = inits
    else:
        tg = h.make_graph(body, "then_g", [], [vi("r")], initializer=inits)
        eg = h.make_graph([h.make_node("Sub", ["x", "y"], ["e"], name="sub")], "else_g", [], [vi("e")])
        nodes, out = [h.make_node("If", ["cond"], ["o"], name="if", then_branch=tg, else_branch=eg)], "o"
        g_inits = []
    ins = [vi("x"), vi("y")] + ([vi("cond", T.BOOL, ())] if item["site"] == "then" else [])
    g = h.make_graph(nodes, "fnconst", ins, [vi(out)], initializer=g_inits)
    m = h.make_model(g, opset_imports=[h.make_opsetid("", 18)], ir_version=10)
    base = np.array([[0, -1, 2], [3, -2, 1]])
    feeds = []
    for k, sc in enumerate((1, 3)):
        f = {"x": (base * sc).astype(npdt), "y": (base[::-1] + k).astype(npdt)}
        if item["site"] == "then":
            f["cond"] = np.array(True)
        feeds.append(f)
    if item["site"] == "then":
        f = dict(feeds[0])
        f["cond"] = np.array(False)
        feeds.append(f)
    return m, feeds


def make_rule(item):
    from onnxscript.rewriter import pattern
    lit = float(item["val"]) if item["dtype"].startswith("f") else int(item["val"])

    def pat(op, x, y):
        return op.Add(op.Mul(x, lit), y)

    def rep(op, x, y):
        return op.Fused(x, y, _domain="c07.fn")
    return pattern.RewriteRule(pat, rep, name="c07fnconst", as_function=True)


def execute(item):
    """-> result dict in the cli format"""
    from vf import runeq
    import onnxscript.rewriter
    m, feeds = build(item)
    show = f"fnconst {item['dtype']} rank{item['rank']} {item['src']} {item['site']} c={item['val']}"
    nkey = "fnconst|" + show
    try:
        onnx.checker.check_model(m, full_check=True)
        sess0 = runeq.make_session(m.SerializeToString())
        base = []
        for f in feeds:
            o, why = runeq.admit(m, f, sess0)
            if o is None:
                return {"status": "skip", "skip": "orig-" + why, "outcome": "skip:orig-" + why, "nkey": nkey, "show": show}
            base.append(o)
    except Exception as e:  # noqa: BLE001
        return {"status": "skip", "skip": "orig-invalid", "outcome": "skip:orig-invalid", "nkey": nkey,
                "show": show + f" {type(e).__name__}"}
    viols = []
    cls = f"{item['dtype']},rank{item['rank']}"

    def bad(kind, what):
        viols.append({"key": f"C07|{kind}|mulc_add_fn|{cls}", "detail": {"what": what[:400], "case": show}})
    try:
        m2 = onnxscript.rewriter.rewrite(onnx.ModelProto.FromString(m.SerializeToString()), [make_rule(item)])
    except Exception as e:  # noqa: BLE001
        bad("raised", f"{type(e).__name__}: {e}")
        return {"status": "viol", "outcome": "fnconst:raised", "viols": viols, "nkey": nkey, "show": show}
    fired = any(f.domain == "c07.fn" for f in m2.functions)
    if not fired:
        # whether the literal of the pattern matches a constant of this element type is C06's business
        return {"status": "ok", "outcome": "fnconst:not-applied", "nontrivial": False, "nkey": nkey, "show": show}
    try:
        onnx.checker.check_model(m2, full_check=True)
    except Exception as e:  # noqa: BLE001
        if item["site"] == "then" and "No Opset registered for domain" in str(e):
            # the known as_function-inside-a-subgraph defect (function emitted without opset imports): one key, not
            # one per element type; nothing else can be concluded from this leaf
            viols.append({"key": "C07|invalid-checker|mulc_add_fn|then:plain", "detail": {"what": str(e)[:300], "case": show}})
            return {"status": "viol", "outcome": "fnconst:known-subgraph-import", "viols": viols, "nkey": nkey, "show": show}
        bad("invalid-checker", str(e))
    # the constant captured in the function keeps element type, rank and value
    want_et = DTYPES[item["dtype"]][0]
    for f in m2.functions:
        if f.domain != "c07.fn":
            continue
        for n in f.node:
            if n.op_type == "Constant":
                a = n.attribute[0]
                if a.name != "value":
                    got_et = {"value_float": T.FLOAT, "value_int": T.INT64, "value_floats": T.FLOAT,
                              "value_ints": T.INT64}.get(a.name)
                    if got_et != want_et:
                        bad("fn-body", f"captured constant written as {a.name} (element type {got_et}) instead of {want_et}")
                elif a.t.data_type != want_et or list(a.t.dims) != ([] if item["rank"] == 0 else [1]):
                    bad("fn-body", f"captured constant has type {a.t.data_type} dims {list(a.t.dims)}")
    if not viols:
        try:
            sess = runeq.make_session(m2.SerializeToString())
            for fi, (f, want) in enumerate(zip(feeds, base)):
                got = runeq.run_ort(m2, f, sess)
                d = runeq.compare(want, got)
                if d:
                    bad("not-equivalent", f"feed {fi}: {d}")
                    break
        except runeq.RunError as e:
            bad("ort-load", e.msg)
    return {"status": "viol" if viols else "ok", "outcome": "fnconst:" + ("viol" if viols else "equivalent"),
            "viols": viols, "nkey": nkey, "show": show}
