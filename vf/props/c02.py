"""C02 - every proto the converter emits is well-formed ONNX; bad programs are refused at decoration.

Leaves: (a) every program of the C01 grammar (same two bounded-exhaustive sub-explorations): if accepted, its
ModelProto / FunctionProto go through onnx.checker (full_check with a rank-typed signature) and the
independent walker vf.wf in strict mode; (b) for every base program of a small exhaustive family, EVERY one-step
grammar-violating mutant (mutation kind x site) must raise while the decorator runs with the source position
of the offending statement in the message.
"""
from __future__ import annotations

import copy
import re

from vf import explore, sg, sggen

ID = "C02"
LEVEL = "model_checking"
RULE = ("(a) the C01 program space (dataflow: size-bounded control skeletons x def/use placements; operator: every "
        "op/call form x operand source x context within a deviation bound), each accepted program checked with "
        "onnx.checker.check_model(full_check=True) on a rank-typed signature, check_function, and vf.wf "
        "(local_sub_outputs, no_input_as_output) on both protos; (b) base programs x every mutation kind "
        "(undefined variable on a path, return inside a branch/loop, shadowing nested function, ~25 "
        "unsupported statement/expression forms, break not last, bare break, while <expr>) x every site. "
        "distinct_nontrivial = distinct accepted programs checked + distinct mutants decorated")
ASSUMPTIONS = ["onnx 1.22 checker / shape inference is the reference for ONNX validity; vf.wf adds the cross-subgraph "
               "SSA and scoping rules the checker does not enforce for function bodies",
               "the documented subset is docs/tutorial/index.md (definitions on all paths, break only last, "
               "'while <name>', no shadowing in nested functions); mutants outside it are required to be refused, "
               "others are counted as supported when accepted",
               "the definite-assignment analysis in vf/c02lib.py decides which deletions make a use possibly unbound"]


def plan(tier, seed):
    st = explore.Stats()
    items, fam = sggen.enumerate_plan(tier, st)
    # slicing subscripts placed in every position of every control skeleton of size <= 3 (rendered and decorated only)
    import json as _json
    seen_s = set()
    n0 = len(items)
    drv_s = sggen.df_driver(sggen.DFConfig(size=3 if tier == "quick" else 4, depth=1 if tier == "quick" else 2,
                                           alphabet="slices", kinds=["if", "for", "while"], ivar_after=False))
    for picks, case in explore.explore(drv_s, bound=0, stats=st):
        key = _json.dumps(case["prog"], sort_keys=True)
        if key not in seen_s:
            seen_s.add(key)
            case["fam"] = "df-slices"
            items.append(case)
    fam["df-slices"] = len(items) - n0
    # locals renamed to look like the parameter / like translator-generated names, in every position of every
    # control skeleton of size <= 3 / 4 (alphabet includes the alias 'v = u' and the self-update 'u = u + x')
    n0 = len(items)
    quick = tier == "quick"
    # thorough: size 4 over the alias alphabet with every renaming (140k programs; size 4 over the reduced alphabet with
    # three prologues/returns was 589k - not a feasible tier)
    drv_r = sggen.df_driver(sggen.DFConfig(
        size=3 if quick else 4, depth=1, alphabet="alias", kinds=["if", "for"], ivar_after=False,
        renames=[r for r in sggen.RENAMES if not quick or r[0] in sggen.RENAMES_QUICK],
        prologues=["vc", "none"], returns=["u,v", "v"]))
    for picks, case in explore.explore(drv_r, bound=0, stats=st):
        key = _json.dumps(case["prog"], sort_keys=True)
        if key not in seen_s:
            seen_s.add(key)
            case["fam"] = "df-rename"
            items.append(case)
    fam["df-rename"] = len(items) - n0
    for it in items:
        it["kind"] = "accept"
    # the operator family (deviation bound 0/1) and the small dataflow family decorated with other generated opset
    # classes: the emitted protos must be valid for the opset they declare (found while writing a C14 event: a
    # literal next to a tensor is promoted through CastLike, which does not exist below opset 15)
    n0 = len(items)
    opsets = (13, 21) if quick else (13, 14, 15, 16, 19, 21, 23)
    for it in list(items):
        if (it.get("fam") == "op-b1" and it["spec"]["context"] == 0) or \
                (it.get("fam") == "op-b2" and it["spec"]["context"] == 0 and it["spec"]["chain"] == 0) or \
                (not quick and it.get("fam") == "df-full-s2-periph1"):
            for n in opsets:
                it2 = dict(it)
                it2["kind"] = "accept_opset"
                it2["opset"] = n
                it2["fam"] = "opsets"
                items.append(it2)
    fam["opsets"] = len(items) - n0
    # bases for the mutation table: the small exhaustive dataflow family with default peripherals, plus the
    # all-default operator programs
    size = 2 if tier == "quick" else 3
    bases = []
    seen = set()
    drv = sggen.df_driver(sggen.DFConfig(size=size, depth=1 if tier == "quick" else 2, ivar_after=False))
    for picks, case in explore.explore(drv, bound=0, stats=st):
        key = sg.compact(case["prog"])
        if key not in seen:
            seen.add(key)
            bases.append({"kind": "mutants", "sub": "df", "prog": case["prog"], "fam": "mut-df"})
    for picks, case in explore.explore(sggen.op_driver(), bound=0, stats=st):
        key = sg.compact(case["prog"])
        if key not in seen:
            seen.add(key)
            bases.append({"kind": "mutants", "sub": "op", "prog": case["prog"], "fam": "mut-op", "spec": case["spec"],
                          "cfg": case["cfg"]})
    fam["mutation-bases"] = len(bases)
    d = st.as_dict()
    d["exhaustive"] = not st.capped
    d["dimensions"] = {k: len(v) for k, v in st.dim_hist.items()}
    d["families"] = fam
    return items + bases, d


def execute(item):
    from vf import c02lib
    if item["kind"] == "accept":
        return c02lib.check_accepted(item)
    if item["kind"] == "accept_opset":
        return c02lib.check_accepted_opset(item)
    return c02lib.check_mutants(item)


def summarize(items, results, tier):
    acc = sum(1 for r in results if str(r.get("outcome", "")).startswith("accepted"))
    ref = sum(1 for r in results if str(r.get("outcome", "")).startswith("refused"))
    return {"programs_accepted": acc, "programs_refused": ref}
