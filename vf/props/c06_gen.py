"""C06 case generators: choice-tree drivers for patterns and host graphs (plain data), and the builders that
turn them into real rewriter pattern objects / ir graphs.  The drivers never touch onnxscript."""
from __future__ import annotations

from vf import explore

OPS = ["Neg", "Add", "Sub", "Split"]
ARITY = {"Neg": 1, "Add": 2, "Sub": 2, "Split": 1}
NOUT = {"Neg": 1, "Add": 1, "Sub": 1, "Split": 2}
DOMAIN = "custom.domain"

_B36 = "0123456789abcdefghijklmnopqrstuvwxyz"


def enc(picks):
    return "".join(_B36[p] for p in picks)


def dec(s):
    return [_B36.index(c) for c in s]


# ---------------------------------------------------------------------------------------------
# Pattern driver
# ---------------------------------------------------------------------------------------------

class _PG:
    focus = None     # "opt": menus restricted to the optional-value / optional-attribute features (see pattern_driver)

    def __init__(self, ch, max_nodes):
        self.ch = ch
        self.budget = max_nodes
        self.nodes = {}            # id -> node dict (ids in creation order: producers before consumers)
        self.vars = []             # value-variable names in order of creation
        self.nopt = 0
        self.nor = 0

    def new_var(self):
        name = "xyzwuvst"[len(self.vars)] if len(self.vars) < 8 else "v%d" % len(self.vars)
        self.vars.append(name)
        return ["x", name, False]

    def leaf(self, allow_or, alt=False):
        ch = self.ch
        # an OR alternative is a ValuePattern: the absent input (None) is not one
        menu = ["new"] + ["rep:" + v for v in self.vars] + ["c1", "cv"] + ([] if alt else ["none"]) + ["opt", "any"]
        for i in sorted(self.nodes):
            for k in range(len(self.nodes[i]["outs"])):
                menu.append(f"sh:{i}.{k}")
        if allow_or:
            menu.append("or")
        if self.focus == "opt":
            # only the optional-variable features: a fresh optional variable, or an optional variable used AGAIN
            menu = ["new"] + ["rep:" + v for v in self.vars] + ["opt"] + ["optrep:o%d" % (j + 1) for j in range(self.nopt)]
        l = ch.choose("leaf", menu)
        if l.startswith("optrep:"):
            return ["x", l[7:], True]
        if l == "new":
            return self.new_var()
        if l.startswith("rep:"):
            return ["x", l[4:], False]
        if l == "c1":
            return ["k", 1.0]
        if l == "cv":
            return ["k", [1, 2]]
        if l == "none":
            return None
        if l == "opt":
            self.nopt += 1
            return ["x", "o%d" % self.nopt, True]
        if l == "any":
            return ["any"]
        if l.startswith("sh:"):
            i, k = l[3:].split(".")
            return ["o", int(i), int(k)]
        # OR of two alternatives; each alternative: a leaf, or ONE new node-pattern over leaves (not charged to the skeleton budget)
        before = self.budget
        alts = []
        for _ in range(2):
            self.budget = 1
            alts.append(self.value(False, alt=True))
        self.budget = before
        name = ch.choose("orname", [None, "orv"])
        tag = ch.choose("ortag", [None, "tag", "tagvals"])
        self.nor += 1
        sfx = "" if self.nor == 1 else str(self.nor)     # every OR has its own value name / tag variable
        return ["or", alts, name + sfx if name else None, "tg" + sfx if tag else None,
                ["A", "B"] if tag == "tagvals" else None]

    def value(self, allow_or=True, alt=False):
        ch = self.ch
        opts = ["leaf"]
        if self.budget > 0:
            opts += ["Neg", "Add", "Sub", "Split.0"] + ([] if alt else ["Split.1"])
        c = ch.all("pos", opts)
        if c == "leaf":
            return self.leaf(allow_or, alt)
        self.budget -= 1
        op, _, k = c.partition(".")
        nid = self.node(op, allow_or)
        return ["o", nid, int(k or 0)]

    def node(self, op, allow_or=True):
        ch = self.ch
        ins = []
        short = "no"
        if op in ("Add", "Sub"):
            short = ch.choose("short", ["no"] if self.focus == "opt" else ["no", "short+oi", "short"])
        n_in = 1 if short != "no" else ARITY[op]
        for _ in range(n_in):
            ins.append(self.value(allow_or))
        nd = {"op": op, "ins": ins, "attrs": {}, "oa": None, "oi": None, "outs": [None] * NOUT[op], "dom": None}
        if ch.choose("dom", [None] if self.focus == "opt" else [None, DOMAIN]):
            nd["dom"] = DOMAIN
        if short == "short+oi":
            nd["oi"] = True
        if op == "Split":
            in2 = ch.choose("in2", (["omit", "opt"] + ["optrep:o%d" % (j + 1) for j in range(self.nopt)])
                            if self.focus == "opt" else ["omit", "none", "cv", "opt", "var", "any"])
            if in2.startswith("optrep:"):
                ins.append(["x", in2[7:], True])
            if in2 == "none":
                ins.append(None)
            elif in2 == "cv":
                ins.append(["k", [1, 2]])
            elif in2 == "opt":
                self.nopt += 1
                ins.append(["x", "o%d" % self.nopt, True])
            elif in2 == "var":
                ins.append(self.new_var())
            elif in2 == "any":
                ins.append(["any"])
            ax = ch.choose("axis", ["absent", "optvar"] if self.focus == "opt" else ["absent", "c1", "var", "var2", "optvar"])
            if ax == "c1":
                nd["attrs"]["axis"] = ["c", 1]
            elif ax == "var":
                nd["attrs"]["axis"] = ["v", "ax", False]
            elif ax == "var2":
                nd["attrs"]["axis"] = ["v", "ax2", False]
            elif ax == "optvar":
                nd["attrs"]["axis"] = ["v", "axo", True]
            if ch.choose("oa", [None] if self.focus == "opt" else [None, False]) is False:
                nd["oa"] = False
            if ch.choose("oi", [None] if self.focus == "opt" else [None, True]):
                nd["oi"] = True
            outs = ch.choose("nouts", ["2"] if self.focus == "opt" else ["2", "named", "1", "3"])
            if outs == "named":
                nd["outs"] = ["p", "q"]
            elif outs == "1":
                nd["outs"] = [None]
            elif outs == "3":
                nd["outs"] = [None, None, None]
        nid = len(self.nodes)
        self.nodes[nid] = nd
        return nid


def pattern_driver(max_nodes, exact=False, focus=None):
    """Patterns with at most (exact: exactly) ``max_nodes`` skeleton node-patterns.
    focus="opt": the feature menus are restricted to optional value variables (fresh or used again) and the optional
    attribute variable, so that a higher deviation bound stays small (repeated optional variables need two deviations)."""
    def driver(ch):
        g = _PG(ch, max_nodes - 1)
        g.focus = focus
        root_op = ch.all("root", OPS)
        rid = g.node(root_op)
        root = g.nodes[rid]
        skel = max_nodes - g.budget            # skeleton node-patterns actually used (OR alternatives not counted)
        if exact and skel != max_nodes:
            raise explore.Prune()
        outs = [["o", rid, 0]]
        menu = ["root"]
        if len(root["outs"]) >= 2:
            menu += ["both", "second"]
        inner = [(i, k) for i in sorted(g.nodes) if i != rid for k in range(len(g.nodes[i]["outs"]))]
        menu += [f"root+in:{i}.{k}" for i, k in inner] + [f"in+root:{i}.{k}" for i, k in inner]
        menu += ["root+neg", "neg+root"]
        if focus == "opt":
            menu = menu[:1] + [m for m in menu[1:] if m in ("both", "second")]
        om = ch.choose("outmode", menu)
        if om == "both":
            outs = [["o", rid, 0], ["o", rid, 1]]
        elif om == "second":
            outs = [["o", rid, 1]]
        elif om.startswith("root+in:") or om.startswith("in+root:"):
            i, k = om.split(":")[1].split(".")
            o2 = ["o", int(i), int(k)]
            outs = [outs[0], o2] if om.startswith("root") else [o2, outs[0]]
        elif om in ("root+neg", "neg+root"):
            g.budget = 0
            v = g.leaf(False)
            nid = len(g.nodes)
            g.nodes[nid] = {"op": "Neg", "ins": [v], "attrs": {}, "oa": None, "oi": None, "outs": [None], "dom": None}
            outs = [outs[0], ["o", nid, 0]] if om == "root+neg" else [["o", nid, 0], outs[0]]
        # named outputs must not collide
        seen = 0
        for nd in g.nodes.values():
            if nd["outs"] and nd["outs"][0] == "p":
                seen += 1
                if seen > 1:
                    nd["outs"] = ["p%d" % seen, "q%d" % seen][:len(nd["outs"])]
        commute = False
        if any(nd["op"] == "Add" for nd in g.nodes.values()):
            commute = ch.choose("commute", [False] if focus == "opt" else [False, True])
        pat = {"nodes": g.nodes, "outs": outs, "commute": commute, "skel": skel}
        finish(pat)
        if not reachable_ok(pat):
            raise explore.Prune()
        return pat
    return driver


def walk_vps(pat):
    """Yield every value-pattern occurrence (depth first through OR alternatives)."""
    def rec(vp):
        yield vp
        if vp is not None and vp[0] == "or":
            for a in vp[1]:
                yield from rec(a)
    for i in sorted(pat["nodes"]):
        for vp in pat["nodes"][i]["ins"]:
            yield from rec(vp)


def finish(pat):
    """Derive the declared pattern inputs (all variables, value and attribute) in a stable order."""
    names = []
    for vp in walk_vps(pat):
        if vp is not None and vp[0] == "x" and vp[1] not in names:
            names.append(vp[1])
    for i in sorted(pat["nodes"]):
        for ap in pat["nodes"][i]["attrs"].values():
            if ap[0] == "v" and ap[1] not in names:
                names.append(ap[1])
    pat["inputs"] = names


def reachable(pat):
    seen = set()

    def rec(vp):
        if vp is None:
            return
        if vp[0] == "o":
            if vp[1] not in seen:
                seen.add(vp[1])
                for x in pat["nodes"][vp[1]]["ins"]:
                    rec(x)
        elif vp[0] == "or":
            for a in vp[1]:
                rec(a)
    for o in pat["outs"]:
        rec(o)
    return seen


def reachable_ok(pat):
    """Every node-pattern is reachable from the outputs and every referenced output index exists."""
    if reachable(pat) != set(pat["nodes"]):
        return False
    for vp in list(walk_vps(pat)) + list(pat["outs"]):
        if vp is not None and vp[0] == "o" and vp[2] >= len(pat["nodes"][vp[1]]["outs"]):
            return False
    return True


def features(pat):
    """Feature set recomputed from the pattern itself (used for finding keys after minimisation)."""
    f = set()
    names = {}
    for vp in walk_vps(pat):
        if vp is None:
            f.add("none")
        elif vp[0] == "x":
            if vp[2]:
                f.add("optvar")
            names[vp[1]] = names.get(vp[1], 0) + 1
        elif vp[0] == "k":
            f.add("constvec" if isinstance(vp[1], list) else "const")
        elif vp[0] == "any":
            f.add("any")
        elif vp[0] == "or":
            f.add("or-" + or_form(pat, vp))
            if vp[2]:
                f.add("or-name")
            if vp[3]:
                f.add("or-tag")
    if any(c > 1 for c in names.values()):
        f.add("repvar")
    uses = {}
    for vp in walk_vps(pat):
        if vp is not None and vp[0] == "o":
            uses[(vp[1], vp[2])] = uses.get((vp[1], vp[2]), 0) + 1
    if any(c > 1 for c in uses.values()):
        f.add("share")
    avars = {}
    for i, nd in pat["nodes"].items():
        for ap in nd["attrs"].values():
            if ap[0] == "c":
                f.add("attr-const")
            else:
                f.add("attr-optvar" if ap[2] else "attr-var")
                avars[ap[1]] = avars.get(ap[1], 0) + 1
        if nd["oa"] is False:
            f.add("no-other-attrs")
        if nd["oi"]:
            f.add("other-inputs")
        if nd.get("dom"):
            f.add("domain")
        if len(nd["ins"]) < ARITY[nd["op"]]:
            f.add("short")
        if any(nd["outs"]):
            f.add("outs-named")
        if len(nd["outs"]) != NOUT[nd["op"]]:
            f.add("outs-%d" % len(nd["outs"]))
    if any(c > 1 for c in avars.values()):
        f.add("attr-var-repeated")
    outs = pat["outs"]
    if len(outs) > 1:
        f.add("out-values2" if outs[0][1] == outs[1][1] else "out-nodes2")
    elif outs[0][2] != 0:
        f.add("out-second")
    if pat.get("commute"):
        f.add("commute")
    if any(nd["op"] == "Split" and len(nd["ins"]) > 1 for nd in pat["nodes"].values()):
        f.add("split-in2")
    return sorted(f) or ["plain"]


def or_form(pat, vp):
    """'disp' when every alternative is a computed value of a distinct operator (deterministic dispatch
    is possible), else 'bt'."""
    ops = []
    for a in vp[1]:
        if a is None or a[0] != "o":
            return "bt"
        ops.append((pat["nodes"][a[1]].get("dom"), pat["nodes"][a[1]]["op"]))
    return "disp" if len(set(ops)) == len(ops) else "bt"


def root_op(pat):
    return pat["nodes"][pat["outs"][0][1]]["op"]


def req_sig(pat):
    """(root op, requirement per root input position): the tuple of operators that can compute the value at
    that position (a computed-value pattern, or an OR whose alternatives are all computed values), '*' when
    anything can stand there; under commute the two positions of an Add are unordered."""
    rn = pat["nodes"][pat["outs"][0][1]]
    req = []
    for vp in rn["ins"][:2]:
        if vp is not None and vp[0] == "o":
            req.append((pat["nodes"][vp[1]]["op"],))
        elif vp is not None and vp[0] == "or" and all(a is not None and a[0] == "o" for a in vp[1]):
            req.append(tuple(sorted({pat["nodes"][a[1]]["op"] for a in vp[1]})))
        else:
            req.append("*")
    while len(req) < 2:
        req.append("*")
    if pat.get("commute") and rn["op"] == "Add" and req[0] != req[1]:
        req = ["*", "*"]
    return (rn["op"], req[0], req[1])


def show_pattern(pat):
    def vs(vp):
        if vp is None:
            return "None"
        if vp[0] == "x":
            return vp[1] + ("?" if vp[2] else "")
        if vp[0] == "k":
            return repr(vp[1])
        if vp[0] == "any":
            return "ANY"
        if vp[0] == "o":
            return f"n{vp[1]}.{vp[2]}"
        return "Or[" + ", ".join(vs(a) for a in vp[1]) + "]" + (f"@{vp[2]}" if vp[2] else "") + (
            f"#{vp[3]}{vp[4] or ''}" if vp[3] else "")
    lines = []
    for i in sorted(pat["nodes"]):
        nd = pat["nodes"][i]
        extra = [f"{k}={'=' + str(v[1]) if v[0] == 'c' else v[1] + ('?' if v[2] else '')}" for k, v in nd["attrs"].items()]
        if nd["oa"] is False:
            extra.append("_allow_other_attributes=False")
        if nd["oi"]:
            extra.append("_allow_other_inputs=True")
        if nd["outs"] != [None]:
            extra.append(f"_outputs={nd['outs'] if any(nd['outs']) else len(nd['outs'])}")
        if nd.get("dom"):
            extra.append(f"_domain={nd['dom']!r}")
        lines.append(f"n{i}={nd['op']}({', '.join([vs(v) for v in nd['ins']] + extra)})")
    return "; ".join(lines) + " -> " + ",".join(vs(o) for o in pat["outs"]) + (" [commute]" if pat.get("commute") else "")


# ---------------------------------------------------------------------------------------------
# Host driver
# ---------------------------------------------------------------------------------------------

LEAVES = ["a", "b", "c1", "c2", "c1e", "c1o", "cv"]
CONSTS = {"c1": 1.0, "c2": 2.0, "c1e": 1.000005, "c1o": 1.0001, "cv": [1, 2]}


def host_driver(k_max, k_min=1):
    def driver(ch):
        k = ch.all("k", list(range(k_min, k_max + 1)))
        nodes = []
        for j in range(k):
            op = ch.all("op", OPS)
            ins = []
            srcs = ["leaf"] + [f"n{i}_{o}" for i in range(j) for o in range(nodes[i]["nout"])]
            for _ in range(ARITY[op]):
                s = ch.all("src", srcs)
                ins.append(ch.choose("leaf", LEAVES) if s == "leaf" else s)
            nd = {"op": op, "ins": ins, "attrs": {}, "nout": NOUT[op], "dom": ch.choose("dom", ["", DOMAIN])}
            if op == "Split":
                in2 = ch.choose("in2", ["omit", "none", "cv", "a"])
                if in2 != "omit":
                    ins.append({"none": None, "cv": "cv", "a": "a"}[in2])
                ax = ch.choose("axis", [None, 1, 0])
                if ax is not None:
                    nd["attrs"]["axis"] = ax
                if ch.choose("numout", [False, True]):
                    nd["attrs"]["num_outputs"] = 2
                if ch.choose("third", [False, True]):
                    nd["nout"] = 3
            # canonical order of independent neighbours (isomorphic hosts are enumerated once)
            if j >= 1 and j < k - 1:
                prev = nodes[-1]
                if not any(isinstance(v, str) and v.startswith(f"n{j - 1}_") for v in ins):
                    if _sk(prev) > _sk(nd):
                        raise explore.Prune()
            nodes.append(nd)
        used = {v for nd in nodes for v in nd["ins"] if v is not None}
        for j in range(k - 1):
            if not any(f"n{j}_{o}" in used for o in range(nodes[j]["nout"])):
                raise explore.Prune()
        extra, gout = [], []
        for j, nd in enumerate(nodes):
            for o in range(nd["nout"]):
                v = f"n{j}_{o}"
                if j == k - 1:
                    u = ch.choose("use", ["gout", "extra", "in"])
                else:
                    u = ch.choose("use", ["in", "extra", "gout"])
                if u == "extra":
                    extra.append(v)
                elif u == "gout":
                    gout.append(v)
        cnode = False
        if any(v in CONSTS for nd in nodes for v in nd["ins"] if v is not None):
            cnode = ch.choose("cnode", [False, True])
        return {"nodes": nodes, "extra": extra, "gout": gout, "cnode": cnode}
    return driver


def _sk(nd):
    return (nd["op"], [str(v) for v in nd["ins"]], sorted(nd["attrs"].items()), nd["nout"], nd["dom"])


class FlatHost:
    """The host as the oracle sees it: every node of the graph in graph order."""

    def __init__(self, h):
        self.nodes, self.consts, self.gouts = [], {}, set(h["gout"])
        used = [v for nd in h["nodes"] for v in nd["ins"] if v in CONSTS]
        self.const_names = sorted(set(used))
        for c in self.const_names:
            self.consts[c] = CONSTS[c]
            if h["cnode"]:
                self.nodes.append(("k_" + c, "Constant", [], {"value": CONSTS[c]}, [c], ""))
        self.slice_first = len(self.nodes)
        for j, nd in enumerate(h["nodes"]):
            self.nodes.append((f"n{j}", nd["op"], list(nd["ins"]), dict(nd["attrs"]),
                               [f"n{j}_{o}" for o in range(nd["nout"])], nd["dom"]))
        self.root = len(self.nodes) - 1
        for v in h["extra"]:
            self.nodes.append(("x" + v[1:], "Neg", [v], {}, ["x" + v[1:] + "_0"], ""))
            self.gouts.add("x" + v[1:] + "_0")
        self.cnode = h["cnode"]
        self.prod, self.uses = {}, {}
        for n, (_, _, ins, _, outs, _) in enumerate(self.nodes):
            for i, v in enumerate(outs):
                self.prod[v] = (n, i)
            for v in ins:
                if v is not None:
                    self.uses.setdefault(v, []).append(n)
        self.graph_inputs = [v for v in ("a", "b") if v in self.uses]

    def sig(self):
        """(root op, per root input: producing operator or 'leaf')."""
        _, op, ins, _, _, _ = self.nodes[self.root]
        s = []
        for v in ins[:2]:
            s.append(self.nodes[self.prod[v][0]][1] if (v is not None and v in self.prod
                                                       and self.nodes[self.prod[v][0]][1] != "Constant") else "leaf")
        while len(s) < 2:
            s.append("leaf")
        return (op, s[0], s[1])

    def show(self):
        parts = []
        for name, op, ins, attrs, outs, dom in self.nodes:
            a = "".join(f",{k}={v}" for k, v in attrs.items() if op != "Constant")
            parts.append(f"{','.join(outs)}={dom + '::' if dom else ''}{op}({','.join(str(v) for v in ins)}{a})")
        return "; ".join(parts) + " -> " + ",".join(sorted(self.gouts)) + ("" if self.cnode or not self.consts else " [initializers]")


def compatible(req, sig):
    return req[0] == sig[0] and all(r == "*" or s in r for r, s in zip(req[1:], sig[1:]))


# ---------------------------------------------------------------------------------------------
# Builders (the only part that imports the code under test)
# ---------------------------------------------------------------------------------------------

def build_host(fh, into=None):
    import numpy as np
    import onnx_ir as ir
    vals = {}
    for v in fh.graph_inputs:
        vals[v] = ir.Value(name=v, type=ir.TensorType(ir.DataType.FLOAT), shape=ir.Shape([2, 2]))
    inits = []
    nodes = []
    for name, op, ins, attrs, outs, dom in fh.nodes:
        if op == "Constant":
            c = outs[0]
            arr = np.array(attrs["value"], dtype=np.int64 if isinstance(attrs["value"], list) else np.float32)
            nd = ir.Node("", "Constant", [], attributes=[ir.AttrTensor("value", ir.tensor(arr))], name=name,
                         outputs=[ir.Value(name=c)])
            vals[c] = nd.outputs[0]
            nodes.append(nd)
    if not fh.cnode:
        for c in fh.const_names:
            pv = CONSTS[c]
            arr = np.array(pv, dtype=np.int64 if isinstance(pv, list) else np.float32)
            vals[c] = ir.Value(name=c, const_value=ir.tensor(arr, name=c))
            inits.append(vals[c])
    for name, op, ins, attrs, outs, dom in fh.nodes:
        if op == "Constant":
            continue
        nd = ir.Node(dom, op, [vals[v] if v is not None else None for v in ins],
                     attributes=[ir.AttrInt64(k, v) for k, v in attrs.items()], name=name,
                     outputs=[ir.Value(name=o) for o in outs])
        for o, v in zip(outs, nd.outputs):
            vals[o] = v
        nodes.append(nd)
    if into is not None:
        # edit an existing graph object in place so that it becomes this host (same ir.Graph / ir.Model objects: what a
        # rewrite pass does to the graph between two matcher calls)
        model, graph = into
        graph.outputs.clear()
        graph.remove(list(graph), safe=False)
        for k in list(graph.initializers):
            del graph.initializers[k]
        graph.inputs.clear()
        graph.inputs.extend(vals[v] for v in fh.graph_inputs)
        for v in inits:
            graph.register_initializer(v)
        graph.extend(nodes)
        graph.outputs.extend(vals[v] for v in sorted(fh.gouts))
    else:
        graph = ir.Graph([vals[v] for v in fh.graph_inputs], [vals[v] for v in sorted(fh.gouts)], nodes=nodes,
                         initializers=inits, opset_imports={"": 18, DOMAIN: 1}, name="host")
        model = ir.Model(graph, ir_version=10)
    if fh.cnode:
        # what RewriteRuleSet.apply_to_model does before matching: Constant nodes get their const_value
        import onnxscript.optimizer
        onnxscript.optimizer.basic_constant_propagation(graph)
    return model, graph, nodes


def build_pattern(pat):
    """-> GraphPattern built with the documented pattern API (OpsetPatternBuilder calls, Var, Constant,
    OrValue, ANY_VALUE)."""
    from onnxscript.rewriter import _pattern_ir as pir
    from onnxscript.rewriter import pattern as P
    op = P.OpsetPatternBuilder("", record=True)
    vars_ = {}
    outs = {}

    def var(name, can_none):
        if name not in vars_:
            vars_[name] = P.Var(name, can_match_none=can_none)
        return vars_[name]

    def vp(x):
        if x is None:
            return None
        k = x[0]
        if k == "x":
            return var(x[1], x[2])
        if k == "k":
            return P.Constant(x[1])
        if k == "any":
            return P.ANY_VALUE
        if k == "o":
            return outs[(x[1], x[2])]
        alts = [vp(a) for a in x[1]]
        return P.OrValue(alts, name=x[2], tag_var=x[3], tag_values=x[4])

    for i in sorted(pat["nodes"]):
        nd = pat["nodes"][i]
        kw = {}
        for name, ap in nd["attrs"].items():
            kw[name] = ap[1] if ap[0] == "c" else var(ap[1], ap[2])
        if nd["oa"] is not None:
            kw["_allow_other_attributes"] = nd["oa"]
        if nd["oi"] is not None:
            kw["_allow_other_inputs"] = nd["oi"]
        if nd["outs"] != [None]:
            kw["_outputs"] = list(nd["outs"]) if any(nd["outs"]) else len(nd["outs"])
        if nd.get("dom"):
            kw["_domain"] = nd["dom"]
        r = getattr(op, nd["op"])(*[vp(x) for x in nd["ins"]], **kw)
        rs = [r] if isinstance(r, pir.ValuePattern) else list(r)
        for k, o in enumerate(rs):
            outs[(i, k)] = o
    inputs = [var(n, False) for n in pat["inputs"]]
    return pir.GraphPattern(inputs, [vp(o) for o in pat["outs"]], op.nodes())
