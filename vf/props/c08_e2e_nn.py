"""C08 end to end, pad/pool/conv subset: every module of a small grid of torch.nn.functional calls is exported
with torch.onnx.export(dynamo=True) and run; the result must equal the module's eager output.

This is where the operators that have no torchlib registration of their own are covered: adaptive_avg_pool1d/2d
(decomposed by torch.export into mean / avg_pool2d / slices before torchlib is involved) and conv_transpose1d/2d
(reaches torchlib as aten::convolution(transposed=True)); max_pool2d / avg_pool2d / conv2d (incl. the string
paddings "same"/"valid") are exported as well, so that the argument forms the exporter really produces for the
overloads enumerated in c08_dom3 are exercised.

A grid is a list of (argument name, menu); every combination is enumerated (explore, every dimension
exhaustive).  Findings are keyed `C08|e2e-<kind>|e2e:nn:<function>|<minimised argument class>` with the same
class minimiser as the per-overload batches.
"""
from __future__ import annotations

import collections
import json

from vf import explore

# module name -> (input shapes menu, dtype menu, [(argument, menu)])   menus hold JSON values; tuples are lists
GRIDS = collections.OrderedDict([
    ("adaptive_avg_pool2d", ([[1, 2, 5, 6], [2, 5, 6], [1, 2, 4, 6]], ["f32", "f64"], [
        ("output_size", [1, [1, 1], [5, 6], [2, 3], [5, 3], [None, 3], [3, 4], [1, 2], [4, None]]),
    ])),
    ("adaptive_avg_pool1d", ([[1, 2, 6], [2, 6]], ["f32", "f64"], [
        ("output_size", [1, 6, 3, 2, 4]),
    ])),
    ("conv_transpose2d", ([[1, 2, 4, 5]], ["f32"], [
        ("weight", [[2, 2, 2, 3], [2, 1, 3, 2]]),
        ("bias", ["none", "given"]),
        ("stride", [1, [2, 1]]),
        ("padding", [0, [1, 0]]),
        ("output_padding", [0, [1, 0]]),
        ("groups", [1, 2]),
        ("dilation", [1, [1, 2]]),
    ])),
    ("conv_transpose1d", ([[1, 2, 5], [2, 5]], ["f32"], [
        ("weight", [[2, 2, 3]]),
        ("bias", ["none", "given"]),
        ("stride", [1, 2]),
        ("padding", [0, 1]),
        ("output_padding", [0, 1]),
        ("groups", [1, 2]),
        ("dilation", [1]),
    ])),
    ("max_pool2d", ([[1, 2, 5, 6]], ["f32"], [
        ("kernel_size", [2, [3, 2]]),
        ("stride", [None, 1, [2, 1]]),
        ("padding", [0, 1]),
        ("dilation", [1, 2]),
        ("ceil_mode", [False, True]),
        ("return_indices", [False, True]),
    ])),
    ("avg_pool2d", ([[1, 2, 5, 6]], ["f32"], [
        ("kernel_size", [2, [3, 2]]),
        ("stride", [None, [2, 1]]),
        ("padding", [0, 1]),
        ("ceil_mode", [False, True]),
        ("count_include_pad", [True, False]),
        ("divisor_override", [None, 5]),
    ])),
    ("conv2d", ([[1, 2, 4, 5]], ["f32"], [
        ("weight", [[2, 2, 2, 3], [4, 1, 2, 2]]),
        ("bias", ["none", "given"]),
        ("stride", [1, [2, 1]]),
        ("padding", [0, [1, 2], "same", "valid"]),
        ("dilation", [1, [1, 2]]),
        ("groups", [1, 2]),
    ])),
])


def _fv(v):
    if isinstance(v, (list, tuple)):
        return "[" + ",".join("None" if x is None else str(x) for x in v) + "]"
    return str(v)


def _driver(ch):
    m = ch.all("module", list(GRIDS))
    shapes, dts, grid = GRIDS[m]
    sh = ch.all("shape", shapes)
    dt = ch.all("dtype", dts)
    a, f = {}, {"shape": "(" + ",".join(str(d) for d in sh) + ")", "dtype": dt}
    for name, menu in grid:
        v = ch.all(name, menu)
        a[name] = v
        f[name] = "(" + ",".join(str(d) for d in v) + ")" if name == "weight" else _fv(v)
    return {"m": m, "x": sh, "dt": dt, "a": a, "f": f}


def plan():
    st = explore.Stats()
    by = collections.OrderedDict()
    for _, case in explore.explore(_driver, bound=0, stats=st):
        by.setdefault(case["m"], []).append(case)
    # the item carries only the module name; the worker re-enumerates its cases
    items = [{"kind": "e2e-nn", "fam": "e2e-nn", "op": f"e2e:nn:{m}", "part": "", "n": len(cs)} for m, cs in by.items()]
    d = st.as_dict()
    d["dimensions"] = {k: len(v) for k, v in st.dim_hist.items()}
    return items, d


def cases_of(module):
    return [case for _, case in explore.explore(_driver, bound=0) if case["m"] == module]


def _tup(v):
    return tuple(v) if isinstance(v, list) else v


def build(torch, case):
    """-> (module, args)"""
    from vf.props import c08_core as K
    F = torch.nn.functional
    m, a, dt = case["m"], case["a"], case["dt"]
    x = K.make_value(["T", case["x"], dt, "w" if m == "max_pool2d" else "v"])
    if m in ("adaptive_avg_pool2d", "adaptive_avg_pool1d"):
        fn = getattr(F, m)
        size = _tup(a["output_size"])

        class MA(torch.nn.Module):
            def forward(self, x):
                return fn(x, size)
        return MA(), (x,)
    if m in ("conv_transpose2d", "conv_transpose1d", "conv2d"):
        fn = getattr(F, m)
        w = K.make_value(["T", a["weight"], dt, "v"])
        transposed = m.startswith("conv_transpose")
        cout = a["weight"][1] * a["groups"] if transposed else a["weight"][0]
        kw = {k: _tup(v) for k, v in a.items() if k not in ("weight", "bias")}
        if a["bias"] == "given":
            b = K.make_value(["T", [cout], dt, "b"])

            class MC(torch.nn.Module):
                def forward(self, x, w, b):
                    return fn(x, w, b, **kw)
            return MC(), (x, w, b)

        class MC0(torch.nn.Module):
            def forward(self, x, w):
                return fn(x, w, None, **kw)
        return MC0(), (x, w)
    if m in ("max_pool2d", "avg_pool2d"):
        fn = getattr(F, m)
        kw = {k: _tup(v) for k, v in a.items()}

        class MP(torch.nn.Module):
            def forward(self, x):
                return fn(x, **kw)
        return MP(), (x,)
    raise ValueError(m)


def execute(item):
    from vf.props import c08_core as K
    from vf.props import c08_e2e
    t = K.T()
    torch = t["torch"]
    module = item["op"].split(":")[-1]
    cases = cases_of(module)
    if len(cases) != item["n"]:
        raise AssertionError(f"re-enumeration of {item['op']} gave {len(cases)} cases, plan counted {item['n']}")
    outcomes = collections.Counter()
    verdicts, infos = [], []
    for cs in cases:
        try:
            mod, args = build(torch, cs)
        except Exception as e:  # noqa: BLE001  e.g. a weight/groups pair for which no bias size exists
            v, info = "skip:module-not-buildable", str(e)[:100]
        else:
            v, info = c08_e2e.run_module(mod, args)
        verdicts.append(v)
        infos.append(info)
        outcomes["e2e:" + v] += 1
    decided = [i for i, v in enumerate(verdicts) if not v.startswith("skip:")]
    feats = [cases[i]["f"] for i in decided]
    fails = [None if verdicts[i] == "ok" else verdicts[i] for i in decided]
    classes = K.minimise_classes(feats, fails)
    viols = {}
    for i, cl in zip(decided, classes):
        if cl is None:
            continue
        key = f"C08|{verdicts[i]}|{item['op']}|{cl}"
        if key not in viols:
            viols[key] = {"key": key, "detail": {"first_case": {k: cases[i][k] for k in ("m", "x", "dt", "a")},
                                                 "features": cases[i]["f"], "what": infos[i], "n": 0}}
        viols[key]["detail"]["n"] += 1
    nkeys = ["e2e-nn|" + json.dumps({k: cases[i][k] for k in ("m", "x", "dt", "a")}, sort_keys=True) for i in decided]
    status = "viol" if viols else ("ok" if decided else "skip")
    res = {"status": status,
           "outcome": "+".join(sorted({k.split(":")[1] if k.split(":")[1] != "skip" else "skip" for k in outcomes})),
           "nkey": nkeys, "viols": list(viols.values()), "case_outcomes": dict(outcomes),
           "counts": {"extra_evaluations": len(cases) - 1, "e2e_exports_compared": len(decided),
                      "cases_failed": sum(1 for f in fails if f)},
           "show": f"{item['op']}: {len(cases)} modules, {dict(outcomes)}"}
    if status == "skip":
        res["skip"] = "all-cases-skipped:" + "+".join(sorted(outcomes))
    return res


if __name__ == "__main__":
    # reproduce one module:  python -m vf.props.c08_e2e_nn conv_transpose2d '{"x":[1,2,4,5],"dt":"f32","a":{...}}'
    import sys
    from vf.props import c08_core as K
    from vf.props import c08_e2e
    torch = K.T()["torch"]
    cs = json.loads(sys.argv[2])
    cs["m"] = sys.argv[1]
    mod, args = build(torch, cs)
    print("eager :", mod(*args))
    print("result:", c08_e2e.run_module(mod, args))
