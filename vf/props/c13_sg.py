"""C13 family `sg`: the round trip on protos "obtained from a script function" - every accepted program of a
bounded-exhaustive slice of the C01 program space (vf.sggen: the dataflow family of size 2 with peripheral deviations,
the operator family = every operator/call form x operand source x context) is decorated by the real converter, its
to_model_proto() and to_function_proto() are exported with proto2python under all 16 option tuples, the emitted source
is executed, converted back and run against the original on the program's own valuation pool.

A generated program becomes a temporary entry of c13_bases.SCRIPTS (one per distinct attribute valuation), so the
leaf evaluation, the interface comparison, the attribution of a violation to options / known root causes are the ones
of the hand-written bases.  The entry is removed when the work item is done.
"""
from __future__ import annotations

import collections
import json

import onnx
from onnx import helper as oh


def plan_items(tier, stats):
    """-> (items, per-family counts).  Programs only (no execution): the enumeration is sggen's choice tree."""
    from vf import explore, sggen
    fams = []
    if tier == "quick":
        fams.append(("df-full-s2", sggen.df_driver(sggen.DFConfig(size=2, depth=1)), 0))
        fams.append(("op-b1", sggen.op_driver(), 1))
    else:
        fams.append(("df-full-s2-periph1", sggen.df_driver(sggen.DFConfig(size=2, depth=1)), 1))
        fams.append(("df-full-s3", sggen.df_driver(sggen.DFConfig(size=3, depth=1, kinds=["if", "for", "while", "forb"])), 0))
        fams.append(("op-b1", sggen.op_driver(), 1))
    items, seen, counts = [], set(), {}
    for name, drv, bound in fams:
        n0 = len(items)
        for _picks, case in explore.explore(drv, bound=bound, stats=stats):
            key = json.dumps(case["prog"], sort_keys=True)
            if key in seen:
                continue
            seen.add(key)
            case["fam"] = name
            items.append({"fam": "sg", "sg": case})
        counts[name] = len(items) - n0
    return items, counts


# ---------------------------------------------------------------------------------------------------------
def _walk_nodes(nodes, fn):
    for n in nodes:
        fn(n)
        for a in n.attribute:
            if a.type == onnx.AttributeProto.GRAPH:
                _walk_nodes(a.g.node, fn)


def _loop_permutes_carried(fp) -> bool:
    """A Loop body that returns one of its carried inputs at ANOTHER carried position (directly or through
    Identity): the shape of the known defect D18 (loop-carried values copied back sequentially)."""
    hit = []

    def visit(n):
        if n.op_type != "Loop":
            return
        for a in n.attribute:
            if a.type != onnx.AttributeProto.GRAPH:
                continue
            g = a.g
            carried_in = [i.name for i in g.input][2:]
            alias = {}
            for bn in g.node:
                if bn.op_type == "Identity" and bn.input:
                    alias[bn.output[0]] = bn.input[0]
            outs = [o.name for o in g.output][1:1 + len(carried_in)]
            for j, o in enumerate(outs):
                seen = 0
                while o in alias and seen < 50:
                    o = alias[o]
                    seen += 1
                if o in carried_in and carried_in.index(o) != j:
                    hit.append(1)
    _walk_nodes(fp.node, visit)
    return bool(hit)


def _constructs(stmts, acc):
    """Control constructs of a block (sg AST): if / for / while / break."""
    for s in stmts:
        t = s[0]
        if t == "if":
            acc.add("if")
            _constructs(s[2], acc)
            _constructs(s[3], acc)
        elif t == "for":
            acc.add("for")
            if s[4] is not None:
                acc.add("break")
            _constructs(s[3], acc)
        elif t == "while":
            acc.add("while")
            if s[3] is not None:
                acc.add("break")
            _constructs(s[2], acc)
    return acc


def skeleton(item):
    """Coarse structural label of a program for finding keys (operator form, or the control constructs present)."""
    if item.get("sub") == "op":
        return "op:" + str(item.get("cfg"))
    parts = sorted(_constructs(item["prog"]["body"], set()))
    if item["prog"].get("helpers"):
        parts.append("call")
    return "df:" + ("+".join(parts) or "straight")


def register(item):
    """Decorate the program and register one temporary SCRIPTS base per distinct attribute valuation.
    -> (loaded, [(base name, [kinds])]) ; raises sgrun.Refused when the converter refuses the program."""
    from vf import sg, sggen, sgrun
    from vf.props import c13_bases as B
    prog = item["prog"]
    loaded = sgrun.decorate(prog)
    vals = sggen.valuations(item, None)
    by_attrs = collections.OrderedDict()
    for feeds, attrs in vals:
        by_attrs.setdefault(json.dumps(attrs, sort_keys=True), (attrs, []))[1].append(feeds)
    in_types = [oh.make_tensor_type_proto(sg.ONNX_ELEM[sg.KIND_DT[k]], () if k.endswith("0") else None)
                for _n, k in prog["params"]]
    rk = prog.get("rkinds") or []
    try:
        fp = loaded.fn.to_function_proto()
    except Exception as e:  # noqa: BLE001  the function cannot be serialised at all: nothing to export
        loaded.close()
        raise sgrun.Refused(e) from None
    out_types = [oh.make_tensor_type_proto(sg.ONNX_ELEM[sg.KIND_DT[rk[j]]], None) if j < len(rk) else onnx.TypeProto()
                 for j in range(len(fp.output))]
    deps = tuple(getattr(loaded.module, h["name"]) for h in prog.get("helpers", []))
    tags = ["sg"]
    if "break" in _constructs(prog["body"], set()):
        tags.append("break")
    if any(d is not None for f in [prog, *prog.get("helpers", [])] for _n, _t, d in f["attrs"]):
        tags.append("attr-default")   # also a called (model-local) function with a defaulted attribute parameter
    if _loop_permutes_carried(fp):
        tags.append("swap")
    # the model form exists when every attribute parameter has a default (to_model_proto() binds the defaults);
    # it is compared on the valuations that leave the attributes at their defaults
    model_ok = all(d is not None for _n, _t, d in prog["attrs"])
    if model_ok:
        try:
            loaded.fn.to_model_proto()
        except Exception:  # noqa: BLE001
            model_ok = False
    names = []
    ident = sg.compact(prog)
    for k, (attrs, feedlist) in enumerate(by_attrs.values()):
        name = f"sg:{ident}@{k}"
        kinds = ["function"]
        if model_ok and not attrs:
            kinds.insert(0, "model")
        B.SCRIPTS[name] = dict(fn=loaded.fn, feeds=feedlist[:4], model="model" in kinds, fun=True,
                               attrs=sgrun.attr_kwargs(prog, attrs), in_types=in_types, out_types=out_types,
                               deps=deps, tags=tuple(tags))
        names.append((name, kinds))
    return loaded, names


def unregister(loaded, names):
    from vf.props import c13, c13_bases as B
    for name, _ in names:
        B.SCRIPTS.pop(name, None)
        for k in [k for k in c13._CASES if k[0] == name]:
            c = c13._CASES.pop(k)
            for lk in [lk for lk in c13._LEAVES if lk[0] == c.key]:
                del c13._LEAVES[lk]
    loaded.close()
