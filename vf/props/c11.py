"""C11 - tensor indexing and slicing in ONNX Script mean what they mean in NumPy.

One script function ``def f(X: FLOAT[d0,..], <tensor params>): return X[<idx>]`` per index expression and
rank, decorated once, exported once, one ORT session; then evaluated on EVERY shape of that rank with dims in
1..4 (x every valuation of the tensor-valued parameters): translated graph on onnxruntime, eager call, and
``numpy X[idx]`` with X = arange(size).reshape(shape).

Enumeration is the product of per-position component alphabets, driven through the choice-tree explorer (all
dimensions exhaustive, cost 0).  Leaves (= index expressions) are packed into items of ~3 s of work so the pool
overhead stays small; every leaf is still executed.
"""
from __future__ import annotations

import itertools
import linecache
import sys
import types

import numpy as np

from vf import explore

ID = "C11"
LEVEL = "model_checking"
RULE = ("product of per-position component alphabets, all dimensions exhaustive: FULL = 729 literal components (int "
        "literals -4..3, ':', '::', every lo:hi:st with lo,hi in {omitted,-5..5} and st in {omitted,1,2,-1,-2}), "
        "RED = 53 (ints {-4,-1,0,1,3}, ':', lo,hi in {omitted,-1,1,5} x st in {omitted,2,-1}), RED41 (rank 3), MINI = 7; "
        "tensor components TENS = i, I, i:i+1, i:j, i:, :j, i::-1, :j:-1, i:j:-1, ::k, i:j:k (i,j,k 0-d INT64 "
        "parameters, I a 1-D INT64 parameter); index tuples of length <= rank; each expression is decorated/exported "
        "once per rank and evaluated on every shape with dims in 1..4 and every valuation of its tensor parameters "
        "from the stated finite set (full: i,j in -5..5, k in {1,2,-1,-2}, 7 dim-relative 1-D tensors incl. empty "
        "and out of range; red/small: subsets).  See coverage.families for the exact product per tier.  "
        "distinct_nontrivial = distinct (rank, expression) for which graph or eager produced a tensor that was "
        "compared with numpy")
ASSUMPTIONS = [
    "numpy basic/advanced indexing is the reference; a 0-d INT64 tensor index denotes the Python int of its value",
    "onnxruntime CPU kernels (Slice, Gather, Squeeze, Concat, Reshape, Add, Identity) implement the ONNX spec",
    "onnxruntime.InferenceSession(model_bytes, providers=...) is a pure function of the bytes: in all families "
    "except rank 1 the sessions eager mode creates per op call are memoised on the model bytes (rank-1 families "
    "run with the unmodified session creation, results are identical)",
    "any exception from script()/to_model_proto()/session creation/session.run/eager call is a refusal",
]

# ---------------------------------------------------------------------------------------------
# Components.  A component is carried in items as its source text with tensor parameters named
# i, j, k (0-d INT64) and I (1-D INT64); at position p they are renamed i<p>, j<p>, k<p>, I<p>.
# ---------------------------------------------------------------------------------------------

_INTS_FULL = list(range(-4, 4))
_BOUNDS_FULL = [None] + list(range(-5, 6))
_STEPS_FULL = [None, 1, 2, -1, -2]
_INTS_RED = [-4, -1, 0, 1, 3]
_BOUNDS_RED = [None, -1, 1, 5]
_STEPS_RED = [None, 2, -1]


def _sl_text(lo, hi, st):
    s = ("" if lo is None else str(lo)) + ":" + ("" if hi is None else str(hi))
    if st is not None:
        s += ":" + str(st)
    return s


def _lit_alphabet(ints, bounds, steps, with_double_colon):
    out = [":"]
    if with_double_colon:
        out.append("::")
    out += [str(k) for k in ints]
    for st in steps:
        for lo in bounds:
            for hi in bounds:
                if lo is None and hi is None and st is None:
                    continue
                out.append(_sl_text(lo, hi, st))
    return out


FULL = _lit_alphabet(_INTS_FULL, _BOUNDS_FULL, _STEPS_FULL, True)      # 1 + 1 + 8 + 719 = 729
RED = _lit_alphabet(_INTS_RED, _BOUNDS_RED, _STEPS_RED, False)         # 1 + 5 + 47 = 53
# rank-3 reduced alphabet (DESIGN: 41 components): ints, ':', all lo:hi and lo:hi:-1 over the reduced bounds, and
# step 2 with the bounds that select a start or an end by default
RED41 = ([":"] + [str(k) for k in _INTS_RED]
         + [_sl_text(lo, hi, st) for st in (None, -1) for lo in _BOUNDS_RED for hi in _BOUNDS_RED
            if not (lo is None and hi is None and st is None)]
         + [_sl_text(lo, hi, 2) for lo, hi in ((None, None), (1, None), (None, -1), (-1, None))])
MINI = [":", "0", "-1", "1:", "::-1", ":-1", "1:3"]
MINI5 = [":", "0", "-1", "1:", "::-1"]
TENS = ["i", "I", "i:i+1", "i:j", "i:", ":j", "i::-1", ":j:-1", "i:j:-1", "::k", "i:j:k"]
TENS4 = ["i", "I", "i:i+1", "i:j"]
# The forms the converter's docstring lists as supported (A[i+1:i+2] is i:i+1 up to the value of i, A[i:i+j, k] is
# i:j, i).  For these a refusal where numpy succeeds is a violation ("strict" families).
DOC1 = ["0", "-1", "1:", ":2", "1:-1", "1:2", "2:0:-1", ":0:-1", "i", "i:i+1"]
DOC2 = [":,1", ":2,0", ":2,:1", "0,:0:-1", "i:j,i"]

_TENSOR_ATOMS = ("i", "j", "k", "i+1")


def parse(code):
    """-> ('int',k) | ('sl',lo,hi,st) | ('ti',) | ('tI',) | ('tsl',lo,hi,st) with tsl parts None|int|'i'|'j'|'k'|'i+1'."""
    if code == "i":
        return ("ti",)
    if code == "I":
        return ("tI",)
    if ":" not in code:
        return ("int", int(code))
    parts = code.split(":")
    while len(parts) < 3:
        parts.append("")
    vals = []
    tensor = False
    for p in parts:
        if p == "":
            vals.append(None)
        elif p in _TENSOR_ATOMS:
            vals.append(p)
            tensor = True
        else:
            vals.append(int(p))
    return ("tsl" if tensor else "sl",) + tuple(vals)


def render(code, p):
    """Source text of a component at position p (tensor parameters get the position suffix)."""
    c = parse(code)
    if c[0] == "ti":
        return f"i{p}"
    if c[0] == "tI":
        return f"I{p}"
    if c[0] != "tsl":
        return code

    def r(v):
        if v is None:
            return ""
        if v == "i+1":
            return f"i{p}+1"
        if isinstance(v, str):
            return f"{v}{p}"
        return str(v)
    s = r(c[1]) + ":" + r(c[2])
    if c[3] is not None:
        s += ":" + r(c[3])
    return s


def params_of(code, p):
    """Ordered tensor parameters (name, kind) a component at position p introduces."""
    c = parse(code)
    if c[0] == "ti":
        return [(f"i{p}", "i")]
    if c[0] == "tI":
        return [(f"I{p}", "I")]
    if c[0] != "tsl":
        return []
    names = []
    for v in c[1:]:
        if isinstance(v, str):
            n = v[0]
            if n not in names:
                names.append(n)
    return [(f"{n}{p}", n) for n in names]


# valuation sets ---------------------------------------------------------------------------------
_VALS = {
    "full": {"ij": list(range(-5, 6)), "k": [1, 2, -1, -2]},
    "red": {"ij": [-5, -2, -1, 0, 1, 3, 5], "k": [1, 2, -1, -2]},
    "small": {"ij": [-2, -1, 0, 1, 4], "k": [1, -1]},
}


def _I_vals(mode, d):
    full = [[0], [d - 1, 0], [-1, -d, 0], [0, 0, 0, 0, 0], [], [d], [-d - 1]]
    if mode == "small":
        return [full[0], full[1], full[2], full[5]]
    return full


def valuations(expr, shape, mode):
    """All assignments {param: value} for the tensor parameters of expr on this shape (deterministic order)."""
    names, menus = [], []
    for p, code in enumerate(expr):
        for name, kind in params_of(code, p):
            names.append(name)
            if kind == "I":
                menus.append(_I_vals(mode, shape[p]))
            elif kind == "k":
                menus.append(_VALS[mode]["k"])
            else:
                menus.append(_VALS[mode]["ij"])
    if not names:
        return [{}]
    return [dict(zip(names, combo)) for combo in itertools.product(*menus)]


def n_valuations(expr, mode):
    n = 1
    for p, code in enumerate(expr):
        for _, kind in params_of(code, p):
            n *= 7 if kind == "I" and mode != "small" else 4 if kind == "I" else len(
                _VALS[mode]["k"] if kind == "k" else _VALS[mode]["ij"])
    return n


def shapes_of(rank):
    return list(itertools.product(range(1, 5), repeat=rank))


# ---------------------------------------------------------------------------------------------
# plan
# ---------------------------------------------------------------------------------------------

def families(tier):
    """(name, rank, per-position alphabets, valuation mode, memoise eager sessions)."""
    F = []
    F.append(("r1-lit", 1, [FULL], "full", False))
    F.append(("r1-tens", 1, [TENS], "full", False))
    F.append(("r2-short-lit", 2, [FULL], "full", True))
    F.append(("r2-short-tens", 2, [TENS], "full", True))
    for r in (1, 2, 3):
        F.append((f"doc-r{r}-len1", r, [DOC1], "full", r > 1, {"strict": True, "whole": True}))
    for r in (2, 3):
        F.append((f"doc-r{r}-len2", r, [DOC2], "full", True, {"strict": True, "whole": True}))
    if tier == "quick":
        F.append(("r2-lit-red", 2, [RED, RED], "full", True))
        F.append(("r2-tens-p0", 2, [TENS, RED], "small", True))
        F.append(("r2-tens-p1", 2, [RED, TENS], "small", True))
        F.append(("r2-tens2", 2, [TENS4, TENS4], "small", True))
        F.append(("r3-lit-mini", 3, [MINI, MINI, MINI], "full", True))
        F.append(("r3-tens-p0", 3, [TENS4, MINI5, MINI5], "small", True))
        F.append(("r3-tens-p1", 3, [MINI5, TENS4, MINI5], "small", True))
        F.append(("r3-tens-p2", 3, [MINI5, MINI5, TENS4], "small", True))
        F.append(("r3-short2-tens-p0", 3, [TENS4, MINI5], "small", True))
        F.append(("r3-short2-tens-p1", 3, [MINI5, TENS4], "small", True))
    else:
        F.append(("r2-lit-full", 2, [FULL, FULL], "full", True))
        F.append(("r2-tens-p0", 2, [TENS, RED], "full", True))
        F.append(("r2-tens-p1", 2, [RED, TENS], "full", True))
        F.append(("r2-tensF-p0", 2, [TENS4, FULL], "small", True))
        F.append(("r2-tensF-p1", 2, [FULL, TENS4], "small", True))
        F.append(("r2-tens2", 2, [TENS, TENS], "small", True))
        F.append(("r3-lit-red", 3, [RED41, RED41, RED41], "full", True))
        F.append(("r3-short1-lit", 3, [FULL], "full", True))
        F.append(("r3-short1-tens", 3, [TENS], "full", True))
        F.append(("r3-short2-lit", 3, [RED, RED], "full", True))
        F.append(("r3-short2-tens-p0", 3, [TENS, MINI], "red", True))
        F.append(("r3-short2-tens-p1", 3, [MINI, TENS], "red", True))
        F.append(("r3-tens-p0", 3, [TENS, MINI, MINI], "small", True))
        F.append(("r3-tens-p1", 3, [MINI, TENS, MINI], "small", True))
        F.append(("r3-tens-p2", 3, [MINI, MINI, TENS], "small", True))
        F.append(("r3-tens2-p01", 3, [TENS4, TENS4, MINI5], "small", True))
        F.append(("r3-tens2-p02", 3, [TENS4, MINI5, TENS4], "small", True))
        F.append(("r3-tens2-p12", 3, [MINI5, TENS4, TENS4], "small", True))
    return [f if len(f) == 6 else f + ({},) for f in F]


_ITEM_BUDGET_MS = 3000.0


def _cost_ms(expr, rank, mode, memo):
    per_eval = 0.45 if memo else 8.0
    return 3.0 + (4 ** rank) * n_valuations(expr, mode) * per_eval


def plan(tier, seed):
    fams = families(tier)
    names = [f[0] for f in fams]
    by_name = {f[0]: f for f in fams}

    def driver(ch):
        name = ch.all("family", names)
        _, rank, alphas, mode, memo, opt = by_name[name]
        if opt.get("whole"):
            return name, ch.all(f"{name}.expr", alphas[0]).split(",")
        expr = [ch.all(f"{name}.c{p}", a) for p, a in enumerate(alphas)]
        return name, expr

    st = explore.Stats()
    per_family = {n: [] for n in names}
    for _, (name, expr) in explore.explore(driver, bound=0, stats=st):
        per_family[name].append(expr)
    items = []
    fam_stats = {}
    total_evals = 0
    for name in names:
        _, rank, alphas, mode, memo, opt = by_name[name]
        strict = bool(opt.get("strict"))
        exprs = sorted(per_family[name])
        cur, acc = [], 0.0
        n_eval = 0
        for e in exprs:
            c = _cost_ms(e, rank, mode, memo)
            n_eval += (4 ** rank) * n_valuations(e, mode)
            if cur and acc + c > _ITEM_BUDGET_MS:
                items.append({"fam": name, "rank": rank, "mode": mode, "memo": memo, "strict": strict, "exprs": cur})
                cur, acc = [], 0.0
            cur.append(e)
            acc += c
        if cur:
            items.append({"fam": name, "rank": rank, "mode": mode, "memo": memo, "strict": strict, "exprs": cur})
        fam_stats[name] = {"rank": rank, "expressions": len(exprs), "shapes": 4 ** rank, "valuation_mode": mode,
                           "planned_evaluations": n_eval, "alphabet_sizes": [len(a) for a in alphas],
                           "refusal_is_violation": strict}
        total_evals += n_eval
    d = st.as_dict()
    d["exhaustive"] = not st.capped
    d["dimensions"] = {k: len(v) for k, v in st.dim_hist.items()}
    d["families"] = fam_stats
    d["expressions"] = sum(v["expressions"] for v in fam_stats.values())
    d["planned_expr_shape_valuation_triples"] = total_evals
    return items, d


# ---------------------------------------------------------------------------------------------
# worker side
# ---------------------------------------------------------------------------------------------

_MEMO = {"on": False, "cache": {}, "installed": False}


def _install_session_memo():
    """Memoise onnxruntime.InferenceSession(bytes, providers=...) as eager mode calls it (pure in the bytes)."""
    if _MEMO["installed"]:
        return
    import onnxruntime as ort
    real = ort.InferenceSession
    cache = _MEMO["cache"]

    def one_thread():
        # eager mode creates its sessions with default options = one intra-op pool thread per core per session;
        # with 16 workers (and thousands of memoised sessions) that is only overhead.  Results do not depend on it.
        so = ort.SessionOptions()
        so.intra_op_num_threads = 1
        so.inter_op_num_threads = 1
        return so

    def factory(path_or_bytes, sess_options=None, providers=None, provider_options=None, **kw):
        if sess_options is not None or provider_options is not None or kw or not isinstance(path_or_bytes, bytes):
            return real(path_or_bytes, sess_options, providers, provider_options, **kw)
        if not _MEMO["on"]:
            return real(path_or_bytes, one_thread(), providers=providers)
        key = (path_or_bytes, tuple(providers or ()))
        s = cache.get(key)
        if s is None:
            if len(cache) >= 2000:     # ~0.15 MB per session
                cache.clear()
            s = cache[key] = real(path_or_bytes, one_thread(), providers=providers)
        return s
    ort.InferenceSession = factory
    _MEMO["installed"] = True


def worker_init(arg):
    _install_session_memo()


_SEQ = [0]
_PROGS = {}          # (expr tuple, rank) -> Prog
_VERDICTS = {}       # (expr tuple, shape, vals key, memo) -> (want, g, e)


class Prog:
    __slots__ = ("src", "f", "session", "g_refusal", "path", "params", "modname", "rescript")


def source_of(expr, rank):
    params = [pk for p, code in enumerate(expr) for pk in params_of(code, p)]
    xs = ", ".join(f'"d{a}"' for a in range(rank))
    ps = "".join(f", {n}: INT64" + ('["K%s"]' % n if kind == "I" else "") for n, kind in params)
    idx = ", ".join(render(code, p) for p, code in enumerate(expr))
    src = (f"@script(default_opset=op)\n"
           f"def f(X: FLOAT[{xs}]{ps}) -> FLOAT[...]:\n"
           f"    return X[{idx}]\n")
    return src, params


def _env():
    from onnxscript import FLOAT, INT64, script
    from onnxscript.onnx_opset import opset18 as op
    return {"script": script, "op": op, "FLOAT": FLOAT, "INT64": INT64}


def build(expr, rank):
    """Decorate + export + make the ORT session once per (expression, rank)."""
    from vf import runeq
    key = (tuple(expr), rank)
    pr = _PROGS.get(key)
    if pr is not None:
        return pr
    if len(_PROGS) >= 800:
        for k in list(_PROGS)[:400]:
            old = _PROGS.pop(k)
            sys.modules.pop(old.modname, None)
    pr = Prog()
    pr.src, pr.params = source_of(expr, rank)
    pr.f = pr.session = pr.g_refusal = pr.rescript = None
    pr.path = "-"
    _SEQ[0] += 1
    fname = f"<c11_{_SEQ[0]}>"
    modname = pr.modname = f"_c11_gen_{_SEQ[0]}"
    linecache.cache[fname] = (len(pr.src), None, pr.src.splitlines(True), fname)
    mod = types.ModuleType(modname)
    mod.__dict__.update(_env())
    sys.modules[modname] = mod
    code = compile(pr.src, fname, "exec")      # a SyntaxError here is a harness bug: let it surface
    try:
        exec(code, mod.__dict__)
        pr.f = mod.__dict__["f"]
    except Exception as e:  # noqa: BLE001  refusal at decoration
        pr.g_refusal = ("decorate", type(e).__name__, str(e)[:160])
        sys.modules.pop(modname, None)
        linecache.cache.pop(fname, None)
        _PROGS[key] = pr
        return pr
    try:
        mp = pr.f.to_model_proto()
    except Exception as e:  # noqa: BLE001
        linecache.cache.pop(fname, None)
        pr.g_refusal = ("export", type(e).__name__, str(e)[:160])
        _PROGS[key] = pr
        return pr
    # the SAME Python function object scripted a second time must give the same graph (the translation of a subscript
    # must not depend on an earlier translation of the same source: seeded C11f rewrote the shared AST in place)
    try:
        pyfn = getattr(pr.f, "function", None)
        if pyfn is not None:
            env = _env()
            f2 = env["script"](default_opset=env["op"])(pyfn)
            if f2.to_model_proto().SerializeToString(deterministic=True) != mp.SerializeToString(deterministic=True):
                pr.rescript = "differs"
    except Exception as e:  # noqa: BLE001
        pr.rescript = "raises:" + type(e).__name__
    linecache.cache.pop(fname, None)
    ops = [n.op_type for n in mp.graph.node if n.op_type != "Constant"]
    for fn in mp.functions:
        ops += ["fn:" + n.op_type for n in fn.node if n.op_type != "Constant"]
    pr.path = ",".join(f"{k}*{len(list(g))}" if k in ("Concat", "Reshape", "Add") else k
                       for k, g in itertools.groupby(ops))
    try:
        pr.session = runeq.make_session(mp)
    except runeq.RunError as e:
        pr.g_refusal = ("load", "RunError", e.msg[:160])
    _PROGS[key] = pr
    return pr


def np_index(expr, vals):
    out = []
    for p, code in enumerate(expr):
        c = parse(code)
        if c[0] == "int":
            out.append(c[1])
        elif c[0] == "sl":
            out.append(slice(c[1], c[2], c[3]))
        elif c[0] == "ti":
            out.append(int(vals[f"i{p}"]))
        elif c[0] == "tI":
            out.append(np.array(vals[f"I{p}"], dtype=np.int64))
        else:
            def r(v):
                if v is None or isinstance(v, int):
                    return v
                if v == "i+1":
                    return int(vals[f"i{p}"]) + 1
                return int(vals[f"{v}{p}"])
            out.append(slice(r(c[1]), r(c[2]), r(c[3])))
    return tuple(out)


def feeds_of(pr, vals):
    fd = {}
    for name, kind in pr.params:
        v = vals[name]
        fd[name] = np.array(v, dtype=np.int64).reshape((len(v),) if kind == "I" else ())
    return fd


_X = {}


def x_of(shape):
    x = _X.get(shape)
    if x is None:
        x = _X[shape] = np.arange(int(np.prod(shape)), dtype=np.float32).reshape(shape)
        x.setflags(write=False)
    return x


def evaluate(expr, rank, shape, vals, memo):
    """-> (want, g, e): numpy array or 'IndexError'; each of g/e is an ndarray or ('ERR', stage, type, msg)."""
    X = x_of(shape)
    try:
        want = X[np_index(expr, vals)]
        want = np.asarray(want)
    except IndexError:
        want = "IndexError"
    pr = build(expr, rank)
    fd = feeds_of(pr, vals)
    if pr.session is None:
        g = ("ERR",) + pr.g_refusal
    else:
        try:
            g = np.asarray(pr.session.run(None, dict(fd, X=X))[0])
        except Exception as e:  # noqa: BLE001  ORT run-time refusal
            g = ("ERR", "run", type(e).__name__, str(e)[:160])
    if pr.f is None:
        e_ = ("ERR",) + pr.g_refusal
    else:
        _MEMO["on"] = bool(memo)
        try:
            r = pr.f(np.array(X), *[fd[n] for n, _ in pr.params])
            if isinstance(r, (tuple, list)):
                e_ = ("ERR", "call", "NotATensor", f"eager returned {type(r).__name__}")
            else:
                e_ = np.asarray(getattr(r, "value", r))
        except Exception as ex:  # noqa: BLE001  eager refusal
            e_ = ("ERR", "call", type(ex).__name__, str(ex)[:160])
        finally:
            _MEMO["on"] = False
    return want, g, e_


def judge(want, got):
    """-> 'eq' | 'refused:<stage>' | 'oor-refused' | 'wrong' | 'oor-accepted'."""
    if isinstance(got, tuple):
        return "oor-refused" if isinstance(want, str) else "refused:" + got[1]
    if isinstance(want, str):
        return "oor-accepted"
    if got.dtype == want.dtype and got.shape == want.shape and np.array_equal(got, want):
        return "eq"
    return "wrong"


def _bad(v):
    return v in ("wrong", "oor-accepted")


# classification and minimisation ---------------------------------------------------------------

def _bcls(v, d):
    if v is None:
        return "omit"
    if v == 0:
        return "0"
    if 0 < v < d:
        return "+in"
    if v == d:
        return "=d"
    if v > d:
        return ">d"
    if -d <= v < 0:
        return "-in"
    return "<-d"


def _icls(v, d):
    if 0 <= v < d:
        return ">=0"
    if -d <= v < 0:
        return "<0"
    return "-oor"


def classify(code, p, d, vals):
    c = parse(code)
    if c[0] == "int":
        return "int" + _icls(c[1], d)
    if c[0] == "sl":
        if c[1:] == (None, None, None):
            return ":"
        return f"slice[lo{_bcls(c[1], d)},hi{_bcls(c[2], d)},st{'omit' if c[3] is None else c[3]}]"
    if c[0] == "ti":
        return "tensor0d" + _icls(int(vals[f"i{p}"]), d)
    if c[0] == "tI":
        v = list(vals[f"I{p}"])
        s = "tensor1d"
        if not v:
            s += "-empty"
        if any(x < 0 for x in v):
            s += "-neg"
        if any(not (-d <= x < d) for x in v):
            s += "-oor"
        return s

    def part(v):
        if v is None:
            return "omit"
        if isinstance(v, int):
            return str(v)
        if v == "i+1":
            return "t(i+1)" + _bcls(int(vals[f"i{p}"]) + 1, d)
        if v == "k":
            return "t" + str(int(vals[f"k{p}"]))
        return "t" + _bcls(int(vals[f"{v}{p}"]), d)
    return f"tslice[lo{part(c[1])},hi{part(c[2])},st{part(c[3])}]"


def _literalise(code, p, vals):
    """Tensor component -> the literal component with the same value (None when impossible)."""
    c = parse(code)
    if c[0] == "ti":
        return str(int(vals[f"i{p}"]))
    if c[0] == "tsl":
        def r(v):
            if v is None or isinstance(v, int):
                return v
            if v == "i+1":
                return int(vals[f"i{p}"]) + 1
            return int(vals[f"{v}{p}"])
        return _sl_text(r(c[1]), r(c[2]), r(c[3]))
    return None


def _restrict(expr, vals):
    keep = {n for p, code in enumerate(expr) for n, _ in params_of(code, p)}
    return {k: v for k, v in vals.items() if k in keep}


def _verdict(expr, rank, shape, vals, memo, side):
    vals = _restrict(expr, vals)
    key = (tuple(expr), shape, tuple(sorted((k, tuple(v) if isinstance(v, list) else v) for k, v in vals.items())))
    r = _VERDICTS.get(key)
    if r is None:
        if len(_VERDICTS) > 200000:
            _VERDICTS.clear()
        want, g, e = evaluate(expr, rank, shape, vals, memo)
        r = _VERDICTS[key] = (judge(want, g), judge(want, e))
    return r[0 if side == "graph" else 1]


def _I_order(d):
    return [[0], [0, 0], [0, 0, 0], [0, 0, 0, 0, 0], [d]]


def minimise(expr, rank, shape, vals, memo, side, kind):
    """Greedy reduction of a failing (expression, shape, valuation), preserving side and kind.

    Steps (each kept only when the case still fails the same way): shorter tuple; component -> ':' ; tensor
    component -> the literal of the same value; 1-D tensor -> 0-d tensor; slice -> '0:' (a slice that selects
    everything) ; slice bounds/step -> omitted, step -> unit step; int -> 0 / -1; move a component left over a
    ':' (transposing the shape with it); simplest valuation.  -> (expr, shape, vals, classes)
    """
    expr = list(expr)
    vals = dict(vals)
    shape = tuple(shape)

    def fails(cand, cvals=None, cshape=None):
        return _verdict(cand, rank, shape if cshape is None else cshape,
                        vals if cvals is None else cvals, memo, side) == kind

    while True:
        before = (list(expr), dict(vals), shape)
        changed = True
        while changed:
            changed = False
            while len(expr) > 1 and fails(expr[:-1]):
                expr = expr[:-1]
                changed = True
            for p in range(len(expr)):
                code = expr[p]
                if code in (":", "::"):
                    if code == "::" and fails(expr[:p] + [":"] + expr[p + 1:]):
                        expr[p] = ":"
                        changed = True
                    continue
                c = parse(code)
                cands = [(":", None)]
                lit = _literalise(code, p, vals)
                if lit is not None:
                    cands.append((lit, None))
                if c[0] == "tI" and vals[f"I{p}"]:
                    nv = dict(vals)
                    nv[f"i{p}"] = vals[f"I{p}"][0]
                    cands.append(("i", nv))
                if c[0] == "int":
                    # well-founded: 0 is minimal, -1 may only become 0, anything else may become 0 or -1
                    cands += [(x, None) for x in {0: [], -1: ["0"]}.get(c[1], ["0", "-1"])]
                if c[0] == "sl":
                    lo, hi, stp = c[1:]
                    if code != "0:":
                        cands.append(("0:", None))
                    if lo is not None and code != "0:":
                        cands.append((_sl_text(None, hi, stp), None))
                    if hi is not None:
                        cands.append((_sl_text(lo, None, stp), None))
                    if stp is not None:
                        cands.append((_sl_text(lo, hi, None), None))
                        if abs(stp) > 1:
                            cands.append((_sl_text(lo, hi, stp // abs(stp)), None))
                for cand, cvals in cands:
                    if cand == code or cand == "":
                        continue
                    if parse(cand)[0] == "sl" and parse(cand)[1:] == (None, None, None):
                        cand = ":"
                    trial = expr[:p] + [cand] + expr[p + 1:]
                    if fails(trial, cvals):
                        expr = trial
                        if cvals is not None:
                            vals = cvals
                        changed = True
                        break
            # move a component left over a ':' (the axis it applies to moves with it)
            for p in range(1, len(expr)):
                if expr[p - 1] in (":", "::") and expr[p] not in (":", "::"):
                    trial = expr[:p - 1] + [expr[p], expr[p - 1]] + expr[p + 1:]
                    tshape = shape[:p - 1] + (shape[p], shape[p - 1]) + shape[p + 1:]
                    tvals = {}
                    for k, v in vals.items():
                        if k[1:] == str(p):
                            tvals[k[0] + str(p - 1)] = v
                        else:
                            tvals[k] = v
                    if fails(trial, tvals, tshape):
                        expr, shape, vals = trial, tshape, tvals
                        changed = True
                        break
        while len(expr) > 1 and expr[-1] == ":" and fails(expr[:-1]):
            expr = expr[:-1]
        vals = _restrict(expr, vals)
        # simplest valuation that still fails (well-founded orders)
        changed = True
        while changed:
            changed = False
            for name in sorted(vals):
                v = vals[name]
                if name[0] == "I":
                    order = _I_order(shape[int(name[1:])])
                    cands = order[:order.index(v)] if v in order else order
                elif name[0] == "k":
                    cands = [] if v == 1 else [1] if v == -1 else [1, -1]
                else:
                    cands = [] if v == 0 else [0] if v == -1 else [0, -1]
                for c in cands:
                    trial = dict(vals)
                    trial[name] = c
                    if fails(expr, trial):
                        vals = trial
                        changed = True
                        break
        # smallest dims that still fail (so that the classes, which are relative to the dims, converge)
        for a in range(rank):
            for d in range(1, shape[a]):
                tshape = shape[:a] + (d,) + shape[a + 1:]
                if fails(expr, None, tshape):
                    shape = tshape
                    break
        if (expr, vals, shape) == before:
            break
    classes = " + ".join(classify(code, p, shape[p], vals) for p, code in enumerate(expr))
    return expr, shape, vals, classes


def _desc(x):
    if isinstance(x, str):
        return x
    if isinstance(x, tuple):
        return {"error": list(x[1:])}
    return {"shape": list(x.shape), "values": x.ravel()[:16].tolist()}


def execute(item):
    import time
    t_cpu = time.process_time()
    rank, mode, memo = item["rank"], item["mode"], item["memo"]
    strict = bool(item.get("strict"))
    shapes = shapes_of(rank)
    counts = {}
    viols = {}
    nkeys = []
    outcomes = set()
    n_triples = 0

    def inc(k, n=1):
        counts[k] = counts.get(k, 0) + n

    for expr in item["exprs"]:
        pr = build(expr, rank)
        inc("path:" + pr.path)
        if pr.g_refusal is not None:
            inc(f"graph-refused-static:{pr.g_refusal[0]}:{pr.g_refusal[1]}")
        if pr.rescript is not None:
            key = f"C11|graph|second script() of the same function object {pr.rescript}"
            inc("rescript:" + pr.rescript)
            if key not in viols:
                viols[key] = {"key": key, "detail": {"index": "X[" + ", ".join(render(c, p) for p, c in enumerate(expr)) + "]",
                                                      "source": pr.src, "cases_in_item": 1}}
            else:
                viols[key]["detail"]["cases_in_item"] += 1
        elif pr.f is not None and pr.g_refusal is None:
            inc("rescript:identical")
        compared = False
        for shape in shapes:
            for vals in valuations(expr, shape, mode):
                n_triples += 1
                want, g, e = evaluate(expr, rank, shape, vals, memo)
                jg, je = judge(want, g), judge(want, e)
                inc("graph:" + jg)
                inc("eager:" + je)
                if isinstance(g, tuple):
                    inc(f"graph-err:{g[1]}:{g[2]}")
                if isinstance(e, tuple):
                    inc(f"eager-err:{e[1]}:{e[2]}")
                outcomes.add("g:" + jg)
                outcomes.add("e:" + je)
                if isinstance(want, str):
                    inc("numpy:IndexError")
                if jg in ("eq", "wrong") or je in ("eq", "wrong"):
                    compared = True
                if (jg == "eq") != (je == "eq") and not _bad(jg) and not _bad(je):
                    inc("support-disagree:" + ("graph-only" if jg == "eq" else "eager-only"))
                for side, j, got in (("graph", jg, g), ("eager", je, e)):
                    if (strict and j.startswith("refused:")
                            and all(v >= 0 for k, v in vals.items() if k[0] in "ij")):
                        # a form the documentation lists as supported must not be refused where numpy succeeds
                        # (the documented examples show negative literals but no negative tensor values, so the
                        # demand is limited to non-negative tensor values)
                        text = "X[" + ", ".join(expr) + "]"
                        key = f"C11|{side}|documented form refused: {text}"
                        inc(f"{side}:documented-refused")
                        if key not in viols:
                            viols[key] = {"key": key, "detail": {
                                "kind": j, "index": "X[" + ", ".join(render(c, p) for p, c in enumerate(expr)) + "]",
                                "shape": list(shape), "tensor_inputs": vals, "numpy": _desc(want),
                                "graph": _desc(g), "eager": _desc(e), "source": source_of(expr, rank)[0],
                                "cases_in_item": 1}}
                        else:
                            viols[key]["detail"]["cases_in_item"] += 1
                        continue
                    if not _bad(j):
                        continue
                    mexpr, mshape, mvals, classes = minimise(expr, rank, shape, vals, memo, side, j)
                    key = f"C11|{side}|{classes}"
                    v = viols.get(key)
                    if v is None:
                        msrc, _ = source_of(mexpr, rank)
                        mw, mg, me = evaluate(mexpr, rank, mshape, mvals, memo)
                        viols[key] = {"key": key, "detail": {
                            "kind": j, "minimal_index": "X[" + ", ".join(render(c, p) for p, c in enumerate(mexpr)) + "]",
                            "shape": list(mshape), "tensor_inputs": mvals, "numpy": _desc(mw),
                            "graph": _desc(mg), "eager": _desc(me), "source": msrc,
                            "first_seen_in": "X[" + ", ".join(render(c, p) for p, c in enumerate(expr)) + "]",
                            "first_seen_shape": list(shape), "first_seen_inputs": vals, "cases_in_item": 1}}
                    else:
                        v["detail"]["cases_in_item"] += 1
        if compared:
            nkeys.append(f"{rank}|" + ",".join(expr))
    inc("extra_evaluations", n_triples - 1)
    inc("expressions", len(item["exprs"]))
    inc("triples:" + item["fam"], n_triples)
    first = item["exprs"][0]
    return {"status": "viol" if viols else "ok", "cpu_ms": int((time.process_time() - t_cpu) * 1000),
            "outcome": item["fam"] + ":" + "+".join(sorted(outcomes)),
            "nkey": nkeys, "nontrivial": bool(nkeys), "counts": counts, "viols": list(viols.values()),
            "show": source_of(first, rank)[0] + f"# ... {len(item['exprs'])} expressions in this item, "
                    f"{len(shapes)} shapes each, valuation mode {mode}"}


def summarize(items, results, tier):
    paths, refusals = {}, {}
    for r in results:
        for k, v in (r.get("counts") or {}).items():
            if k.startswith("path:"):
                paths[k[5:]] = paths.get(k[5:], 0) + v
            elif k.startswith(("graph-err:", "eager-err:", "graph-refused-static:")):
                refusals[k] = refusals.get(k, 0) + v
    cpu_ms = sum(r.get("cpu_ms", 0) for r in results)        # timing, like wall_s: not part of the counts
    return {"worker_cpu_s": round(cpu_ms / 1000.0, 1),
            "graph_op_paths": dict(sorted(paths.items(), key=lambda kv: -kv[1])),
            "distinct_graph_op_paths": len(paths),
            "refusal_histogram": dict(sorted(refusals.items(), key=lambda kv: -kv[1])[:60])}
