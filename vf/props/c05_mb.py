"""C05 helper: tiny ModelProto builder + deterministic input valuations.

Independent of onnxscript (only onnx.helper / numpy).  A model is described by the rule space with

    mb = MB(opset)
    x = mb.inp("x", "f32", ["N", 3])            # data input (values come from the value pools)
    c = mb.const(np.array(..), kind, alts=[..])  # operand that the rule needs to be constant
    y = mb.node("Clip", [x, lo, hi])
    mb.out(y)
    model, feeds = mb.build(value_info=True), mb.feeds()

``kind`` of a constant operand: "node" (Constant node), "init" (initializer), "init_input" (initializer that
is ALSO a graph input, i.e. only a default: the feeds override it with ``alts``), "input" (plain graph input,
value only known at run time).
"""
from __future__ import annotations

import numpy as np
import onnx
from onnx import TensorProto as TP
from onnx import helper as oh
from onnx import numpy_helper as nh

DT = {
    "f32": np.float32, "f64": np.float64, "f16": np.float16,
    "i64": np.int64, "i32": np.int32, "i8": np.int8, "u8": np.uint8, "i16": np.int16,
    "u32": np.uint32, "u64": np.uint64, "bool": np.bool_,
}
ONNX_DT = {
    "f32": TP.FLOAT, "f64": TP.DOUBLE, "f16": TP.FLOAT16, "bf16": TP.BFLOAT16,
    "i64": TP.INT64, "i32": TP.INT32, "i8": TP.INT8, "u8": TP.UINT8, "i16": TP.INT16,
    "u32": TP.UINT32, "u64": TP.UINT64, "bool": TP.BOOL, "str": TP.STRING,
}

# value pools: always contain 0, +-1, a negative, an eps-sized and an almost-1 value, large values
_FPOOL = [0.5, -1.0, 2.5, -3.5, 0.0, 7.0, 1.0, -0.25, 10.0, -10.0, 3.0, 6.5, -6.0, 1e-3, 0.999, 100.0, -0.0, 4.0]
_IPOOL = [1, -1, 2, -3, 0, 7, 5, -8, 10, 3, -2, 4, 100, 6, -6, 9]
_UPOOL = [1, 2, 0, 7, 5, 10, 3, 4, 100, 6, 9, 255, 8, 128, 127, 11]
N_FEEDS = 3


def np_dtype(dt):
    return DT[dt]


def arr(dt, values, shape=None):
    a = np.array(values, dtype=DT[dt])
    if shape is not None:
        a = a.reshape(shape)
    return a


def fill(dt, shape, k=0, salt=0, special=False):
    """Deterministic array: cycles through the pool starting at an offset that depends on (k, salt)."""
    n = int(np.prod(shape)) if len(shape) else 1
    if dt == "bool":
        base = [(i * 7 + k * 3 + salt) % 3 != 0 for i in range(n)]
        return np.array(base, dtype=np.bool_).reshape(shape)
    if dt.startswith("f"):
        pool = _FPOOL
    elif dt.startswith("u"):
        pool = _UPOOL
    else:
        pool = _IPOOL
    off = k * 5 + salt * 3
    vals = [pool[(off + i) % len(pool)] for i in range(n)]
    if dt in ("i8",):
        vals = [max(-128, min(127, v)) for v in vals]
    a = np.array(vals, dtype=DT[dt]).reshape(shape)
    if special and dt.startswith("f") and n:
        flat = a.reshape(-1)
        flat[0] = np.inf
        if n > 1:
            flat[1] = -np.inf
        if n > 2:
            flat[2] = np.nan
    return a


class MB:
    def __init__(self, opset=18, ir_version=10, extra_opsets=()):
        self.opset = opset
        self.ir_version = ir_version
        self.extra_opsets = list(extra_opsets)
        self.nodes = []
        self.inputs = []      # ValueInfoProto
        self.inits = []       # TensorProto
        self.outputs = []     # names
        self.out_types = {}   # name -> (dt, shape) explicit
        self._n = 0
        # feed plan: name -> ("data", dt, shape, salt) | ("alts", [arrays])
        self._feed = {}
        self.bindings = [{}]  # per-feed symbolic dim bindings, e.g. [{"N":2},{"N":3},{"N":1}]
        self.special_feed = False
        self.vi_override = {}  # name -> (dt, shape) value_info forced by the space
        self.vi_drop = set()   # names whose inferred value_info is withheld

    def fresh(self, base="t"):
        self._n += 1
        return f"{base}{self._n}"

    # -- inputs -----------------------------------------------------------------------------------
    def inp(self, name, dt, shape, values=None):
        """Graph input.  ``shape`` entries: int | str (symbolic, bound per feed) | None (unnamed dynamic)."""
        self.inputs.append(oh.make_tensor_value_info(name, ONNX_DT[dt], shape))
        if values is not None:
            self._feed[name] = ("alts", [np.asarray(v) for v in values])
        else:
            self._feed[name] = ("data", dt, list(shape) if shape is not None else None, len(self._feed))
        return name

    def const(self, value, kind="init", name=None, alts=None):
        """Operand the rule wants constant, given in one of four ways."""
        value = np.asarray(value)
        name = name or self.fresh("c")
        if kind == "node":
            self.nodes.append(oh.make_node("Constant", [], [name], value=nh.from_array(value, name + "_v")))
        elif kind == "init":
            self.inits.append(nh.from_array(value, name))
        elif kind == "init_input":
            self.inits.append(nh.from_array(value, name))
            self.inputs.append(oh.make_tensor_value_info(name, oh.np_dtype_to_tensor_dtype(value.dtype), list(value.shape)))
            self._feed[name] = ("alts", [value] + [np.asarray(a, dtype=value.dtype) for a in (alts or [])])
        elif kind == "input":
            self.inputs.append(oh.make_tensor_value_info(name, oh.np_dtype_to_tensor_dtype(value.dtype), list(value.shape)))
            self._feed[name] = ("alts", [value] + [np.asarray(a, dtype=value.dtype) for a in (alts or [])])
        else:
            raise ValueError(kind)
        return name

    # -- nodes ------------------------------------------------------------------------------------
    def node(self, op, ins, n_out=1, outs=None, domain="", name=None, **attrs):
        if outs is None:
            outs = [self.fresh(op.lower()[:4] + "_") for _ in range(n_out)]
        attrs = {k: v for k, v in attrs.items() if v is not None}
        n = oh.make_node(op, [i if i is not None else "" for i in ins], outs, domain=domain, name=name or "", **attrs)
        self.nodes.append(n)
        return outs[0] if len(outs) == 1 else tuple(outs)

    def out(self, name, dt=None, shape=None):
        self.outputs.append(name)
        if dt is not None:
            self.out_types[name] = (dt, shape)
        return name

    # -- model ------------------------------------------------------------------------------------
    def build(self, value_info=True):
        outs = []
        for o in self.outputs:
            if o in self.out_types:
                dt, shape = self.out_types[o]
                outs.append(oh.make_tensor_value_info(o, ONNX_DT[dt], shape))
            else:
                outs.append(oh.make_empty_tensor_value_info(o))
        g = oh.make_graph(self.nodes, "g", self.inputs, outs, initializer=self.inits)
        ops = [oh.make_opsetid("", self.opset)] + [oh.make_opsetid(d, v) for d, v in self.extra_opsets]
        m = oh.make_model(g, opset_imports=ops, ir_version=self.ir_version)
        inferred = onnx.shape_inference.infer_shapes(m, strict_mode=True, data_prop=True)
        by_name = {v.name: v for v in inferred.graph.value_info}
        by_name.update({v.name: v for v in inferred.graph.output if v.type.HasField("tensor_type") or v.type.WhichOneof("value")})
        del m.graph.output[:]
        for o in self.outputs:
            if o in self.out_types:
                dt, shape = self.out_types[o]
                m.graph.output.append(oh.make_tensor_value_info(o, ONNX_DT[dt], shape))
            elif o in by_name:
                m.graph.output.append(by_name[o])
            else:
                # a graph input / initializer returned directly
                src = {v.name: v for v in self.inputs}
                if o in src:
                    m.graph.output.append(src[o])
                else:
                    raise ValueError(f"cannot type output {o}")
        if value_info:
            onames = set(self.outputs)
            for v in inferred.graph.value_info:
                if v.name in onames:
                    continue
                if v.name in self.vi_override or v.name in self.vi_drop:
                    continue
                m.graph.value_info.append(v)
            for nme, (dt, shape) in self.vi_override.items():
                m.graph.value_info.append(oh.make_tensor_value_info(nme, ONNX_DT[dt], shape))
        # A host (of a space that sets mb.anon_unknown) whose inputs carry unnamed dynamic dims writes every unknown dim anonymously: the names unk__N
        # that onnx shape inference invents for outputs / intermediates are dropped too (two anonymous dims are NOT
        # known to be equal; a seeded defect compared them equal).
        def _anon(d):
            return not d.HasField("dim_value") and not d.HasField("dim_param")
        if getattr(self, "anon_unknown", False) and any(
                _anon(d) for v in m.graph.input if v.type.HasField("tensor_type") and v.type.tensor_type.HasField("shape")
                for d in v.type.tensor_type.shape.dim):
            for v in list(m.graph.output) + list(m.graph.value_info):
                tt = v.type.tensor_type
                if v.type.HasField("tensor_type") and tt.HasField("shape"):
                    for d in tt.shape.dim:
                        if d.dim_param.startswith("unk__"):
                            d.ClearField("dim_param")
        return m

    def feeds(self, n=N_FEEDS):
        """-> list of feed dicts (>= n).  Feed k binds symbolic dims with self.bindings[k % len]."""
        out = []
        for k in range(n + (1 if self.special_feed else 0)):
            b = self.bindings[k % len(self.bindings)]
            special = self.special_feed and k == n
            fd = {}
            for name, plan in self._feed.items():
                if plan[0] == "alts":
                    alts = plan[1]
                    fd[name] = alts[k % len(alts)]
                else:
                    _, dt, shape, salt = plan
                    conc = []
                    for j, d in enumerate(shape):
                        if isinstance(d, int):
                            conc.append(d)
                        elif d is None:
                            conc.append(b.get(f"?{j}", b.get("?", 2)))
                        else:
                            conc.append(b.get(d, 2))
                    fd[name] = fill(dt, conc, k=k, salt=salt, special=special)
            out.append(fd)
        return out
