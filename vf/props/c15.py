"""C15 - a ModelProto and an ir.Model are treated alike, and nothing untouched is lost.

Choice tree: base model (exhaustive) x API variant (exhaustive) x carriers (one flag each, cost 1) x exotic
initializer (element type: cost 1; (payload, storage) variant: exhaustive when alone, else cost 1).
quick: bound 1, thorough: bound 2.  Each leaf builds M with plain protobuf code (c15_models), runs the real API on
the proto form and on the IR form and checks the five clauses of the statement with a field-wise comparison
written here (c15_diff):
  (a) parity      proto(f)(M) == serialize(ir(f)(deserialize(M)))   (map-like fields by key; explicit defaults excused)
  (b) lost-field  every element the API has no reason to touch (_protected) equals N(M)'s (or M's) element
  (c) serde-loss  M is field-wise included in N(M) = serialize(deserialize(M)); payloads read back bit-exact
  (d) not-idempotent  N(N(M)) == N(M)
  (e) argument-mutated / not-in-place   per docstring (IN_PLACE)
Finding key: C15|<kind>|<public API name, or component=onnx_ir for serde>|<field path without selectors>.
"""
from __future__ import annotations

import atexit
import os
import shutil
import tempfile

from vf import explore
from vf.props import c15_diff as D
from vf.props import c15_models as MZ

ID = "C15"
LEVEL = "model_checking"
RULE = ("choice tree: base model {plain, If subgraph, model-local function, bait-free (every API is a no-op; carriers one "
        "at a time in both tiers)} (exhaustive) x API variant (13 incl. the serde round trip, exhaustive: "
        "serde, optimize, optimize(inline=False), rewrite(None), rewrite([]), rewrite([rule]), fold_constants, "
        "fold_constants(onnx_shape_inference=True), "
        "remove_unused_nodes, remove_unused_functions, convert_version, convert_version(26, fallback=True) "
        "= onnx C API path, replace_functions) x carriers (one boolean per carrier, cost 1) x exotic initializer (element "
        "type: cost 1; its (payload, storage) variant: exhaustive when no other carrier is on, cost 1 otherwise); "
        "deviation bound 1 (quick) / 2 (thorough); both "
        "entry forms {ModelProto, ir.Model} are executed in every leaf.  distinct_nontrivial = distinct (base, api, "
        "carrier set, initializer) leaves for which both entry forms returned and every clause was evaluated")
ASSUMPTIONS = ["protobuf (upb) deterministic serialization and ListFields/HasField are the reference for 'field populated'",
               "models are built with onnx.helper/protobuf only and accepted by onnx.checker.check_model(full_check=True)",
               "which elements an API 'needs to change' is the per-API table _BAIT/_protected, written from the docstrings "
               "and the property statement"]

APIS = ["serde", "optimize", "optimize_noinline", "rewrite_default", "rewrite_empty", "rewrite_custom", "fold_constants",
        "fold_constants_infer",
        "remove_unused_nodes", "remove_unused_functions", "convert_version", "convert_version_capi", "replace_functions",
        # the function list also holds another overload of the same operator (and an unrelated function), the called
        # overload first / last: both entry forms must still expand the call that the model makes
        "replace_functions_ovl_last", "replace_functions_ovl_first"]
# docstring says in place (or returns None): the object given must hold the result afterwards
IN_PLACE = {"fold_constants", "fold_constants_infer", "remove_unused_nodes", "remove_unused_functions", "convert_version",
            "convert_version_capi"}
# mutually exclusive carriers (they populate the same field)
EXCL = [("ir_version=9", "ir_version=13"), ("model_version", "model_version=0"),
        ("external_data", "external_data.offset_length", "external_data.checksum"),
        ("value_info.symbolic", "value_info.no_shape", "value_info.denotation"),
        ("quantization_annotation", "quantization_annotation.initializer"),
        # FunctionProto.value_info exists from IR version 10 on: with ir_version 9 the model is not well-formed
        ("ir_version=9", "value_info.function")]
_EXCL_OF = {}
for grp in EXCL:
    for a in grp:
        _EXCL_OF.setdefault(a, set()).update(set(grp) - {a})

_VARIANTS = None


def _variants():
    """dtype -> [(payload, storage)] that denote a tensor; typed storage and NaN payloads first."""
    global _VARIANTS
    if _VARIANTS is None:
        _VARIANTS = {}
        for d in MZ.DT:
            v = [[p, s] for p in ("nan", "max", "negzero", "sub", "zerosize", "scalar") for s in ("typed", "raw")
                 if MZ.init_tensor(d, p, s) is not None]
            _VARIANTS[d] = v
    return _VARIANTS


def _driver(ch, bound=1):
    base = ch.all("base", MZ.BASES)
    api = ch.all("api", APIS)
    on = []
    # the bait-free base exists to reach the "nothing to do" branch of every wrapper: its carriers are
    # enumerated one at a time in both tiers (a deviation there costs the whole bound)
    cost = bound if base == "nobait" else 1
    for name in MZ.CARRIER_NAMES:
        if base not in MZ.CARRIERS[name][0]:
            continue
        if ch.flag("carrier:" + name, cost=cost):
            if _EXCL_OF.get(name, set()) & set(on):
                raise explore.Prune()
            on.append(name)
    dtype = ch.choose("init.dtype", [None] + list(MZ.DT), cost=cost)
    init = None
    if dtype is not None:
        # alone, every (payload, storage) of the element type is enumerated; combined with another carrier the
        # variant is one more deviation (so under bound 2 a carrier meets the first variant of every type)
        pv = ch.choose("init.variant", _variants()[dtype], cost=1 if on else 0)
        init = [dtype] + pv
    return {"base": base, "api": api, "carriers": on, "init": init}


def plan(tier, seed):
    st = explore.Stats()
    bound = 1 if tier == "quick" else 2
    items = [case for _, case in explore.explore(lambda ch: _driver(ch, bound), bound=bound, stats=st)]
    items.sort(key=lambda it: (it["base"], it["api"], it["carriers"], it["init"] or []))
    d = st.as_dict()
    d["exhaustive"] = not st.capped
    d["dimensions"] = {k: len(v) for k, v in st.dim_hist.items()}
    d["carriers"] = len(MZ.CARRIER_NAMES)
    d["initializer_menu"] = sum(len(v) for v in _variants().values())
    return items, d


# ------------------------------------------------------------------------------------------------------
# worker
# ------------------------------------------------------------------------------------------------------
_TMP = None


def worker_init(arg):
    """External-data carriers point at a file relative to the working directory: give each worker its own."""
    global _TMP
    if _TMP is not None:
        return
    import logging
    logging.disable(logging.WARNING)
    _TMP = tempfile.mkdtemp(prefix="c15_")
    atexit.register(shutil.rmtree, _TMP, True)
    with open(os.path.join(_TMP, "c15_ext.bin"), "wb") as f:
        import struct
        f.write(struct.pack("<12f", *[float(i) + 0.5 for i in range(12)]))
    os.chdir(_TMP)


def _custom_rule():
    from onnxscript.rewriter import pattern
    return pattern.RewriteRule(lambda op, a: op.Abs(op.Abs(a)), lambda op, a: op.Abs(a), name="c15_abs_abs")


def _call(api, obj, info, is_proto):
    """Run the API variant on obj (ModelProto or ir.Model); return the object holding the result."""
    import onnx
    import onnxscript.optimizer as opt
    import onnxscript.rewriter as rw
    import onnxscript.version_converter as vc
    from onnxscript import ir
    from onnxscript.utils import replace as rp
    if api == "optimize":
        return opt.optimize(obj)
    if api == "optimize_noinline":
        return opt.optimize(obj, inline=False)
    if api == "rewrite_default":
        return rw.rewrite(obj)
    if api == "rewrite_empty":
        return rw.rewrite(obj, [])
    if api == "rewrite_custom":
        return rw.rewrite(obj, [_custom_rule()])
    if api == "fold_constants":
        opt.fold_constants(obj)
        return obj
    if api == "fold_constants_infer":
        opt.fold_constants(obj, onnx_shape_inference=True)
        return obj
    if api == "remove_unused_nodes":
        opt.remove_unused_nodes(obj)
        return obj
    if api == "remove_unused_functions":
        opt.remove_unused_functions(obj)
        return obj
    if api == "convert_version":
        vc.convert_version(obj, info["target"])
        return obj
    if api == "convert_version_capi":
        vc.convert_version(obj, 26, fallback=True)
        return obj
    if api.startswith("replace_functions"):
        fn = MZ.the_custom_function(info["opset"])
        fns = [fn]
        if api != "replace_functions":
            other = MZ.the_custom_function(info["opset"])
            other.overload = "slow"
            del other.node[:]
            other.node.extend([onnx.helper.make_node("Neg", ["a"], ["r"])])
            unrelated = onnx.helper.make_function("custom.dom", "Unrelated", ["a"], ["r"],
                                                  [onnx.helper.make_node("Abs", ["a"], ["r"])],
                                                  [onnx.helper.make_opsetid("", info["opset"])])
            fns = [fn, unrelated, other] if api.endswith("ovl_last") else [other, unrelated, fn]
        if is_proto:
            return rp.replace_functions(obj, fns)
        rp.replace_functions_inplace(obj, [ir.from_proto(f) for f in fns])
        return obj
    raise AssertionError(api)


def _copy(m):
    c = type(m)()
    c.CopyFrom(m)
    return c


# --- what each API has no reason to change -------------------------------------------------------------
_BAIT = {
    "fold_constants": {"c1", "c2", "f"},
    "fold_constants_infer": {"c1", "c2", "f"},
    "remove_unused_nodes": {"d"},
    "remove_unused_functions": set(),
    "rewrite_default": {"d", "z0", "nz", "o2a", "o2"},
    "rewrite_custom": {"d", "o2a", "o2"},
    "optimize": {"c1", "c2", "f", "v", "d", "z0", "nz", "o2a", "o2", "fo"},
    "optimize_noinline": {"c1", "c2", "f", "v", "d", "z0", "nz", "o2a", "o2"},
    "convert_version": {"fo", "d"},
    "convert_version_capi": {"fo", "d"},
    "replace_functions": {"q"},
    "replace_functions_ovl_last": {"q"},
    "replace_functions_ovl_first": {"q"},
}
_INFERS = {"optimize", "optimize_noinline", "fold_constants_infer"}
_KEEP_FN = {"fold_constants", "fold_constants_infer", "remove_unused_nodes", "remove_unused_functions", "rewrite_default", "rewrite_custom",
            "optimize_noinline"}
_KEEP_UNUSED_FN = {"fold_constants", "fold_constants_infer", "remove_unused_nodes"}
_KEEP_ALL_OPSETS = {"fold_constants", "fold_constants_infer", "remove_unused_nodes", "remove_unused_functions"}


def _elements(m):
    """Flat view of a model: element id -> bytes (None = absent)."""
    g = m.graph
    el = {}
    for f in ("ir_version", "producer_name", "producer_version", "domain", "model_version", "doc_string"):
        el[f] = repr(getattr(m, f)) if m.HasField(f) else None
    el["metadata_props"] = repr(sorted((e.key, e.value) for e in m.metadata_props))
    for o in m.opset_import:
        el[f"opset_import[{o.domain}]"] = repr(o.version)
    for i, t in enumerate(m.training_info):
        el[f"training_info[{i}]"] = t
    el["graph.name"] = repr(g.name) if g.HasField("name") else None
    el["graph.doc_string"] = repr(g.doc_string) if g.HasField("doc_string") else None
    el["graph.metadata_props"] = repr(sorted((e.key, e.value) for e in g.metadata_props))
    for v in g.input:
        el[f"graph.input[{v.name}]"] = v
    el["graph.input.order"] = repr([v.name for v in g.input])
    for v in g.output:
        el[f"graph.output[{v.name}]"] = v
    el["graph.output.order"] = repr([v.name for v in g.output])
    for n in g.node:
        el[f"graph.node[{n.output[0]}]"] = n
    for t in g.initializer:
        el[f"graph.initializer[{t.name}]"] = t
    for t in g.sparse_initializer:
        el[f"graph.sparse_initializer[{t.values.name}]"] = t
    for v in g.value_info:
        el[f"graph.value_info[{v.name}]"] = v
    for q in g.quantization_annotation:
        el[f"graph.quantization_annotation[{q.tensor_name}]"] = q
    for f in m.functions:
        el[f"functions[{f.name}]"] = f
    return el


def _protected(api, base, carriers, key):
    if not key.startswith(("graph.node[", "graph.initializer[", "graph.value_info[", "functions[", "opset_import[",
                           "graph.quantization_annotation[")):
        return True  # model/graph level scalars, metadata, inputs, outputs, training_info, sparse initializers
    name = key[key.index("[") + 1:-1]
    lifted = "initializer.subgraph" in carriers and api.startswith("optimize")
    if key.startswith("graph.node["):
        if name == "io" and lifted:
            return False
        return name not in _BAIT[api]
    if key.startswith("graph.initializer["):
        return name in ("w", "k", "ext")
    if key.startswith("graph.value_info["):
        return name in ("t", "k", "ext", "w")
    if key.startswith("graph.quantization_annotation["):
        return True
    if key.startswith("functions["):
        return (name == "Fn" and api in _KEEP_FN) or (name == "Unused" and api in _KEEP_UNUSED_FN)
    if key.startswith("opset_import["):
        if api in _KEEP_ALL_OPSETS:
            return True
        if name == "":
            return not api.startswith("convert_version")
        if name == "custom.dom":
            return not api.startswith("replace_functions")
        if name == "local.dom":
            return base == "function" and api in _KEEP_FN
        return False
    return True


def _same_element(a, b, api):
    """a from N(M) (or M), b from the result; -> list of (subpath, kind, detail) of what did not survive."""
    if a is None or isinstance(a, str):
        return [] if a == b else [("", "changed" if b is not None else "missing", f"{a} -> {b}")]
    if b is None:
        return [("", "missing", "element absent")]
    if D.canon(a) == D.canon(b):
        return []
    out = []
    for path, kind, detail in D.diff(a, b, "", keyed_nodes=True):
        if kind in ("default", "default+"):
            continue
        if kind == "extra":
            # nothing is lost when: an element without a name is given one (NameFixPass); a value_info entry or a
            # type/shape annotation is added where there was none (shape inference)
            leaf = path.rsplit(".", 1)[-1]
            if leaf == "name" or leaf.startswith("value_info[") or leaf in ("type", "shape", "tensor_type", "elem_type"):
                continue
        if api in _INFERS and ".shape.dim[" in path:
            # shape inference is part of these APIs: a symbolic or unknown dimension may become a known one
            leaf = path.rsplit(".", 1)[-1]
            if (kind == "missing" and leaf == "dim_param") or (kind == "extra" and leaf in ("dim_value", "dim_param")):
                continue
        if kind == "missing" and path.startswith("opset_import[") and api not in _KEEP_ALL_OPSETS \
                and path not in ("opset_import[]",):
            # unused opset imports of a function may be cleaned up by the APIs documented to remove unused opsets
            if path == "opset_import[extra.unused]":
                continue
        out.append((path, kind, detail))
    return out


_API_OF = {"optimize_noinline": "optimize", "fold_constants_infer": "fold_constants", "rewrite_default": "rewrite", "rewrite_empty": "rewrite",
           "rewrite_custom": "rewrite", "convert_version_capi": "convert_version"}


def _where(path):
    """Field named in a finding key: element selectors stripped, cut below the first repeated container."""
    parts = [x for x in D.norm_path(path).split(".") if x != "<root>"]
    if parts[0] == "graph":
        parts = parts[:3] + (parts[-1:] if len(parts) > 3 else [])
    elif parts[0] == "functions":
        parts = parts[:2]
    else:
        parts = parts[:1]
    return ".".join(p for p in parts if p)


def _viol(kind, api, where, detail, component=None):
    comp = component or _API_OF.get(api, api)
    detail = dict(detail)
    detail["variant"] = api
    return {"key": f"C15|{kind}|{comp}|{where}", "detail": detail}


def _payload_check(tensor, init):
    """Read the deserialized tensor back (numpy(), tobytes()) and compare with the bit patterns it was built from."""
    import numpy as np
    dtype, payload, _ = init
    dims, vals, w, raw = MZ.expected_payload(dtype, payload)
    try:
        arr = tensor.numpy()
        if list(arr.shape) != list(dims):
            return f"numpy() shape {list(arr.shape)} != dims {dims}"
        if dtype == "STRING":
            # string_data() is the exact accessor; numpy() goes through a fixed-width 'S' array, which cannot
            # represent trailing NUL bytes - that view is outside the statement and only counted
            got = [bytes(x) for x in tensor.string_data()]
            if got != list(vals):
                return f"string_data() {got!r} != {vals!r}"
            if [bytes(x) for x in arr.ravel().tolist()] != list(vals):
                return "numpy-view"
            return None
        tb = tensor.tobytes()
        if tb != raw:
            return f"tobytes() {tb.hex()} != {raw.hex()}"
        if w >= 8:
            nb = np.ascontiguousarray(arr).tobytes()
            if nb != raw:
                return f"numpy() bits {nb.hex()} != {raw.hex()}"
        else:
            got = [int(x) & ((1 << w) - 1) for x in np.ascontiguousarray(arr).view(np.uint8).ravel().tolist()]
            if got != [v & ((1 << w) - 1) for v in vals]:
                return f"numpy() elements {got} != {vals}"
    except Exception as e:  # noqa: BLE001
        return f"reading the tensor raises {type(e).__name__}: {e}"
    return None


def _serde_leaf(M, item, nkey):
    from onnxscript import ir
    viols = []
    counts = {}
    try:
        model_ir = ir.serde.deserialize_model(_copy(M))
        N1 = ir.serde.serialize_model(model_ir)
    except Exception as e:  # noqa: BLE001
        return {"status": "skip", "skip": f"serde-refused:{type(e).__name__}", "outcome": "serde-refused", "nkey": nkey}
    if item["init"]:
        # the deserialized initializer denotes the same payload whichever storage the proto used
        bad = _payload_check(model_ir.graph.initializers["k"].const_value, item["init"])
        counts["payload_read_back"] = 1
        if bad == "numpy-view":
            counts["string_numpy_view_differs"] = 1
        elif bad:
            d, p, s = item["init"]
            viols.append(_viol("serde-loss", "serde", f"initializer.payload({d},{s})", {"payload": p, "what": bad},
                               "component=onnx_ir"))
    N2 = ir.serde.serialize_model(ir.serde.deserialize_model(_copy(N1)))
    inits = {t.name for t in M.graph.initializer}
    unstable = set()
    if D.canon(N1) != D.canon(N2):
        for path, kind, detail in D.diff(N1, N2)[:3]:
            unstable.add(D.norm_path(path))
            viols.append(_viol("not-idempotent", "serde", D.norm_path(path), {"path": path, "kind": kind, "what": detail},
                               "component=onnx_ir"))
    ds = D.diff(D.sort_keyed(M), D.sort_keyed(N1))
    added = vanished = 0
    for path, kind, detail in ds:
        where = D.norm_path(path)
        if kind == "default":
            vanished += 1
            continue
        if kind == "extra":
            vi = path.rsplit(".value_info[", 1)
            if len(vi) == 2 and path.endswith("]"):
                name = vi[1][:-1]
                sub_inits = inits | {"sw"}
                if name in sub_inits:
                    added += 1
                    continue
        if kind == "default+" or where in unstable:
            continue
        viols.append(_viol("serde-loss", "serde", where, {"path": path, "kind": kind, "what": detail},
                           "component=onnx_ir"))
    counts["serde_annotations_added"] = added
    counts["serde_defaults_vanished"] = vanished
    counts["serde_exact"] = int(D.canon(M) == D.canon(N1))
    out = "serde-exact" if D.canon(M) == D.canon(N1) else ("serde-normalised" if not viols else "serde-diff")
    return {"status": "viol" if viols else "ok", "outcome": out, "viols": viols, "nkey": nkey, "counts": counts,
            "show": f"serde round trip of base={item['base']} carriers={item['carriers']} initializer={item['init']}"}


def execute(item):
    import onnx
    from onnxscript import ir
    if _TMP is None:
        worker_init(None)
    base, api, carriers, init = item["base"], item["api"], item["carriers"], item["init"]
    order = [c for c in carriers if c != "node_names"] + [c for c in carriers if c == "node_names"]
    M, info = MZ.build(base, order, tuple(init) if init else None)
    nkey = f"{base}|{api}|{'+'.join(carriers)}|{'/'.join(init) if init else '-'}"
    show = f"{api} on base={base} carriers={carriers} initializer={init} opset={info['opset']}"
    try:
        onnx.checker.check_model(M, full_check=True)
    except Exception as e:  # noqa: BLE001
        return {"status": "skip", "skip": "generated model rejected by onnx.checker", "outcome": "invalid-model",
                "show": str(e)[:200]}
    if api == "serde":
        return _serde_leaf(M, item, nkey)

    m_bytes = D.canon(M)
    NM = ir.serde.serialize_model(ir.serde.deserialize_model(_copy(M)))
    viols = []
    counts = {}

    # proto entry
    Mp = _copy(M)
    exc_p = exc_i = None
    try:
        Rp = _call(api, Mp, info, True)
    except Exception as e:  # noqa: BLE001
        exc_p, Rp = e, None
    # IR entry
    Mi = ir.serde.deserialize_model(_copy(M))
    before_i = D.canon(ir.serde.serialize_model(Mi))
    try:
        Ri = _call(api, Mi, info, False)
    except Exception as e:  # noqa: BLE001
        exc_i, Ri = e, None
    if exc_p is not None or exc_i is not None:
        tp, ti = type(exc_p).__name__, type(exc_i).__name__
        if (exc_p is None) != (exc_i is None) or tp != ti:
            viols.append(_viol("parity", api, "raises", {"proto": repr(exc_p)[:300], "ir": repr(exc_i)[:300]}))
            return {"status": "viol", "outcome": "one-form-raises", "viols": viols, "nkey": nkey}
        return {"status": "skip", "skip": f"refused:{api}:{tp}", "outcome": f"refused:{tp}", "show": repr(exc_p)[:200]}

    if not isinstance(Rp, onnx.ModelProto) or not isinstance(Ri, ir.Model):
        viols.append(_viol("parity", api, "result-type", {"proto": type(Rp).__name__, "ir": type(Ri).__name__}))
        return {"status": "viol", "outcome": "result-type", "viols": viols, "nkey": nkey}
    after_p = D.canon(Mp)
    Si = ir.serde.serialize_model(Ri)
    after_i = D.canon(ir.serde.serialize_model(Mi))
    rp_bytes, si_bytes = D.canon(Rp), D.canon(Si)
    nm_bytes = D.canon(NM)
    transformed = si_bytes != nm_bytes
    counts["transformed"] = int(transformed)

    # (a) parity of the two entry forms
    if api == "rewrite_empty":
        # documented: "the original model will be returned"
        if Rp is not Mp:
            viols.append(_viol("parity", api, "original-not-returned", {"entry": "proto"}))
        if Ri is not Mi:
            viols.append(_viol("parity", api, "original-not-returned", {"entry": "ir"}))
    elif rp_bytes != si_bytes:
        # literal reading of the statement; only an explicitly set default present on one side is excused
        # (the serde clause lets it vanish).  Map-like fields are compared by key, not by position.
        ds = D.diff(D.sort_keyed(Rp), D.sort_keyed(Si), keyed_nodes=False)
        seen = set()
        for path, kind, detail in ds:
            if kind in ("default", "default+"):
                counts["parity_explicit_default_only"] = counts.get("parity_explicit_default_only", 0) + 1
                continue
            where = _where(path)
            if where in seen:
                continue
            seen.add(where)
            viols.append(_viol("parity", api, where, {"path": path, "kind": kind, "proto->ir": detail}))
            if len(seen) >= 4:
                break

    # (e) in place or not
    # (the proto form of an in-place API holds the result iff parity (a) holds, since Rp is Mp there)
    if api in IN_PLACE or api.startswith("replace_functions"):      # IR form of replace_functions: replace_functions_inplace
        if Ri is not Mi or (transformed and after_i == before_i):
            viols.append(_viol("not-in-place", api, "entry=ir", {"transformed": transformed}))
    elif after_i != before_i:
        viols.append(_viol("argument-mutated", api, "entry=ir", {"returned_is_argument": Ri is Mi}))
    if api not in IN_PLACE and after_p != m_bytes:
        ds = D.diff(M, Mp)
        viols.append(_viol("argument-mutated", api, "entry=proto", {"diff": [list(d) for d in ds[:3]]}))

    # (b) untouched fields survive bit-equal, against N(M); checked on both results
    if api == "rewrite_empty":
        pairs = [("proto", M, Rp), ("ir", NM, Si)]
    else:
        pairs = [("proto", NM, Rp), ("ir", NM, Si)]
    seen = set()
    nprot = 0
    e_m = _elements(M)
    for entry, ref, res in pairs:
        e_ref, e_res = _elements(ref), _elements(res)
        for key, val in e_ref.items():
            if api != "rewrite_empty" and not _protected(api, base, carriers, key):
                continue
            nprot += 1
            got = e_res.get(key)
            ds = _same_element(val, got, api)
            if ds and ref is NM:
                # a field outside what the wrapper rebuilt may come straight from M: that is "survives exactly" too
                alt = e_m.get(key)
                if alt is not None and not _same_element(alt, got, api):
                    ds = []
            for sub, kind, detail in ds:
                where = _where(key + ("." + sub if sub else ""))
                if api == "convert_version_capi" and key.startswith("graph."):
                    # one root cause: the graph is replaced by what the onnx C API returns
                    where = "graph(c-api-fallback)"
                if (where, kind) in seen:
                    continue
                seen.add((where, kind))
                viols.append(_viol("lost-field", api, where, {"entry": entry, "element": key, "sub": sub, "kind": kind,
                                                               "what": detail}))
    counts["protected_elements_compared"] = nprot
    out = f"{api}:{'changed' if transformed else 'no-op'}"
    return {"status": "viol" if viols else "ok", "outcome": out, "viols": viols, "nkey": nkey, "counts": counts,
            "show": show}


def summarize(items, results, tier):
    by_api = {}
    for it, r in zip(items, results):
        a = by_api.setdefault(it["api"], {"leaves": 0, "transformed": 0, "refused": 0})
        a["leaves"] += 1
        a["transformed"] += int((r.get("counts") or {}).get("transformed", 0))
        a["refused"] += int(r.get("status") == "skip")
    return {"per_api": by_api}
