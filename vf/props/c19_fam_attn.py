"""C19 pattern families (thorough tier): rotary embedding / cos-sin cache / partial rotary, SDPA, MHA (+bias,
+scale, Attention), GQA and packed-QKV GQA.  Builders follow rewriter/models/_rotary_embedding_models.py,
ort_fusions/sdpa_test.py, mha_unit_test.py, mha_bias_test.py, mha_scale_test.py, attention_test.py,
gqa_test.py and gqa_packed_qkv_test.py, turned into functions of the configuration."""
from __future__ import annotations

import math

import numpy as np

from .c19_build import BOOL, F16, F32, G, I32, I64, INT64_MAX, NP  # noqa: F401
from .c19_fam import _binop, _flags, family

_DT = {"f32": F32, "f16": F16}

# ---------------------------------------------------------------------------------------------
# rotary embedding, cos/sin cache, partial rotary
# ---------------------------------------------------------------------------------------------


def build_rotary(c):
    B, S, H, Dh = c["B"], c["S"], 2, c["Dh"]
    dt = _DT[c["dtype"]]
    rd = Dh if c["rd"] == "full" else int(c["rd"])
    half = rd // 2
    g = G()
    x = g.inp("x", dt, [B, H, S, Dh], decl=["Batch", H, "Seq", Dh] if c["sym"] else None)
    if c["cos_src"] == "input":
        cshape = {"B1Srd": [B, 1, S, rd], "11Srd": [1, 1, S, rd], "BHSrd": [B, H, S, rd]}[c["cos_shape"]]
        cos4 = g.inp("cos", dt, cshape)
        sin4 = g.inp("sin", dt, cshape)
    else:
        E = half
        inv = (1.0 / (50.0 ** (np.arange(E) / max(E, 1)))).astype(np.float32)
        pshape = {"BS": [B, S], "S": [S], "1S": [1, S]}[c["pos_shape"]]
        if c["pos_kind"] == "input":
            pos = g.inp("position_ids", I64, pshape, role="pos",
                        decl=(["Batch", "Seq"] if len(pshape) == 2 and pshape[0] == B else
                              ["Seq"] if len(pshape) == 1 else [1, "Seq"]) if c["sym"] else None)
        else:
            pos = g.const(np.broadcast_to(np.arange(S, dtype=np.int64), pshape).copy())
        if c["inv_form"] == "const3d":
            inv3 = g.const(inv.reshape(1, E, 1))
        elif c["inv_form"] == "init3d":
            inv3 = g.const(inv.reshape(1, E, 1), init=True)
        elif c["inv_form"] == "unsq":
            inv3 = g.op("Unsqueeze", g.const(inv), g.i64([0, 2]))
        elif c["inv_form"] == "expand":
            inv3 = g.op("Expand", g.const(inv.reshape(1, E, 1)), g.i64([B, E, 1]))
        else:  # dynamic inv_freq (graph input): the cache cannot be precomputed
            inv3 = g.inp("inv_freq", F32, [1, E, 1], role=("fixed", inv.reshape(1, E, 1).tolist()))
        pe = g.op("Unsqueeze", pos, g.i64([1] if len(pshape) == 2 else [0, 1]))
        pf = g.op("Cast", pe, to=F32)
        freqs = g.op("MatMul", inv3, pf)
        ft = g.op("Transpose", freqs, perm=[0, 2, 1])
        emb = g.op("Concat", ft, ft, axis=-1)
        cos, sin = g.op("Cos", emb), g.op("Sin", emb)
        if dt != F32:
            cos, sin = g.op("Cast", cos, to=dt), g.op("Cast", sin, to=dt)
        cos4 = g.op("Unsqueeze", cos, g.i64([1]))
        sin4 = g.op("Unsqueeze", sin, g.i64([1]))
    if rd != Dh:
        xe = g.op("Slice", x, g.i64([0]), g.i64([rd]), g.i64([3]), g.i64([1]))
        rest_start = rd + (1 if c["split"] == "partial_gap" else 0)
        rest = g.op("Slice", x, g.i64([rest_start]), g.i64([INT64_MAX]), g.i64([3]), g.i64([1]))
    else:
        xe = x
    s2 = half + (1 if c["split"] == "gap" else 0)
    e2 = INT64_MAX if c["split"] == "end_max" else rd
    step = 2 if c["split"] == "step2" else 1
    if step == 2:
        x1 = g.op("Slice", xe, g.i64([0]), g.i64([rd]), g.i64([3]), g.i64([2]))
        x2 = g.op("Slice", xe, g.i64([1]), g.i64([rd]), g.i64([3]), g.i64([2]))
    else:
        x1 = g.op("Slice", xe, g.i64([0]), g.i64([half]), g.i64([3]), g.i64([1]))
        x2 = g.op("Slice", xe, g.i64([s2]), g.i64([e2]), g.i64([3]), g.i64([1]))
    rot = g.op("Concat", g.op("Neg", x2), x1, axis=-1)
    a = _binop(g, "Mul", xe, cos4, c["oc"])
    b = _binop(g, "Mul", rot, sin4, c["os"])
    emb_x = _binop(g, "Add", a, b, c["oadd"])
    out = emb_x
    if rd != Dh:
        out = g.op("Concat", emb_x, rest, axis=-1)
    g.out(out, dt)
    return g.model(), g.feeds_spec


def _rot_valid(c):
    Dh = c["Dh"]
    rd = Dh if c["rd"] == "full" else int(c["rd"])
    if rd > Dh or (rd == Dh and c["rd"] != "full"):
        return False
    if rd % 2 and c["cos_src"] != "input":
        return False
    if c["split"] in ("partial_gap",) and (rd == Dh or rd + 1 >= Dh):
        return False
    if c["split"] == "step2" and rd % 2:
        return False
    if c["pos_shape"] == "1S" and c["B"] == 1:
        return False
    if c["cos_src"] == "input" and (c["pos_shape"] != "BS" or c["pos_kind"] != "input" or c["inv_form"] != "const3d"):
        return False
    if c["cos_src"] != "input" and c["cos_shape"] != "B1Srd":
        return False
    return True


def _rot_fusions(c):
    if c["cos_src"] == "input":
        return [("rotary_embedding", ["rotary"])]
    out = [("rotary_embedding", ["rotary"]), ("rotary_embedding+cos_sin_cache", ["rotary", "cos_sin"])]
    rd = c["Dh"] if c["rd"] == "full" else int(c["rd"])
    if rd != c["Dh"]:
        out.append(("rotary+cos_sin_cache+partial_rotary", ["rotary", "cos_sin", "cse", "partial_rotary"]))
    return out


def _rot_near(c):
    out = []
    for p, d in (("split", "ok"), ("oc", False), ("os", False), ("oadd", False)):
        if c[p] != d:
            out.append(f"{p}={c[p]}")
    if c["Dh"] % 2:
        out.append("odd-head-size")
    if c["pos_shape"] != "BS":
        out.append(f"pos_shape={c['pos_shape']}")
    if c["inv_form"] == "input":
        out.append("inv_freq-dynamic")
    return out


family("rotary", "quick",
       [("B", [1, 2], "all"), ("S", [3, 1], "all"),
        ("Dh", [4, 8, 6, 5], "dev"), ("rd", ["full", "2", "4"], "dev"),
        ("cos_src", ["inv_freq", "input"], "dev"),
        ("cos_shape", lambda c: ["B1Srd", "11Srd", "BHSrd"] if c["cos_src"] == "input" else ["B1Srd"], "dev"),
        ("pos_shape", ["BS", "S", "1S"], "dev"), ("pos_kind", ["input", "const"], "dev"),
        ("inv_form", ["const3d", "init3d", "unsq", "expand", "input"], "dev"),
        ("dtype", ["f32", "f16"], "dev"),
        ("split", ["ok", "end_max", "step2", "partial_gap"], "dev")] + _flags(["oc", "os", "oadd"]) +
       [("sym", [False, True], "dev")],
       build_rotary, _rot_fusions, valid=_rot_valid, near=_rot_near,
       canon=lambda kind, fusion, c, detail: {"fusion": "cos_sin_cache",
                                              "cls": "B>1,position_ids-shared-across-batch([S]|[1,S])"}
       if (c["B"] > 1 and c["pos_shape"] != "BS" and "position_ids" in detail) else None)

# ---------------------------------------------------------------------------------------------
# SDPA (-> MHA via sdpa_via_mha)      sdpa_test.py
# ---------------------------------------------------------------------------------------------

SCALE_WHERE = ["post_div", "post_mul", "pre_div", "pre_mul", "q_mul", "k_div", "none"]


def _scale_value(c, Dh):
    d = 1.0 / math.sqrt(Dh)
    return {"default": d, "custom": 1.0 / math.sqrt(80.0), "near": d * (1 + 1e-3), "unit": 1.0,
            "near_ulp": float(np.nextafter(np.float32(d), np.float32(1)))}[c["scale_val"]]


def _emit_sdpa(g, c, q, k_bhsd, v, dt, B, H, S, Skv, Dh, mask=None, key_bshd=None):
    """q [B,H,S,Dh]; k_bhsd [B,H,Skv,Dh] (or key_bshd [B,Skv,H,Dh]); v [B,H,Skv,Dv] -> attention [B,H,S,Dv]."""
    sv = _scale_value(c, Dh)
    cs = c.get("scale_shape", [])

    def sc(val):
        return g.const(np.full(cs, val), dt)
    if key_bshd is not None:
        kt = g.op("Transpose", key_bshd, perm=[0, 2, 3, 1])
    elif c["key_form"] == "3d":
        k3 = g.op("Reshape", k_bhsd, g.i64([B * H, Skv, Dh]))
        k3t = g.op("Transpose", k3, perm=[0, 2, 1])
        kt = g.op("Reshape", k3t, g.i64([B, H, Dh, Skv]))
    else:
        kt = g.op("Transpose", k_bhsd, perm=[0, 1, 3, 2])
    w = c["scale_where"]
    if w == "pre_div":
        q = g.op("Div", q, sc(1.0 / math.sqrt(sv)))
        kt = g.op("Div", kt, sc(1.0 / math.sqrt(sv)))
    elif w == "pre_mul":
        q = g.op("Mul", q, sc(math.sqrt(sv)))
        kt = g.op("Mul", kt, sc(math.sqrt(sv)))
    elif w == "q_mul":
        q = g.op("Mul", q, sc(sv))
    elif w == "k_div":
        kt = g.op("Div", kt, sc(1.0 / sv))
    score = g.op("MatMul", q, kt)
    if w == "post_div":
        score = g.op("Div", score, sc(1.0 / sv))
    elif w == "post_mul":
        score = g.op("Mul", score, sc(sv))
    if mask is not None:
        if c["mask"].startswith("bool"):
            neg = g.const(-1e4 if dt == F16 else -1e9, dt)
            score = g.op("Where", mask, score, neg)
        else:
            score = _binop(g, "Add", score, mask, c.get("omask", False))
    wgt = g.op("Softmax", score, axis=c.get("sm_axis", -1))
    if c["nan_guard"]:
        wgt = g.op("Where", g.op("IsNaN", wgt), g.const(0.0, dt), wgt)
    return g.op("MatMul", wgt, v)


def _mask_input(g, c, dt, B, H, S, St):
    m = c["mask"]
    if m == "none":
        return None
    shape = {"BHSS": [B, H, S, St], "B1SS": [B, 1, S, St], "11SS": [1, 1, S, St], "SS": [S, St],
             "B11S": [B, 1, 1, St], "1S": [1, St], "boolB1SS": [B, 1, S, St], "S": [St]}[m]
    if m.startswith("bool"):
        return g.inp("mask", BOOL, shape, role="bool")
    return g.inp("mask", dt, shape, role="maskrow" if c.get("mask_vals") == "rowinf" else "mask")


def build_sdpa(c):
    B, S, H, Dh = c["B"], c["S"], c["H"], c["Dh"]
    Skv = S if c["Skv"] == "S" else int(c["Skv"])
    Dv = Dh if c["Dv"] == "Dh" else int(c["Dv"])
    dt = _DT[c["dtype"]]
    g = G()
    q = g.inp("query", dt, [B, H, S, Dh], role="small")
    if c["key_form"] == "BSHd":
        kb = g.inp("key", dt, [B, Skv, H, Dh], role="small")
        k = None
    else:
        k = g.inp("key", dt, [B, H, Skv, Dh], role="small")
        kb = None
    vshape = [1 if c["v_batch"] == "1" else B, H, Skv, Dv]
    v = g.inp("value", dt, vshape)
    mask = _mask_input(g, c, dt, B, H, S, Skv)
    out = _emit_sdpa(g, c, q, k, v, dt, B, H, S, Skv, Dh, mask=mask, key_bshd=kb)
    g.out(out, dt)
    return g.model(), g.feeds_spec


def _sdpa_valid(c):
    if c["mask"] == "none" and (c.get("omask") or c.get("mask_vals") == "rowinf"):
        return False
    if c["mask"].startswith("bool") and (c.get("omask") or c.get("mask_vals") == "rowinf"):
        return False
    if c["scale_where"] == "none" and c["scale_val"] != "default":
        return False
    if c.get("mask_vals") == "rowinf" and c["S"] < 2:
        return False
    return True


def _sdpa_near(c):
    out = []
    for p, d in (("scale_val", ("default", "custom")), ("mask", ("none", "BHSS", "B1SS", "11SS")), ("v_batch", ("B",)),
                 ("sm_axis", (-1,)), ("scale_shape", ([], [1])), ("omask", (False,)), ("mask_vals", ("finite",))):
        if p in c and c[p] not in d:
            out.append(f"{p}={c[p]}")
    return out


def _sdpa_canon(kind, fusion, c, detail):
    if c.get("mask_vals") == "rowinf" and "NaN mask differs" in detail:
        return "fully-masked-row(-inf)"
    return None


SDPA_PARAMS = [
    ("B", [1, 2], "all"), ("S", [3, 1], "all"), ("Dh", [4, 8], "all"),
    ("H", [2, 1], "dev"), ("Skv", ["S", "4"], "dev"), ("Dv", ["Dh", "2"], "dev"),
    ("dtype", ["f32", "f16"], "dev"),
    ("scale_where", SCALE_WHERE, "dev"), ("scale_val", ["default", "custom", "near", "near_ulp", "unit"], "dev"),
    ("scale_shape", [[], [1], [1, 1, 1, 1], [1, 1, 1, 1, 1]], "dev"),
    ("key_form", ["BHSd", "BSHd", "3d"], "dev"),
    ("mask", ["none", "BHSS", "B1SS", "11SS", "SS", "B11S", "1S", "S", "boolB1SS"], "dev"),
    ("omask", [False, True], "dev"), ("mask_vals", ["finite", "rowinf"], "dev"),
    ("nan_guard", [True, False], "dev"), ("sm_axis", [-1, 3, 2], "dev"), ("v_batch", ["B", "1"], "dev"),
]

family("sdpa", "quick", SDPA_PARAMS, build_sdpa, lambda c: [("sdpa+sdpa_via_mha", ["sdpa", "sdpa_via_mha"])],
       valid=_sdpa_valid, near=_sdpa_near, canon=_sdpa_canon)

# ---------------------------------------------------------------------------------------------
# MHA from the raw exported pattern (projection/bias -> reshape/transpose -> [rotary] -> [past] -> attention)
# chain = fuse_xformers order: sdpa, mha1, mha2, mha_scale, mha_bias, attention, sdpa_via_mha
# ---------------------------------------------------------------------------------------------


def build_mha(c):
    B, S, H, Dh = c["B"], c["S"], c["H"], c["Dh"]
    D = H * Dh
    dt = _DT[c["dtype"]]
    P = 2 if c["past"] else 0
    cross = c["kv"] == "cross4d"
    Skv = S if c["Skv"] == "S" or c["past"] or c["proj"] != "none" else int(c["Skv"])
    g = G()
    # --- projections
    if c["proj"] == "none":
        q = g.inp("query", dt, [B, S, D], role="small", decl=["B", "S", D] if c["sym"] else None)
        if not cross:
            k = g.inp("key", dt, [B, Skv, D], role="small", decl=["B", "Skv", D] if c["sym"] else None)
            v = g.inp("value", dt, [B, Skv, D], decl=["B", "Skv", D] if c["sym"] else None)
    else:
        x = g.inp("input", dt, [B, S, D], role="small", decl=["B", "S", D] if c["sym"] else None)
        rng = np.arange(D * 3 * D)
        wall = (((rng * 7) % 13 - 6) * 0.05).reshape(D, 3 * D)
        if c["proj"] == "packed":
            w = g.const(wall, dt, init=True)
            qkv = g.op("MatMul", x, w)
            q = g.op("Slice", qkv, g.i64([0]), g.i64([D]), g.i64([2]))
            k = g.op("Slice", qkv, g.i64([D]), g.i64([2 * D]), g.i64([2]))
            v = g.op("Slice", qkv, g.i64([2 * D]), g.i64([3 * D]), g.i64([2]))
        else:
            q = g.op("MatMul", x, g.const(wall[:, :D], dt, init=True))
            k = g.op("MatMul", x, g.const(wall[:, D:2 * D], dt, init=True))
            v = g.op("MatMul", x, g.const(wall[:, 2 * D:], dt, init=True))
    # --- biases
    if c["bias"] != "none":
        bshape = {"D": [D], "11D": [1, 1, D], "1": [1]}[c["bias_shape"]]

        def bias(i):
            n = int(np.prod(bshape))
            return g.const((((np.arange(n) + i) % 5) - 2).reshape(bshape) * 0.1, dt, init=True)
        if "q" in c["bias"]:
            q = g.op("Add", q, bias(0))
        if "k" in c["bias"] and not cross:
            k = g.op("Add", k, bias(1))
        if "v" in c["bias"] and not cross:
            v = g.op("Add", v, bias(2))
    # --- to BHSd
    rs = g.i64([0, 0, H, Dh] if c["reshape"] == "00HD" else [B, -1, H, Dh])
    q4 = g.op("Transpose", g.op("Reshape", q, rs), perm=[0, 2, 1, 3])
    kb = None
    if cross:
        k4 = g.inp("key", dt, [B, H, Skv, Dh], role="small")
        v4 = g.inp("value", dt, [B, H, Skv, Dh])
    else:
        kr = g.op("Reshape", k, rs)
        if c["kv"] == "BSHd":
            kb, k4 = kr, None
        else:
            k4 = g.op("Transpose", kr, perm=[0, 2, 1, 3])
        v4 = g.op("Transpose", g.op("Reshape", v, rs), perm=[0, 2, 1, 3])
    # --- rotary
    if c["rotary"]:
        pos = g.inp("position_ids", I64, [B, S], role="pos")
        maxp = S + P + 4
        ang = np.arange(maxp)[:, None] / (20.0 ** (np.arange(Dh // 2)[None, :] / max(Dh // 2, 1)))
        cosc = g.const(np.cos(ang), dt, init=True)
        sinc = g.const(np.sin(ang), dt, init=True)
        ra = {"interleaved": 1} if c["rotary"] == "interleaved" else {}
        q4 = g.ms_op("RotaryEmbedding", q4, pos, cosc, sinc, **ra)
        g.vi(q4, dt, [B, H, S, Dh])
        if not cross:
            k4 = g.ms_op("RotaryEmbedding", k4, pos, cosc, sinc, **ra)
            g.vi(k4, dt, [B, H, Skv, Dh])
    # --- past
    St = Skv + P
    outs = []
    if c["past"]:
        pk = g.inp("past_key", dt, [B, H, P, Dh], role="small")
        pv = g.inp("past_value", dt, [B, H, P, Dh])
        k4 = g.op("Concat", pk, k4, axis=-2)
        v4 = g.op("Concat", pv, v4, axis=-2)
        outs = [k4, v4]
    mask = _mask_input(g, c, dt, B, H, S, St)
    att = _emit_sdpa(g, c, q4, k4, v4, dt, B, H, S, St, Dh, mask=mask, key_bshd=kb)
    at = g.op("Transpose", att, perm=[0, 2, 1, 3])
    oshape = {"00-1": [0, 0, -1], "BSD": [B, S, D], "BS_D": [B * S, D], "00HD": [0, 0, H, Dh]}[c["out_reshape"]]
    out = g.op("Reshape", at, g.i64(oshape))
    g.out(out, dt)
    for o in outs:
        g.out(o, dt)
    return g.model(), g.feeds_spec


def _mha_valid(c):
    if not _sdpa_valid(c):
        return False
    if c["kv"] == "cross4d" and (c["past"] or c["proj"] != "none"):
        return False
    if c["kv"] == "BSHd" and (c["rotary"] or c["past"] or c["key_form"] != "BHSd"):
        return False
    if c["rotary"] and c["Dh"] % 2:
        return False
    if c["bias"] == "none" and c["bias_shape"] != "D":
        return False
    return True


def _mha_canon(kind, fusion, c, detail):
    if c["out_reshape"] in ("BS_D", "00HD") and ": shape " in detail:
        return {"fusion": "mha", "cls": "final-Reshape-is-not-(B,S,D)"}
    if c["bias"] != "none" and c["bias_shape"] != "D" and kind == "ort-load-fails":
        return {"fusion": "mha_bias", "cls": "bias-not-1D-of-hidden-size"}
    if c["rotary"] == "interleaved" and kind == "not-equivalent":
        return {"fusion": "mha", "cls": "rotary-attributes-not-forwarded(interleaved)"}
    return _sdpa_canon(kind, fusion, c, detail)


def _mha_near(c):
    out = _sdpa_near(c)
    for p, d in (("out_reshape", ("00-1", "BSD")), ("bias_shape", ("D",))):
        if c[p] not in d:
            out.append(f"{p}={c[p]}")
    return out


family("mha", "quick",
       [("B", [1, 2], "all"), ("S", [3, 1], "all"),
        ("H", [2, 1], "dev"), ("Dh", [4, 8], "dev"), ("Skv", ["S", "4"], "dev"),
        ("dtype", ["f32", "f16"], "dev"),
        ("proj", ["none", "separate", "packed"], "dev"),
        ("bias", ["none", "qkv", "q", "kv"], "dev"), ("bias_shape", ["D", "11D", "1"], "dev"),
        ("kv", ["BHSd", "BSHd", "cross4d"], "dev"), ("reshape", ["00HD", "B-1HD"], "dev"),
        ("rotary", [False, True, "interleaved"], "dev"), ("past", [False, True], "dev"),
        ("scale_where", ["post_mul", "post_div", "pre_mul", "q_mul", "none"], "dev"),
        ("scale_val", ["default", "custom", "near", "unit"], "dev"),
        ("key_form", ["BHSd", "3d"], "dev"),
        ("mask", ["none", "B1SS", "11SS", "BHSS", "SS", "B11S", "1S", "boolB1SS"], "dev"),
        ("mask_vals", ["finite", "rowinf"], "dev"),
        ("nan_guard", [False, True], "dev"),
        ("out_reshape", ["00-1", "BSD", "BS_D", "00HD"], "dev"), ("sym", [False, True], "dev")],
       build_mha,
       lambda c: [("mha(sdpa,mha1,mha2,mha_scale,mha_bias,attention,sdpa_via_mha)",
                   ["sdpa", "mha1", "mha2", "mha_scale", "mha_bias_if", "attention_if", "sdpa_via_mha"])],
       valid=_mha_valid, near=_mha_near,
       canon=lambda kind, fusion, c, detail: _mha_canon(kind, fusion, c, detail))

# ---------------------------------------------------------------------------------------------
# direct families: the original already contains com.microsoft MultiHeadAttention / GroupQueryAttention
# ---------------------------------------------------------------------------------------------


def build_mha_bias(c):
    """mha_bias_test.py: MatMul outputs (+ bias Add) feeding com.microsoft.MultiHeadAttention."""
    B, S, H, Dh = c["B"], c["S"], 2, c["Dh"]
    D = H * Dh
    Dv = D if c["Dv"] == "D" else 2 * H
    Skv = S if c["Skv"] == "S" else int(c["Skv"])
    dt = _DT[c["dtype"]]
    g = G()
    q = g.inp("query_matmul", dt, [B, S, D], role="small", decl=["B", "S", D] if c["sym"] else None)
    k = g.inp("key_matmul", dt, [B, Skv, D], role="small", decl=["B", "Skv", D] if c["sym"] else None)
    v = g.inp("value_matmul", dt, [B, Skv, Dv], decl=["B", "Skv", Dv] if c["sym"] else None)

    def bias(i, n):
        shape = {"D": [n], "11D": [1, 1, n], "1": [1], "SD": None}[c["bias_shape"]]
        if shape is None:
            shape = [S if i == 0 else Skv, n]
        m = int(np.prod(shape))
        arr = (((np.arange(m) + i) % 5) - 2).reshape(shape) * 0.1
        if c["bias_kind"] == "input":
            return g.inp(f"bias{i}", dt, shape)
        return g.const(arr, dt, init=c["bias_kind"] == "init")
    if "q" in c["bias"]:
        q = _binop(g, "Add", q, bias(0, D), c["ob"])
    if "k" in c["bias"]:
        k = _binop(g, "Add", k, bias(1, D), c["ob"])
    if "v" in c["bias"]:
        v = _binop(g, "Add", v, bias(2, Dv), c["ob"])
    P = 2 if c["past"] else 0
    mask = _mask_input(g, c, dt, B, H, S, Skv + P)
    ins = [q, k, v, None, None, mask]
    n_out = 1
    if c["past"]:
        ins += [g.inp("past_key", dt, [B, H, P, Dh], role="small"), g.inp("past_value", dt, [B, H, P, Dv // H])]
        n_out = 3
    while ins and ins[-1] is None:
        ins.pop()
    attrs = {"num_heads": H}
    if c["scale_attr"] != "absent":
        attrs["scale"] = float(c["scale_attr"])
    outs = g.ms_op("MultiHeadAttention", *ins, n_out=n_out, **attrs)
    for o in (outs if n_out > 1 else [outs]):
        g.out(o, dt)
    return g.model(), g.feeds_spec


family("mha_bias", "quick",
       [("B", [1, 2], "all"), ("S", [3, 1], "all"), ("Dh", [4, 8], "all"),
        ("bias", ["qkv", "q", "k", "v", "qk", "none"], "dev"),
        ("bias_shape", ["D", "11D", "1", "SD"], "dev"), ("bias_kind", ["init", "node", "input"], "dev"),
        ("ob", [False, True], "dev"), ("dtype", ["f32", "f16"], "dev"),
        ("Skv", ["S", "4"], "dev"), ("Dv", ["D", "2H"], "dev"),
        ("mask", ["none", "B1SS", "11SS"], "dev"), ("past", [False, True], "dev"),
        ("scale_attr", ["absent", "0.25", "1.0"], "dev"), ("sym", [False, True], "dev")],
       build_mha_bias, lambda c: [("mha_bias", ["mha_bias"])],
       valid=lambda c: not (c["bias"] == "none" and (c["bias_shape"] != "D" or c["ob"])),
       near=lambda c: [f"bias_shape={c['bias_shape']}"] if c["bias_shape"] != "D" else [],
       canon=lambda kind, fusion, c, detail: "bias-not-1D-of-hidden-size"
       if (c["bias_shape"] != "D" and kind == "ort-load-fails") else None)


def build_mha_scale(c):
    """mha_scale_test.py: Mul(query, scale) -> com.microsoft.MultiHeadAttention."""
    B, S, H, Dh = c["B"], c["S"], 2, c["Dh"]
    D = H * Dh
    dt = _DT[c["dtype"]]
    g = G()
    q = g.inp("query", dt, [B, S, D], role="small", decl=["B", "S", D] if c["sym"] else None)
    k = g.inp("key", dt, [B, S, D], role="small", decl=["B", "S", D] if c["sym"] else None)
    v = g.inp("value", dt, [B, S, D], decl=["B", "S", D] if c["sym"] else None)
    sshape = {"0d": [], "1": [1], "111": [1, 1, 1], "1111": [1, 1, 1, 1], "D": [D]}[c["scale_shape"]]
    if c["scale_kind"] == "input":
        sc = g.inp("scale", dt, sshape, role=("fixed", np.full(sshape, float(c["scale"])).tolist()))
    else:
        sc = g.const(np.full(sshape, float(c["scale"])), dt if c["scale_kind"] != "int" else I64,
                     init=c["scale_kind"] == "init")
        if c["scale_kind"] == "int":
            sc = g.const(np.full(sshape, 2), I64)
            q = g.op("Cast", q, to=I64)  # ill-typed for MHA: pruned by ORT load of the original
    qs = _binop(g, "Mul", q, sc, c["om"])
    attrs = {"num_heads": H}
    if c["scale_attr"] != "absent":
        attrs["scale"] = float(c["scale_attr"])
    out = g.ms_op("MultiHeadAttention", qs, k, v, **attrs)
    g.out(out, dt)
    if c["extra_out"]:
        g.out(qs, dt)
    return g.model(), g.feeds_spec


family("mha_scale", "quick",
       [("B", [1, 2], "all"), ("S", [3, 1], "all"), ("Dh", [4, 8], "all"),
        ("scale", ["0.5", "2.0", "0.0", "-1.0"], "dev"),
        ("scale_shape", ["0d", "1", "111", "1111", "D"], "dev"),
        ("scale_kind", ["node", "init", "input"], "dev"), ("om", [False, True], "dev"),
        ("scale_attr", ["absent", "0.25", "1.0"], "dev"), ("dtype", ["f32", "f16"], "dev"),
        ("extra_out", [False, True], "dev"), ("sym", [False, True], "dev")],
       build_mha_scale, lambda c: [("mha_scale", ["mha_scale"])],
       near=lambda c: [f"{p}={c[p]}" for p, d in (("scale_shape", ("0d", "1")), ("scale_kind", ("node", "init")),
                                                   ("om", (False,)), ("extra_out", (False,))) if c[p] not in d])


def build_attention(c):
    """attention_test.py: MatMul (+Slice) -> com.microsoft.MultiHeadAttention with bias [-> Attention]."""
    B, S, H, Dh = c["B"], c["S"], 2, c["Dh"]
    D = H * Dh
    Dq = Dk = D
    Dv = D if c["Dv"] == "D" else 2 * H
    Dqkv = Dq + Dk + Dv
    dt = _DT[c["dtype"]]
    g = G()
    x = g.inp("input", dt, [B, S, D], role="small", decl=["B", "S", D] if c["sym"] else None)
    rng = np.arange(D * Dqkv)
    wall = (((rng * 7) % 13 - 6) * 0.05).reshape(D, Dqkv)
    if c["w_kind"] == "input":
        w = g.inp("weight", dt, [D, Dqkv], role=("fixed", wall.tolist()))
    else:
        w = g.const(wall, dt, init=True)
    bias = None
    if c["bias"] != "none":
        bshape = [Dqkv] if c["bias"] == "Dqkv" else [1, Dqkv]
        bias = g.inp("bias", dt, bshape)
    if c["form"] == "slice":
        qkv = g.op("MatMul", x, w)
        gap = 1 if c["slices"] == "gap" else 0
        ends = [Dq, Dq + Dk, INT64_MAX if c["slices"] == "end_max" else Dqkv]
        starts = [0, Dq + gap, Dq + Dk]
        if c["slices"] == "swapped":     # key/value windows exchanged (a different computation)
            starts, ends = [0, Dq + Dk, Dq], [Dq, Dqkv, Dq + Dk]
        steps_in = [g.i64([1])] if c["slice_steps"] else []
        q, k, v = (g.op("Slice", qkv, g.i64([s]), g.i64([e]), g.i64([2]), *steps_in) for s, e in zip(starts, ends))
    else:
        if c["w_kind"] == "input":
            wq = g.inp("wq", dt, [D, Dq], role=("fixed", wall[:, :Dq].tolist()))
            wk = g.inp("wk", dt, [D, Dk], role=("fixed", wall[:, Dq:Dq + Dk].tolist()))
            wv = g.inp("wv", dt, [D, Dv], role=("fixed", wall[:, Dq + Dk:].tolist()))
        else:
            wq, wk, wv = (g.const(a, dt, init=True) for a in (wall[:, :Dq], wall[:, Dq:Dq + Dk], wall[:, Dq + Dk:]))
        q, k, v = g.op("MatMul", x, wq), g.op("MatMul", x, wk), g.op("MatMul", x, wv)
    P = 2 if c["past"] else 0
    mask = _mask_input(g, c, dt, B, H, S, S + P)
    attrs = {"num_heads": H}
    if c["scale_attr"] != "absent":
        attrs["scale"] = float(c["scale_attr"])
    if c["past"]:
        past = g.inp("past", dt, [2, B, H, P, Dh], role="small")
        pk = g.op("Squeeze", g.op("Slice", past, g.i64([0]), g.i64([1]), g.i64([0])), g.i64([0]))
        pv = g.op("Squeeze", g.op("Slice", past, g.i64([1]), g.i64([2]), g.i64([0])), g.i64([0]))
        att, prk, prv = g.ms_op("MultiHeadAttention", q, k, v, bias, None, mask, pk, pv, n_out=3, **attrs)
        present = g.op("Concat", g.op("Unsqueeze", prk, g.i64([0])), g.op("Unsqueeze", prv, g.i64([0])), axis=0)
        g.out(att, dt)
        g.out(present, dt)
    else:
        ins = [q, k, v, bias, None, mask]
        while ins[-1] is None:
            ins.pop()
        att = g.ms_op("MultiHeadAttention", *ins, **attrs)
        g.out(att, dt)
    return g.model(), g.feeds_spec


def _att_valid(c):
    if c["form"] != "slice" and (c["slices"] != "ok" or c["slice_steps"]):
        return False
    if c["past"] and c["Dv"] != "D":
        return False
    if c["slices"] == "swapped" and c["Dv"] != "D":
        return False
    return True


family("attention", "quick",
       [("B", [1, 2], "all"), ("S", [3, 1], "all"), ("Dh", [4, 8], "all"), ("form", ["slice", "no_slice"], "all"),
        ("past", [False, True], "dev"), ("bias", ["Dqkv", "none", "1Dqkv"], "dev"),
        ("slices", ["ok", "end_max", "gap", "swapped"], "dev"), ("slice_steps", [False, True], "dev"),
        ("Dv", ["D", "2H"], "dev"), ("w_kind", ["init", "input"], "dev"),
        ("mask", ["none", "B1SS", "11SS", "BHSS"], "dev"), ("scale_attr", ["absent", "0.25", "1.0"], "dev"),
        ("dtype", ["f32", "f16"], "dev"), ("sym", [False, True], "dev")],
       build_attention, lambda c: [("attention", ["attention"])], valid=_att_valid,
       canon=lambda kind, fusion, c, detail: "past+attention_bias"
       if (c["past"] and c["mask"] != "none" and "both past and attention_bias" in detail) else None,
       near=lambda c: [f"{p}={c[p]}" for p, d in (("slices", ("ok", "end_max")), ("bias", ("Dqkv",)),
                                                   ("slice_steps", (False,))) if c[p] not in d])


def build_packed_qkv(c):
    """gqa_packed_qkv_test.py: Slice x3 of a packed projection -> com.microsoft.GroupQueryAttention."""
    B, S, Dh = c["B"], c["S"], c["Dh"]
    Hq, Hkv = c["heads"]
    P = c["P"]
    Dq, Dkv = Hq * Dh, Hkv * Dh
    D = Dq + 2 * Dkv
    dt = _DT[c["dtype"]]
    T = S + P
    g = G()
    x = g.inp("packed_qkv", dt, [B, S, D], role="small", decl=["B", "S", D] if c["sym"] else None)
    pk = g.inp("past_key", dt, [B, Hkv, P, Dh], role="small", decl=["B", Hkv, "P", Dh] if c["sym"] else None)
    pv = g.inp("past_value", dt, [B, Hkv, P, Dh], decl=["B", Hkv, "P", Dh] if c["sym"] else None)
    sl = g.inp("seqlens_k", I32, [B], role=("fixed", [T - 1] * B))
    tl = g.inp("total_sequence_length", I32, [1], role=("fixed", [T]))
    cos = g.inp("cos", dt, [T + 2, Dh // 2], role=("fixed", np.cos(np.arange((T + 2) * (Dh // 2)) * 0.3).tolist()))
    sin = g.inp("sin", dt, [T + 2, Dh // 2], role=("fixed", np.sin(np.arange((T + 2) * (Dh // 2)) * 0.3).tolist()))
    gap = 1 if c["slices"] == "gap" else 0
    starts = [0, Dq + gap, Dq + Dkv]
    ends = [Dq, Dq + Dkv, INT64_MAX if c["slices"] == "end_max" else D]
    if c["slices"] == "swapped":
        starts, ends = [0, Dq + Dkv, Dq], [Dq, D, Dq + Dkv]
    q, k, v = (g.op("Slice", x, g.i64([s]), g.i64([e]), g.i64([2]), g.i64([1])) for s, e in zip(starts, ends))
    attrs = dict(num_heads=Hq, kv_num_heads=Hkv)
    if c["do_rotary"] != "absent":
        attrs["do_rotary"] = int(c["do_rotary"])
    if c["interleaved"] != "absent":
        attrs["rotary_interleaved"] = int(c["interleaved"])
    if c["extra_attr"] == "scale":
        attrs["scale"] = 0.3
    elif c["extra_attr"] == "local_window":
        attrs["local_window_size"] = 2
    elif c["extra_attr"] == "softcap":
        attrs["softcap"] = 1.5
    ins = [q, k, v, pk, pv, sl, tl] + ([cos, sin] if c["do_rotary"] != "0" or True else [])
    att, prk, prv = g.ms_op("GroupQueryAttention", *ins, n_out=3, **attrs)
    g.out(att, dt)
    g.out(prk, dt)
    g.out(prv, dt)
    return g.model(), g.feeds_spec


family("packed_qkv_gqa", "quick",
       [("B", [1, 2], "all"), ("S", [3, 1], "all"), ("heads", [[2, 1], [2, 2], [4, 2]], "all"),
        ("Dh", [16, 32], "dev"), ("P", [2, 0, 5], "dev"),
        ("slices", ["ok", "end_max", "gap", "swapped"], "dev"),
        ("do_rotary", ["1", "absent", "0"], "dev"), ("interleaved", ["0", "absent", "1"], "dev"),
        ("extra_attr", ["none", "scale", "local_window", "softcap"], "dev"),
        ("dtype", ["f32", "f16"], "dev"), ("sym", [False, True], "dev")],
       build_packed_qkv, lambda c: [("packed_qkv_for_gqa", ["qkv_gqa"])],
       near=lambda c: [f"{p}={c[p]}" for p, d in (("slices", ("ok", "end_max")), ("do_rotary", ("1",)),
                                                   ("extra_attr", ("none",))) if c[p] not in d])


def _pq_canon(kind, fusion, c, detail):
    if c["extra_attr"] != "none" and kind == "not-equivalent":
        return "GQA-optional-attribute-dropped(scale|local_window_size|softcap)"
    return None


from .c19_fam import FAMILIES as _F  # noqa: E402

_F["packed_qkv_gqa"]["canon"] = _pq_canon

# ---------------------------------------------------------------------------------------------
# GQA from the exported pattern   (gqa_test.py::GQAFusionTest / GemmaGQAFusionTest source_model_script)
# chain = fuse_xformers order: sdpa, gqa, qkv_gqa, (mha...), sdpa_via_mha
# ---------------------------------------------------------------------------------------------


def build_gqa(c):
    B, S, Dh = c["B"], c["S"], 16
    H, Hkv = c["heads"]
    G_ = H // Hkv if H % Hkv == 0 else None
    P = c["P"]
    with_past = c["with_past"]
    D, Dkv = H * Dh, Hkv * Dh
    dt = F32
    T = S + (P if with_past else 0)
    g = G()
    sym = c["sym"]
    query = g.inp("query", dt, [B, S, D], role="small", decl=["B", "S", D] if sym else None)
    key = g.inp("key", dt, [B, S, Dkv], role="small", decl=["B", "S", Dkv] if sym else None)
    value = g.inp("value", dt, [B, S, Dkv], decl=["B", "S", Dkv] if sym else None)
    Pin = P if with_past else 0
    past_key = g.inp("past_key", dt, [B, Hkv, Pin, Dh], role="small", decl=["B", Hkv, "P", Dh] if sym else None)
    past_value = g.inp("past_value", dt, [B, Hkv, Pin, Dh], decl=["B", Hkv, "P", Dh] if sym else None)
    maxlen = S + P + 2
    cos = g.inp("cos", dt, [maxlen, Dh // 2], role=("fixed", np.cos(np.arange(maxlen * (Dh // 2)) * 0.3).tolist()),
                decl=["max_seqlen", Dh // 2] if sym else None)
    sin = g.inp("sin", dt, [maxlen, Dh // 2], role=("fixed", np.sin(np.arange(maxlen * (Dh // 2)) * 0.3).tolist()),
                decl=["max_seqlen", Dh // 2] if sym else None)
    if c["norm"] != "none":
        qs = g.inp("query_scale", dt, [Dh], role="scale")
        ks = g.inp("key_scale", dt, [Dh], role="scale")
    Bv = g.op("Shape", query, start=0, end=1)
    Sv = g.op("Shape", query, start=1, end=2)
    past_len = g.op("Shape", past_key, start=2, end=3)
    total_len = g.op("Add", past_len, Sv)
    m1, one = g.i64([-1]), g.i64([1])
    shape_BSHDh = g.op("Concat", Bv, Sv, m1, g.i64([Dh]), axis=0)
    shape_BSD = g.op("Concat", Bv, Sv, m1, axis=0)
    grp = G_ if G_ is not None else 1
    shape_BHkvGSDh = g.op("Concat", Bv, g.i64([Hkv]), g.i64([grp]), total_len, g.i64([Dh]), axis=0)
    shape_BHSDh = g.op("Concat", Bv, g.i64([Hkv * grp]), total_len, g.i64([Dh]), axis=0)
    q4 = g.op("Reshape", query, shape_BSHDh, outs=["query_BSHDh"])
    k4 = g.op("Reshape", key, shape_BSHDh, outs=["key_BSHkvDh"])
    g.vi("query_BSHDh", dt, ["B" if sym else B, S, H, Dh])
    g.vi("key_BSHkvDh", dt, ["B" if sym else B, S, Hkv, Dh])
    sln = dict(axis=-1, epsilon=1e-6, stash_type=1)
    if c["norm"] == "transpose_first":
        qT = g.op("SimplifiedLayerNormalization", g.op("Transpose", q4, perm=[0, 2, 1, 3]), qs, **sln)
        kT = g.op("SimplifiedLayerNormalization", g.op("Transpose", k4, perm=[0, 2, 1, 3]), ks, **sln)
    elif c["norm"] == "norm_first":
        qT = g.op("Transpose", g.op("SimplifiedLayerNormalization", q4, qs, **sln), perm=[0, 2, 1, 3])
        kT = g.op("Transpose", g.op("SimplifiedLayerNormalization", k4, ks, **sln), perm=[0, 2, 1, 3])
    else:
        qT = g.op("Transpose", q4, perm=[0, 2, 1, 3])
        kT = g.op("Transpose", k4, perm=[0, 2, 1, 3])
    v4 = g.op("Reshape", value, shape_BSHDh)
    vT = g.op("Transpose", v4, perm=[0, 2, 1, 3])
    pos1d = g.op("Range", g.op("Squeeze", past_len), g.op("Squeeze", total_len), g.const(np.int64(1)))
    if c["pos"] == "range":
        pos_q = g.op("Unsqueeze", pos1d, g.i64([0]))
        pos_k = g.op("Unsqueeze", pos1d, g.i64([0]))
    else:   # tiled to [B, S] as ORT's RotaryEmbedding needs for batch > 1
        pos_q = pos_k = g.op("Tile", g.op("Unsqueeze", pos1d, g.i64([0])), g.op("Concat", Bv, one, axis=0))
    rattrs = {} if c["interleaved"] == "absent" else {"interleaved": int(c["interleaved"])}
    q_rope = g.ms_op("RotaryEmbedding", qT, pos_q, cos, sin, outs=["query_BHSDh_rope"], **rattrs)
    k_rope = g.ms_op("RotaryEmbedding", kT, pos_k, cos, sin, outs=["key_BHkvSDh_rope"], **rattrs)
    g.vi("query_BHSDh_rope", dt, ["B" if sym else B, H, S, Dh])
    g.vi("key_BHkvSDh_rope", dt, ["B" if sym else B, Hkv, S, Dh])
    if with_past:
        kseq = g.op("Concat", past_key, k_rope, axis=-2)
        vseq = g.op("Concat", past_value, vT, axis=-2)
    else:
        kseq, vseq = k_rope, vT
    kx = g.op("Reshape", g.op("Expand", g.op("Unsqueeze", kseq, g.i64([2])), shape_BHkvGSDh), shape_BHSDh,
              outs=["key_BHSDh"])
    vx = g.op("Reshape", g.op("Expand", g.op("Unsqueeze", vseq, g.i64([2])), shape_BHkvGSDh), shape_BHSDh,
              outs=["value_BHSDh"])
    Tdim = T if not sym or with_past is False else T
    g.vi("key_BHSDh", dt, ["B" if sym else B, H, Tdim, Dh])
    g.vi("value_BHSDh", dt, ["B" if sym else B, H, Tdim, Dh])
    # --- mask
    seq_len_0D = g.op("Squeeze", g.op("Shape", query, end=2, start=1))
    past_0D = g.op("Squeeze", past_len)
    total_0D = g.op("Add", past_0D, seq_len_0D)
    total_1D = g.op("Reshape", total_0D, m1)
    minval = float(np.finfo(np.float32).min)
    min_val = g.const(np.array([minval], dtype=np.float32))
    if c["mask"] in ("causal", "sliding", "bidirectional", "causal_plus1"):
        plus = 1 if c["mask"] == "causal_plus1" else 0
        tp0 = g.op("Add", total_0D, g.const(np.int64(plus))) if plus else total_0D
        tp1 = g.op("Reshape", tp0, m1)
        cur = g.op("Range", past_0D, total_0D, g.const(np.int64(1)))
        mshape = g.op("Concat", g.op("Shape", query, end=2, start=1), tp1, axis=0)
        all_min = g.op("Expand", min_val, mshape)
        row = g.op("Range", g.const(np.int64(0)), tp0, g.const(np.int64(1)))
        col = g.op("Reshape", cur, g.i64([-1, 1]))
        bm = g.op("Greater", row, col)
        if c["mask"] == "sliding":      # additionally mask positions more than 1 behind the current token
            bm = g.op("Or", bm, g.op("LessOrEqual", row, g.op("Sub", col, g.const(np.int64(1)))))
        elif c["mask"] == "bidirectional":   # nothing is masked
            bm = g.op("And", bm, g.op("Less", row, g.const(np.int64(0))))
        fm = g.op("Mul", all_min, g.op("Cast", bm, to=F32))
        m4 = g.op("Unsqueeze", fm, g.i64([0, 1]))
        mask = g.op("Expand", m4, g.op("Concat", Bv, one, one, one, axis=0))
        if plus:
            mask = g.op("Slice", mask, g.i64([0]), total_1D, g.i64([3]), g.i64([1]))
    else:  # "input": an arbitrary additive mask supplied by the caller, passed through an Identity-like Mul
        mi = g.inp("mask_in", dt, [B, 1, S, T], role="mask")
        mask = g.op("Mul", mi, g.const(1.0, dt))
    # --- attention
    kt = g.op("Transpose", kx, perm=[0, 1, 3, 2], outs=["key_transposed"])
    g.vi("key_transposed", dt, ["B" if sym else B, H, Dh, Tdim])
    div = g.const(np.float32(math.sqrt(math.sqrt(Dh))))
    score = g.op("MatMul", g.op("Div", q_rope, div), g.op("Div", kt, div))
    wgt = g.op("Softmax", g.op("Add", score, mask), axis=-1)
    att = g.op("MatMul", wgt, vx)
    out = g.op("Reshape", g.op("Transpose", att, perm=[0, 2, 1, 3]), shape_BSD)
    g.out(out, dt)
    g.out(kseq, dt)
    g.out(vseq, dt)
    return g.model(), g.feeds_spec


def _gqa_valid(c):
    H, Hkv = c["heads"]
    if H % Hkv:
        return False
    return True


family("gqa", "quick",
       [("B", [1, 2], "all"), ("S", [3, 1], "all"), ("heads", [[2, 1], [2, 2], [4, 2]], "all"),
        ("with_past", [True, False], "dev"), ("P", [2, 5], "dev"),
        ("norm", ["none", "transpose_first", "norm_first"], "dev"),
        ("mask", ["causal_plus1", "causal", "sliding", "bidirectional", "input"], "dev"),
        ("pos", ["range", "tiled"], "dev"), ("interleaved", ["absent", "0", "1"], "dev"),
        ("sym", [True, False], "dev")],
       build_gqa,
       lambda c: [("gqa(sdpa,gqa,packed_qkv,sdpa_via_mha)", ["sdpa", "gqa", "qkv_gqa", "sdpa_via_mha"])],
       valid=_gqa_valid,
       near=lambda c: [f"mask={c['mask']}"] if c["mask"] in ("sliding", "bidirectional", "input") else [],
       canon=lambda kind, fusion, c, detail: {"fusion": "gqa",
                                              "cls": "mask-is-not-the-causal-mask(sliding|bidirectional|arbitrary)"}
       if (c["mask"] in ("sliding", "bidirectional", "input") and kind == "not-equivalent" and c["sym"]) else
       {"fusion": "mha", "cls": "rotary-attributes-not-forwarded(interleaved)"}
       if (c["interleaved"] == "1" and not c["sym"] and kind == "not-equivalent") else None)
