"""C19 - ORT fusions preserve numerical results.

Bounded-exhaustive enumeration (vf.explore) of parameterised pattern instances per fusion family; each leaf
builds the model, runs it on ORT, applies (a) the family's single fuse_* function(s) after the same
ShapeInference+optimize() preparation the repo's unit tests use and (b) optimize_for_ort on a fresh copy, and
checks: fusion count 0 => model structurally unchanged; count > 0 => ORT loads the result and its outputs
agree with the original on >= 3 deterministic valuations.
"""
from __future__ import annotations

import json

import numpy as np

from vf import explore, runeq
from vf.props import c19_build as cb
from vf.props import c19_fam  # noqa: F401  (registers quick families)
from vf.props.c19_fam import FAMILIES

try:  # thorough-tier families live in their own module
    from vf.props import c19_fam_attn  # noqa: F401
except ImportError:  # pragma: no cover
    c19_fam_attn = None

ID = "C19"
LEVEL = "model_checking"
RULE = ("per fusion family, every choice sequence over the family's parameter alphabet with exhaustive size/"
        "form dimensions and at most `bound` (quick 1, thorough 2) non-default picks among the deviation "
        "dimensions (operand order, constant variants, eps/axis/shape near-misses, casts, dtype, optional "
        "inputs); a leaf = one built model run through the real fuse_* function(s) and optimize_for_ort and "
        "executed on ORT before/after on 3 deterministic valuations.  distinct_nontrivial = distinct "
        "(family, configuration) leaves whose original ran on ORT and reached the oracle")
ASSUMPTIONS = ["onnxruntime 1.30 CPU EP with graph optimizations disabled defines what original and fused models compute",
               "onnx_ir serde/shape-inference pass and onnxscript.optimizer.optimize (the preparation the repo's own "
               "fusion unit tests apply before fuse_*) are trusted for the single-fusion mode; a difference already "
               "introduced by that preparation is reported under its own key, not blamed on the fusion",
               "com.microsoft.GroupNorm has no CPU kernel: instance->group-norm results are executed by "
               "onnx.reference with a numpy GroupNorm written from the contrib-op documentation",
               "model builders are hand-derived from onnxscript/rewriter/ort_fusions/*_test.py and rewriter/models/*"]

BOUND = {"quick": 1, "thorough": 2}


# ---------------------------------------------------------------------------------------------
# enumeration
# ---------------------------------------------------------------------------------------------

def _families(tier):
    import os
    only = [x for x in os.environ.get("C19_FAMILIES", "").split(",") if x]   # development aid only
    return [f for f in FAMILIES.values() if (tier == "thorough" or f["tier"] == "quick")
            and (not only or f["name"] in only)]


def _make_driver(fam):
    def driver(ch):
        cfg = {}
        for (name, values, kind) in fam["params"]:
            vals = values(cfg) if callable(values) else values
            cfg[name] = ch.all(name, vals) if kind == "all" else ch.choose(name, vals)
        if not fam["valid"](cfg):
            raise explore.Prune()
        return cfg
    return driver


def defaults(fam, cfg):
    """default value of each parameter given the values chosen before it (menus may depend on the prefix)."""
    out = {}
    cur = {}
    for (name, values, kind) in fam["params"]:
        vals = values(cur) if callable(values) else values
        out[name] = vals[0]
        cur[name] = cfg.get(name, vals[0])
    return out


def plan(tier, seed):
    items = []
    agg = dict(states=0, transitions=0, leaves=0, pruned=0, capped=False, bound=BOUND[tier])
    dims = {}
    per_family = {}
    for fam in _families(tier):
        st = explore.Stats()
        n0 = len(items)
        bound = fam.get("bound", {}).get(tier, BOUND[tier])
        for picks, cfg in explore.explore(_make_driver(fam), bound=bound, stats=st):
            items.append({"fam": fam["name"], "cfg": cfg})
        for k in ("states", "transitions", "leaves", "pruned"):
            agg[k] += getattr(st, k)
        agg["capped"] = agg["capped"] or st.capped
        for k, v in st.dim_hist.items():
            dims[f"{fam['name']}.{k}"] = len(v)
        per_family[fam["name"]] = dict(leaves=st.leaves, pruned=st.pruned, states=st.states, bound=bound)
    agg["exhaustive"] = not agg["capped"]
    agg["dimensions"] = dims
    agg["plan_per_family"] = per_family
    return items, agg


# ---------------------------------------------------------------------------------------------
# the code under test: step table
# ---------------------------------------------------------------------------------------------

_STEPS = None


def steps():
    global _STEPS
    if _STEPS is None:
        from onnxscript.rewriter.ort_fusions import (attention, bias_gelu, cos_sin_cache, erfgelu,
                                                     fused_matmul_rule_sets, gelu, gqa, gqa_packed_qkv,
                                                     instance_to_group_normalization, mha, mha_bias, mha_scale,
                                                     rms_normalization, rotary_embedding, sdpa, sdpa_via_mha,
                                                     skip_normalization, softmax)
        fmm = fused_matmul_rule_sets.fused_matmul_rule_sets()
        _STEPS = {
            "rms": rms_normalization.fuse_rms_normalization,
            "skip_rms": skip_normalization.fuse_skip_rms_normalization,
            "skip_ln": skip_normalization.fuse_skip_layer_normalization,
            "gelu": gelu.fuse_gelu,
            "erfgelu": erfgelu.fuse_erfgelu,
            "bias_gelu": bias_gelu.fuse_bias_gelu,
            "softmax": lambda m: softmax.rules.apply_to_model(m),
            "fused_matmul": lambda m: fmm.apply_to_model(m),
            "inst2group": lambda m: instance_to_group_normalization.rules.apply_to_model(m),
            "rotary": rotary_embedding.fuse_rotary_embedding,
            "partial_rotary": rotary_embedding.fuse_partial_rotary_embedding,
            "cos_sin": cos_sin_cache.fuse_cos_sin_cache,
            "sdpa": lambda m: sdpa.fuse_sdpa(m, apply_shape_inference=True),
            "sdpa_via_mha": sdpa_via_mha.replace_sdpa_by_mha,
            "gqa": gqa.fuse_gqa,
            "qkv_gqa": gqa_packed_qkv.fuse_qkv_gqa,
            "mha1": mha.fuse_mha1,
            "mha2": mha.fuse_mha2,
            "mha_scale": mha_scale.fuse_mha_scale,
            "mha_bias": mha_bias.fuse_mha_bias,
            "attention": attention.fuse_attention,
            "cse": _cse,
        }
    return _STEPS


def _cse(model):
    import onnx_ir.passes.common as common_passes
    common_passes.CommonSubexpressionEliminationPass()(model)
    return 0


def _prepare(model_proto):
    """what rewriter/ort_fusions/*_unit_test.py::_build does before calling fuse_*: deserialize, shape inference,
    optimize()."""
    import onnx_ir as ir
    import onnx_ir.passes.common as common_passes

    from onnxscript.optimizer import optimize
    model = ir.serde.deserialize_model(model_proto)
    common_passes.ShapeInferencePass()(model)
    optimize(model)
    return model


def _to_proto(model):
    import onnx_ir as ir
    return ir.serde.serialize_model(model)


# ---------------------------------------------------------------------------------------------
# execution of fused models
# ---------------------------------------------------------------------------------------------

def _groupnorm_ref():
    from onnx.reference.op_run import OpRun

    class GroupNorm(OpRun):
        op_domain = "com.microsoft"

        def _run(self, X, gamma, beta, activation=0, channels_last=1, epsilon=1e-5, groups=1):
            # contrib-op documentation: X is (N,H,W,C) when channels_last=1 else (N,C,H,W); C must be divisible by
            # groups; y = gamma * (x - mean_g) / sqrt(var_g + eps) + beta per (n, group); activation 1 = SiLU
            x = X.astype(np.float64)
            if channels_last:
                x = np.transpose(x, (0, 3, 1, 2))
            N, C, H, W = x.shape
            if C % groups:
                raise ValueError("C not divisible by groups")
            xg = x.reshape(N, groups, -1)
            mean = xg.mean(axis=2, keepdims=True)
            var = xg.var(axis=2, keepdims=True)
            y = ((xg - mean) / np.sqrt(var + epsilon)).reshape(N, C, H, W)
            y = y * gamma.astype(np.float64).reshape(1, C, 1, 1) + beta.astype(np.float64).reshape(1, C, 1, 1)
            if activation == 1:
                y = y / (1 + np.exp(-y))
            if channels_last:
                y = np.transpose(y, (0, 2, 3, 1))
            return (y.astype(X.dtype),)

    return GroupNorm


# ORT CPU kernel restrictions that are limitations of the execution provider, not of the fused node (the CUDA EP
# accepts these); a fused model refused for one of these reasons is counted as skipped, never as a violation.
CPU_KERNEL_LIMITS = ["batch_size must be 1 when sequence_length > 1 and past context"]


def _exc(e):
    parts, seen = [], set()
    while e is not None and id(e) not in seen and len(parts) < 4:
        seen.add(id(e))
        parts.append(f"{type(e).__name__}: {e}"[:200])
        e = e.__cause__ or e.__context__
    return " <- ".join(parts)


def _run_fused(proto, feeds_list):
    """-> ("ok", outs_list, how) | ("load", msg) | ("run", msg) | ("nokernel", msg)"""
    try:
        sess = runeq.make_session(proto)
    except runeq.RunError as e:
        msg = e.msg
        if "NOT_IMPLEMENTED" in msg or "Could not find an implementation" in msg or "Kernel not found" in msg:
            if "GroupNorm" in msg:
                from onnx.reference import ReferenceEvaluator
                try:
                    ev = ReferenceEvaluator(proto, new_ops=[_groupnorm_ref()])
                    outs = [ev.run(None, f) for f in feeds_list]
                    return ("ok", outs, "reference+numpy-GroupNorm")
                except Exception as e2:  # noqa: BLE001
                    return ("run", f"reference evaluation of GroupNorm model failed: {type(e2).__name__}: {e2}"[:300])
            return ("nokernel", msg[:200])
        return ("load", msg[:300])
    outs = []
    for f in feeds_list:
        try:
            outs.append(runeq.run_ort(None, f, session=sess))
        except runeq.RunError as e:
            if any(m in e.msg for m in CPU_KERNEL_LIMITS):
                return ("nokernel", e.msg[:200])
            return ("run", e.msg[:300])
    return ("ok", outs, "ort")


def _leftover_fusion_ops(proto):
    fdoms = {(f.domain, f.name) for f in proto.functions}
    return sorted({f"{n.domain}::{n.op_type}" for n in proto.graph.node
                   if n.domain == "ai.onnxruntime._fusion" and (n.domain, n.op_type) not in fdoms})


def _op_multiset(proto):
    import collections
    return collections.Counter((n.domain, n.op_type) for n in proto.graph.node if n.op_type != "Constant")


def _fused_ops(proto):
    return sorted({f"{n.op_type}" for n in proto.graph.node if n.domain == "com.microsoft"
                   or n.op_type in ("SimplifiedLayerNormalization",)})


# ---------------------------------------------------------------------------------------------
# one case
# ---------------------------------------------------------------------------------------------

def _observe(fam, cfg):
    """Run one configuration.  -> dict(skip=reason) | dict(per={fusion: outcome}, viols=[(kind, fusion, detail)],
    counts={}, show=str)"""
    m0, spec = fam["build"](cfg)
    feeds_all = [cb.valuation(spec, k) for k in range(cb.N_VALUATIONS)]
    try:
        s0 = runeq.make_session(m0)
    except runeq.RunError as e:
        return {"skip": "orig-ort-load", "msg": e.msg[:200], "show": cb.render(m0)}
    feeds, ref = [], []
    nonfinite = 0
    for f in feeds_all:
        try:
            o = runeq.run_ort(None, f, session=s0)
        except runeq.RunError as e:
            return {"skip": "orig-ort-run", "msg": e.msg[:200], "show": cb.render(m0)}
        if not cb.finite(o):
            nonfinite += 1
            continue
        feeds.append(f)
        ref.append(o)
    if not feeds:
        return {"skip": "orig-nonfinite", "show": cb.render(m0)}
    per, viols = {}, []
    counts = {"valuations_dropped_nonfinite": nonfinite, "valuations_used": len(feeds)}
    extra_eval = 0

    def check_exec(tag, proto):
        left = _leftover_fusion_ops(proto)
        if left:
            return "viol:ort-load-fails", ("ort-load-fails", tag, f"unlowered fusion ops remain: {left}")
        r = _run_fused(proto, feeds)
        if r[0] == "nokernel":
            return "skip:no-cpu-kernel", None
        if r[0] == "load":
            return "viol:ort-load-fails", ("ort-load-fails", tag, r[1])
        if r[0] == "run":    # ORT accepted the graph but the fused node rejects its inputs at the first run
            return "viol:ort-load-fails", ("ort-load-fails", tag, "at run time: " + r[1])
        for k, (o, e) in enumerate(zip(r[1], ref)):
            d = cb.compare(o, e)
            if d:
                return "viol:not-equivalent", ("not-equivalent", tag, f"valuation {k}: {d}")
        return "fused-ok" + ("" if r[2] == "ort" else "(ref)"), None

    # (a) single fusion function(s)
    prep_bad = None
    base_ops = None
    for fname, chain in fam["fusions"](cfg):
        try:
            model = _prepare(m0)
        except Exception as e:  # noqa: BLE001  preparation is not the code under test here
            per[fname] = "skip:prepare-raises"
            counts["prepare_raises"] = counts.get("prepare_raises", 0) + 1
            prep_bad = f"{type(e).__name__}: {e}"[:200]
            continue
        p1 = _to_proto(model)
        fp1 = cb.fingerprint(p1)
        if base_ops is None:
            base_ops = _op_multiset(p1)
        cnts = []
        ctx = {}
        try:
            for s in chain:
                if s.endswith("_if"):   # fuse_xformers applies mha_bias / attention only when an MHA was produced
                    n = int(steps()[s[:-3]](model) or 0) if (ctx.get("mha1") or ctx.get("mha2")) else 0
                else:
                    n = int(steps()[s](model) or 0)
                ctx[s] = n
                cnts.append(n)
        except Exception as e:  # noqa: BLE001
            per[fname] = "viol:raises"
            viols.append(("raises", fname, _exc(e)))
            continue
        extra_eval += 1
        p2 = _to_proto(model)
        if sum(cnts) == 0:
            d = cb.diff_fingerprint(fp1, cb.fingerprint(p2))
            if d:
                per[fname] = "viol:changed-without-fusing"
                viols.append(("changed-without-fusing", fname, d))
            else:
                per[fname] = "unchanged"
            continue
        res, v = check_exec(fname, p2)
        if v is not None and v[0] in ("not-equivalent", "ort-load-fails"):
            # is the difference already present after the preparation (not this fusion's doing)?
            r1 = _run_fused(p1, feeds)
            if r1[0] != "ok" or any(cb.compare(o, e) for o, e in zip(r1[1], ref)):
                res, v = "skip:prepare-changed-model", None
                counts["prepare_changed_model"] = counts.get("prepare_changed_model", 0) + 1
        per[fname] = res + f"[{'+'.join(map(str, cnts))}]" if res.startswith("fused") else res
        if v is not None:
            viols.append(v)
        if res.startswith("fused"):
            counts["fused_ops:" + ",".join(_fused_ops(p2))] = 1

    # (b) optimize_for_ort
    import onnx_ir as ir

    from onnxscript.rewriter.ort_fusions import optimize_for_ort
    tag = "optimize_for_ort"
    try:
        model = ir.serde.deserialize_model(m0)
        model, fc = optimize_for_ort(model)
        p3 = _to_proto(model)
    except Exception as e:  # noqa: BLE001
        per[tag] = "viol:raises"
        viols.append(("raises", tag, _exc(e)))
    else:
        extra_eval += 1
        fired = sorted(k for k, v in fc.items() if v)
        ms_ops = sorted(set(_fused_ops(p3)) - set(_fused_ops(m0)))
        # the pattern rule sets run by optimize_for_ort (softmax, fused matmul, instance->group norm) are not in
        # fusion_count: detect their effect by the operator multiset relative to the merely optimize()d model
        changed = base_ops is not None and _op_multiset(p3) != base_ops
        res, v = check_exec(tag, p3)
        if res.startswith("fused"):
            res = ("fused-ok" if (fired or ms_ops or changed) else "nofusion-ok") + res[len("fused-ok"):]
        per[tag] = res + (f"[{','.join(fired)}]" if fired else "")
        if v is not None:
            viols.append((v[0], tag, v[2] + f" (fusion_count fired: {fired}, fused ops: {ms_ops})"))
    counts["extra_evaluations"] = extra_eval
    out = {"per": per, "viols": viols, "counts": counts, "show": cb.render(m0)}
    if prep_bad:
        out["prep_bad"] = prep_bad
    return out


_FAIL_MEMO = {}


def _fails(fam, cfg, kind, fusion):
    """memoised per worker: the violations observed on a (reduced) configuration"""
    if not fam["valid"](cfg):
        return False
    k = fam["name"] + "|" + json.dumps(cfg, sort_keys=True)
    got = _FAIL_MEMO.get(k)
    if got is None:
        try:
            r = _observe(fam, cfg)
            got = {(v[0], v[1]) for v in r.get("viols", [])}
        except Exception:  # noqa: BLE001  a builder that cannot express the reduced configuration
            got = set()
        if len(_FAIL_MEMO) > 20000:
            _FAIL_MEMO.clear()
        _FAIL_MEMO[k] = got
    return (kind, fusion) in got


def _minimise(fam, cfg, kind, fusion):
    """Greedy: reset each non-default parameter to its default while the same (kind, fusion) violation persists."""
    cur = dict(cfg)
    changed = True
    while changed:
        changed = False
        dfl = defaults(fam, cur)
        for (name, _, _) in fam["params"]:
            if cur[name] == dfl[name]:
                continue
            trial = dict(cur)
            trial[name] = dfl[name]
            # later menus may depend on this parameter: coerce values that left their menu back to defaults
            d2 = defaults(fam, trial)
            tmp = {}
            for (n2, values, _) in fam["params"]:
                vals = values(tmp) if callable(values) else values
                tmp[n2] = trial[n2] if trial[n2] in vals else d2[n2]
            trial = tmp
            if _fails(fam, trial, kind, fusion):
                cur = trial
                changed = True
                break
    return cur


def _param_class(fam, cur):
    dfl = defaults(fam, cur)
    mp = [f"{n}={json.dumps(cur[n])}" for (n, _, _) in fam["params"] if cur[n] != dfl[n]]
    return ",".join(mp) if mp else "default"


def worker_init(arg):
    import logging
    import warnings
    logging.disable(logging.ERROR)      # the optimizer logs every failed constant-folding attempt at WARNING
    warnings.filterwarnings("ignore")


def _global_canon(kind, fusion, cfg, detail):
    """root causes that surface through several families / through optimize_for_ort's extra rule sets"""
    if kind == "raises" and "0-dimensional arrays" in detail:
        return {"fusion": "fused_matmul", "cls": "div-constant-rank>=2"}
    return None


def execute(item):
    fam = FAMILIES[item["fam"]]
    cfg = item["cfg"]
    nkey = item["fam"] + "|" + json.dumps(cfg, sort_keys=True)
    r = _observe(fam, cfg)
    if "skip" in r:
        return {"status": "skip", "skip": f"{item['fam']}:{r['skip']}", "outcome": f"{item['fam']}|skip:{r['skip']}",
                "show": r.get("show", "")[:600], "detail": r.get("msg")}
    near = fam["near"](cfg)
    per = r["per"]
    viols = []
    seen_params = {}
    single_keys = set()
    for (kind, fusion, detail) in r["viols"]:
        cls = seen_params.get((kind, fusion))
        if cls is None:
            mincfg = _minimise(fam, cfg, kind, fusion)
            canon = fam.get("canon")
            cls = _global_canon(kind, fusion, mincfg, detail) or (canon(kind, fusion, mincfg, detail) if canon else None) \
                or _param_class(fam, mincfg)
            seen_params[(kind, fusion)] = cls
        kfusion = fusion if fusion != "optimize_for_ort" else f"optimize_for_ort/{item['fam']}"
        if isinstance(cls, dict):     # a canonical root cause names the responsible fusion itself
            kfusion, cls = cls.get("fusion", kfusion), cls["cls"]
        key = f"C19|{kind}|{kfusion}|{cls}"
        if fusion == "optimize_for_ort":
            # same root cause as a single-fusion violation of the same kind with the same minimal class?
            if (kind, cls) in single_keys or key in {v["key"] for v in viols}:
                continue
        else:
            single_keys.add((kind, cls))
            if key in {v["key"] for v in viols}:
                continue
        viols.append({"key": key, "detail": {"cfg": cfg, "what": detail, "near_miss": near}})
    counts = dict(r["counts"])
    table = {fusion: res.split("[")[0] for fusion, res in per.items()}
    if near:
        counts["near_miss_instances"] = 1
    outcome = item["fam"] + "|" + ";".join(f"{k}={v}" for k, v in sorted(per.items()))
    return {"status": "viol" if viols else "ok", "outcome": outcome, "nkey": nkey, "viols": viols, "counts": counts,
            "per": table, "fam": item["fam"], "near": bool(near), "show": r["show"][:900]}


def summarize(items, results, tier):
    per = {}
    for it, r in zip(items, results):
        if r.get("status") not in ("ok", "viol"):
            continue
        for fusion, base in (r.get("per") or {}).items():
            name = fusion if fusion != "optimize_for_ort" else f"optimize_for_ort/{it['fam']}"
            d = per.setdefault(name, dict(instances=0, fused=0, unchanged=0, near_miss_instances=0, near_miss_fused=0,
                                          skipped=0, violating=0))
            d["instances"] += 1
            if r.get("near"):
                d["near_miss_instances"] += 1
            if base.startswith("fused"):
                d["fused"] += 1
                if r.get("near"):
                    d["near_miss_fused"] += 1
            elif base in ("unchanged", "nofusion-ok"):
                d["unchanged"] += 1
            elif base.startswith("skip"):
                d["skipped"] += 1
            else:
                d["violating"] += 1
    return {"per_fusion": per,
            "families": sorted({it["fam"] for it in items}),
            "tolerances": {"float32": [1e-4, 1e-5], "float16": [5e-3, 5e-3]},
            "valuations_per_instance": cb.N_VALUATIONS}


def item_key(item):
    return item["fam"] + "|" + json.dumps(item["cfg"], sort_keys=True)[:120]


def on_crash(item, res):
    return None
