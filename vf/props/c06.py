"""C06 - the rewriter's pattern matcher reports a match exactly when the subgraph ending at the node is an
instance of the pattern; bindings/nodes/outputs are the instance's; removability; commute.

Bounded-exhaustive cross product: every pattern of the pattern pools x every host of the host pools whose
root-operator signature is compatible (plus one representative host per incompatible signature), every node
of the host as root, check_nodes_are_removable in {False, True}.  The real matcher runs on real
GraphPattern / ir.Graph objects; the oracle is the relational specification in c06_spec.
"""
from __future__ import annotations

import copy

from vf import explore
from vf.props import c06_gen as G
from vf.props import c06_spec as S

ID = "C06"
LEVEL = "model_checking"
RULE = ("choice-tree enumeration of patterns (skeleton = every tree of node-patterns over Neg/Add/Sub/Split up to the "
        "pool's node count, exhaustive; features = deviations from 'all leaves fresh variables', bounded) and of host "
        "graphs (backward slices of a root, every wiring exhaustive; leaf kinds, attributes, extra consumers, graph "
        "outputs, third Split output, Constant-node vs initializer = bounded deviations); every (pattern, host) pair of "
        "the paired pools whose root-operator signatures are compatible, plus one representative host per incompatible "
        "signature; every host node as root x check_nodes_are_removable in {F,T} (x every rule of rule.commute() for "
        "commute patterns). evaluations = matcher calls. distinct_nontrivial = distinct patterns that matched at least "
        "one host (as the specification demands or permits) + distinct hosts matched by at least one pattern; the "
        "number of matching (pattern, host) pairs is counts.positive_pairs")
ASSUMPTIONS = ["c06_spec.sols is the documented meaning of a pattern (docs/tutorial/rewriter/*.md + class docstrings)",
               "hosts are built with onnx_ir; Constant nodes get const_value from optimizer.basic_constant_propagation, "
               "as RewriteRuleSet.apply_to_model does before matching",
               "points where documentation and a plausible reading differ are three-valued (counted as 'maybe')"]

MIN_HOSTS = 40   # hosts of the item tried as alternative witnesses while minimising a violating pattern

# pools: (exact number of skeleton nodes, deviation bound)
TIERS = {
    "quick": {"pairs": [((1, 2), [(1, 1), (2, 1), (3, 0)]),
                        ((2, 1), [(1, 1), (2, 1), (3, 0)]),
                        # optional-variable focus pool (menus restricted to optional value / attribute variables, fresh
                        # or used again): 2 skeleton nodes, 3 deviations
                        (("2opt", 3), [(1, 1), (2, 1), (3, 0)])],
              "block": 60000},
    "thorough": {"pairs": [((1, 2), [(1, 2), (2, 2), (3, 1)]),
                           ((2, 2), [(1, 2), (2, 1), (3, 0)]),
                           ((2, 1), [(2, 2), (3, 1)]),
                           ((3, 1), [(3, 1)]),
                           ((3, 0), [(3, 2), (4, 0)]),
                           (("2opt", 4), [(2, 2), (3, 1)]), (("3opt", 2), [(2, 1), (3, 1)])],
                 "block": 250000},
}


def _pdriver(n):
    if isinstance(n, str) and n.endswith("opt"):
        return G.pattern_driver(int(n[:-3]), exact=True, focus="opt")
    return G.pattern_driver(n, exact=True)


def pattern_pool(n, bound, stats=None):
    drv = _pdriver(n)
    return [(G.enc(picks), pat) for picks, pat in explore.explore(drv, bound=bound, stats=stats)]


def host_pool(k, bound, stats=None):
    drv = G.host_driver(k, k)
    return [(G.enc(picks), h) for picks, h in explore.explore(drv, bound=bound, stats=stats)]


def plan(tier, seed):
    cfg = TIERS[tier]
    st = explore.Stats()
    ppools, hpools = {}, {}
    items = []
    dims = {}
    n_pairs = 0
    for pp, hps in cfg["pairs"]:
        if pp not in ppools:
            ppools[pp] = pattern_pool(pp[0], pp[1], st)
            dims["patterns%s" % (pp,)] = len(ppools[pp])
        for hp in hps:
            if hp not in hpools:
                hpools[hp] = host_pool(hp[0], hp[1], st)
                dims["hosts%s" % (hp,)] = len(hpools[hp])
    for pp, hps in cfg["pairs"]:
        pgroups = {}
        for code, pat in ppools[pp]:
            pgroups.setdefault(G.req_sig(pat), []).append(code)
        for hp in hps:
            hgroups = {}
            for code, h in hpools[hp]:
                hgroups.setdefault(G.FlatHost(h).sig(), []).append(code)
            for req in sorted(pgroups, key=repr):
                pcs = pgroups[req]
                comp = [s for s in sorted(hgroups) if G.compatible(req, s)]
                reps = [hgroups[s][0] for s in sorted(hgroups) if not G.compatible(req, s)]
                hcs = [c for s in comp for c in hgroups[s]]
                for kind, hl in (("x", hcs), ("rep", reps)):
                    if not hl:
                        continue
                    # blocks of <= block pairs: chunk hosts first, then patterns
                    hstep = max(1, min(len(hl), 400))
                    pstep = max(1, cfg["block"] // hstep)
                    for i in range(0, len(pcs), pstep):
                        for j in range(0, len(hl), hstep):
                            items.append({"pn": pp[0], "hk": hp[0], "kind": kind,
                                          "ps": pcs[i:i + pstep], "hs": hl[j:j + hstep]})
                            n_pairs += len(pcs[i:i + pstep]) * len(hl[j:j + hstep])
    d = st.as_dict()
    d["exhaustive"] = not st.capped
    d["dimensions"] = dims
    d["pairs_planned"] = n_pairs
    d["pools"] = {"tier": tier, "pairs": [[list(pp), [list(h) for h in hps]] for pp, hps in cfg["pairs"]]}
    return items, d


# ---------------------------------------------------------------------------------------------
# worker side
# ---------------------------------------------------------------------------------------------

_PD, _HD = {}, {}


def _pat_from(pn, code):
    if pn not in _PD:
        _PD[pn] = _pdriver(pn)
    return explore.replay(_PD[pn], G.dec(code))[0]


def _host_from(hk, code):
    if hk not in _HD:
        _HD[hk] = G.host_driver(hk, hk)
    return explore.replay(_HD[hk], G.dec(code))[0]


def _replacement(op, **_):
    return None


class _Impl:
    """The real objects for one pattern."""

    def __init__(self, pat):
        from onnxscript.rewriter import pattern as P
        self.pat = pat
        self.error = None
        self.rules = None
        try:
            gp = G.build_pattern(pat)
            if pat.get("commute"):
                self.rules = list(P.RewriteRule(gp, _replacement).commute())
            else:
                self.rules = [P.Pattern(gp)]
        except Exception as e:  # building a pattern from documented API objects must not fail
            self.error = f"{type(e).__name__}: {e}"


class _Host:
    def __init__(self, h, into=None):
        self.fh = G.FlatHost(h)
        self.model, self.graph, self.nodes = G.build_host(self.fh, into=into)
        assert [n.name for n in self.graph] == [x[0] for x in self.fh.nodes]


def _freeze_impl(m):
    import onnx_ir as ir
    b = {}
    for k, v in m.bindings.items():
        if isinstance(v, ir.Value):
            b[k] = v.name
        elif v is None:
            b[k] = None
        elif isinstance(v, ir.Attr):
            b[k] = ("attr", v.value)
        else:
            b[k] = ("tag", v)
    return (b, [n.name for n in m.nodes], [v.name if v is not None else None for v in m.outputs],
            sorted(n.name for n in m.node_bindings.values()))


def _freeze_spec(fh, sol):
    b, nodes, outs, maybe = sol
    return b, {fh.nodes[n][0] for n in nodes}, list(outs), maybe


def _run(impl, host, root, remove):
    """-> list of frozen results (one per rule that matched) | ("error", text)"""
    res = []
    for rule in impl.rules:
        try:
            m = rule.match(host.model, host.graph, host.nodes_by_idx[root], check_nodes_are_removable=remove)
        except Exception as e:
            return ("error", f"{type(e).__name__}: {e}")
        if m:
            res.append(_freeze_impl(m))
    return res


def judge(pat, impl, host, root, remove, spec_cache):
    """Compare implementation and specification for one (pattern, host, root, remove).

    -> (outcome, kind|None, detail)   kind is None when the property holds on this case
    """
    fh = host.fh
    got = _run(impl, host, root, remove)
    if isinstance(got, tuple):
        return "error", "error", {"error": got[1]}
    key = root
    if key not in spec_cache:
        sw = S.swap_space(pat) if pat.get("commute") else [{}]
        per = [S.sols(pat, fh, root, s) for s in sw]
        spec_cache[key] = per
    per = spec_cache[key]
    allsols = [s for lst in per for s in lst]
    if remove:
        cand = [s for s in allsols if S.removable(fh, s[1], set(s[2]))]
    else:
        cand = allsols
    must = [s for s in cand if not s[3]]
    fz = [_freeze_spec(fh, s) for s in cand]
    if not got:
        if must:
            d = {"expected": _js(_freeze_spec(fh, must[0]))}
            if _has_bt_or(pat):
                # label only: does "the first successful OR alternative is final" explain the miss?
                cf = [s for sw in (S.swap_space(pat) if pat.get("commute") else [{}])
                      for s in S.sols(pat, fh, root, sw, first=True)]
                if remove:
                    cf = [s for s in cf if S.removable(fh, s[1], set(s[2]))]
                if not cf:
                    d["label"] = "or-bt:first-alternative-final"
            return "miss", "missed-match", d
        return ("no-match" if not cand else "no-match-maybe"), None, None
    kind = None
    detail = None
    anymaybe = False
    for (b, nodes, outs, nb) in got:
        hit = [z for z in fz if z[0] == b and z[1] == set(nodes) and z[2] == outs]
        d = {"got": _js((b, nodes, outs)), "spec_solutions": [_js(z) for z in fz[:4]]}
        if set(nb) != set(nodes) and len(outs) == len(pat["outs"]):
            # MatchResult.node_bindings (node-pattern -> node; drives the node-level checkers) must cover
            # exactly the matched nodes
            kind, detail = "wrong-bindings", dict(d, label="node-bindings-incomplete", fixed_kind=True,
                                                  node_bindings=nb, what="match.nodes and match.node_bindings disagree")
            break
        if hit:
            anymaybe = anymaybe or all(z[3] for z in hit)
            continue
        # symptom labels (they name the finding, they do not decide it)
        if len(outs) != len(pat["outs"]):
            kind, detail = "false-match", dict(d, label="reported-without-output-values", fixed_kind=True,
                                               what="truthy MatchResult whose outputs list is shorter than the pattern's outputs")
            break
        if remove and any(z[0] == b and z[1] == set(nodes) and z[2] == outs
                          for z in (_freeze_spec(fh, s) for s in allsols)):
            kind, detail = "removability", dict(d, what="matched although a matched node's value is used outside / is a graph output")
        elif not cand:
            kind, detail = "false-match", d
        elif any(z[0] == b and z[2] == outs for z in fz):
            kind, detail = "wrong-nodes", d
        else:
            kind, detail = "wrong-bindings", d
        break
    if kind is None and pat.get("commute") and _deterministic(pat) and not any(s[3] for s in cand):
        # every instance under some operand order must be found by some rule of the commuted set
        found = {(_k(b), frozenset(n), tuple(o)) for b, n, o, _ in got}
        want = {(_k(z[0]), frozenset(z[1]), tuple(z[2])) for z in fz}
        if found != want:
            kind, detail = "missed-match", {"what": "commuted rule set does not find every instance",
                                            "missing": [_js(z) for z in fz if (_k(z[0]), frozenset(z[1]), tuple(z[2])) not in found][:3]}
    if kind is not None:
        return "viol", kind, detail
    return ("match-maybe" if anymaybe else "match"), None, None


def _k(b):
    return tuple(sorted((k, repr(v)) for k, v in b.items()))


def _js(z):
    b = {k: (list(v) if isinstance(v, tuple) else v) for k, v in z[0].items()}
    return {"bindings": b, "nodes": sorted(z[1]) if isinstance(z[1], (set, frozenset)) else list(z[1]),
            "outputs": list(z[2])}


def _has_bt_or(pat):
    return any(vp is not None and vp[0] == "or" and G.or_form(pat, vp) == "bt" for vp in G.walk_vps(pat))


def _deterministic(pat):
    """One instance at most per operand order: no OR, one output node."""
    if any(vp is not None and vp[0] == "or" for vp in G.walk_vps(pat)):
        return False
    return len({o[1] for o in pat["outs"]}) == 1


# ---- minimisation of the pattern of a violating case (for the finding key) --------------------

def _simplifications(pat):
    def fresh(p):
        used = set(p["inputs"]) | {n for nd in p["nodes"].values() for n in nd["outs"] if n}
        for c in "xyzwuvstabcdefgh":
            if c not in used:
                return c
        return "v%d" % len(used)

    def emit(p):
        live = G.reachable(p)
        p["nodes"] = {i: nd for i, nd in p["nodes"].items() if i in live}
        G.finish(p)
        return p

    if pat.get("commute"):
        p = copy.deepcopy(pat)
        p["commute"] = False
        yield emit(p)
    if len(pat["outs"]) > 1:
        for keep in (0, 1):
            p = copy.deepcopy(pat)
            p["outs"] = [p["outs"][keep]]
            yield emit(p)
    elif pat["outs"][0][2] != 0:
        p = copy.deepcopy(pat)
        p["outs"][0][2] = 0
        yield emit(p)
    for i in sorted(pat["nodes"]):
        nd = pat["nodes"][i]
        for a in list(nd["attrs"]):
            p = copy.deepcopy(pat)
            del p["nodes"][i]["attrs"][a]
            yield emit(p)
        for fld in ("oa", "oi", "dom"):
            if nd.get(fld) is not None:
                p = copy.deepcopy(pat)
                p["nodes"][i][fld] = None
                yield emit(p)
        if any(nd["outs"]):
            p = copy.deepcopy(pat)
            p["nodes"][i]["outs"] = [None] * len(nd["outs"])
            yield emit(p)
        if len(nd["outs"]) != G.NOUT[nd["op"]]:
            p = copy.deepcopy(pat)
            p["nodes"][i]["outs"] = [None] * G.NOUT[nd["op"]]
            yield emit(p)
        if nd["op"] == "Split" and len(nd["ins"]) == 2:
            p = copy.deepcopy(pat)
            p["nodes"][i]["ins"].pop()
            yield emit(p)
    # value positions: paths into ins (and OR alternatives)
    def paths(vp, path):
        yield path, vp
        if vp is not None and vp[0] == "or":
            for j, a in enumerate(vp[1]):
                yield from paths(a, path + (1, j))
    counts = {}
    for vp in G.walk_vps(pat):
        if vp is not None and vp[0] == "x":
            counts[vp[1]] = counts.get(vp[1], 0) + 1
    for i in sorted(pat["nodes"]):
        for pos, top in enumerate(pat["nodes"][i]["ins"]):
            for path, vp in paths(top, ()):
                reps = []
                if vp is not None and vp[0] == "or":
                    reps += [a for a in vp[1]]
                    if vp[2] or vp[3]:
                        reps.append(["or", vp[1], None, None, None])
                    elif vp[4]:
                        reps.append(["or", vp[1], vp[2], vp[3], None])
                plain_var = vp is not None and vp[0] == "x" and not vp[2] and counts.get(vp[1]) == 1
                if not plain_var:
                    reps.append("FRESH")
                for r in reps:
                    p = copy.deepcopy(pat)
                    if r == "FRESH":
                        r = ["x", fresh(p), False]
                    else:
                        r = copy.deepcopy(r)
                    if not path:
                        p["nodes"][i]["ins"][pos] = r
                    else:
                        cur = p["nodes"][i]["ins"][pos]
                        for step in path[:-2]:
                            cur = cur[step]
                        cur[path[-2]][path[-1]] = r
                    try:
                        yield emit(p)
                    except Exception:
                        continue


def verdicts(pat, impl, host, root):
    """Both settings of check_nodes_are_removable for one (pattern, host, root).

    -> [(remove, outcome, kind|None, detail)]; a disagreement that appears only with the removability check on
    is of kind 'removability'."""
    cache = {}
    out = []
    kind_f = None
    for remove in (False, True):
        outcome, kind, detail = judge(pat, impl, host, root, remove, cache)
        if not remove:
            kind_f = kind
        elif kind in ("missed-match", "false-match") and kind_f is None and not (detail or {}).get("fixed_kind"):
            kind = "removability"
        out.append((remove, outcome, kind, detail))
    return out


def minimise(pat, host, root, remove, kind, err=None, others=()):
    """Greedy: apply a simplification of the pattern while the same kind of disagreement persists - on the
    witnessing host or, failing that, on one of the other hosts of the item (any root).  The finding key is
    built from the features of the result, so incidental features of the first witness do not end up in it."""
    witness = [host]

    def fails_on(p, impl, h):
        rop = G.root_op(p)
        try:
            return any(verdicts(p, impl, h, r)[1 if remove else 0][2] == kind
                       for r in range(len(h.fh.nodes)) if h.fh.nodes[r][1] == rop)
        except Exception:
            return False

    def fails(p):
        if not G.reachable_ok(p):
            return False
        impl = _Impl(p)
        if impl.error:
            return kind == "error" and err is not None and impl.error.startswith(err)
        if err is not None:
            return False
        if fails_on(p, impl, witness[0]):
            return True
        for h in others[:MIN_HOSTS]:
            if h is not witness[0] and fails_on(p, impl, h):
                witness[0] = h
                return True
        return False
    cur = pat
    for _ in range(40):
        for cand in _simplifications(cur):
            if fails(cand):
                cur = cand
                break
        else:
            break
    return cur


def execute(item):
    pn, hk = item["pn"], item["hk"]
    pats = [(c, _pat_from(pn, c)) for c in item["ps"]]
    hosts = []
    for c in item["hs"]:
        h = _Host(_host_from(hk, c))
        h.nodes_by_idx = list(h.graph)
        hosts.append((c, h))
    hostlist = [h for _, h in hosts]
    counts = {"extra_evaluations": 0, "pairs": 0, "spec_evaluations": 0}
    outcomes = {}
    viols = {}
    nkeys = set()
    memo = {}
    show = None
    for pc, pat in pats:
        impl = _Impl(pat)
        if impl.error:
            small = minimise(pat, hosts[0][1], hosts[0][1].fh.root, False, "error", err=impl.error.split(":")[0])
            key = f"C06|error|{','.join(G.features(small))}"
            viols.setdefault(key, {"key": key, "n": 0, "detail": {"pattern": G.show_pattern(pat), "error": impl.error}})
            viols[key]["n"] += 1
            outcomes["pattern-build-error"] = outcomes.get("pattern-build-error", 0) + 1
            continue
        rop = G.root_op(pat)
        nrules = len(impl.rules)
        for hc, host in hosts:
            counts["pairs"] += 1
            positive = False
            for root in range(len(host.fh.nodes)):
                if item["kind"] == "x" and host.fh.nodes[root][1] != rop:
                    continue
                for remove, outcome, kind, detail in verdicts(pat, impl, host, root):
                    counts["extra_evaluations"] += nrules
                    oc = f"{outcome}{'/rm' if remove else ''}{'/commute' if nrules > 1 or pat.get('commute') else ''}"
                    outcomes[oc] = outcomes.get(oc, 0) + 1
                    if outcome.startswith("match") or (detail and (detail.get("spec_solutions") or detail.get("expected"))):
                        positive = True      # the specification has an instance for this pair
                    if kind is not None:
                        mk = (pc, kind, remove)
                        if (detail or {}).get("label"):
                            feats, small_s = detail["label"], None
                        else:
                            if mk not in memo:
                                small = minimise(pat, host, root, remove, kind, others=hostlist)
                                memo[mk] = (",".join(G.features(small)), G.show_pattern(small))
                            feats, small_s = memo[mk]
                        key = f"C06|{kind}|{feats}"
                        v = viols.setdefault(key, {"key": key, "n": 0, "detail": dict(
                            detail or {}, pattern=G.show_pattern(pat), minimal_pattern=small_s, host=host.fh.show(),
                            root=host.fh.nodes[root][0], check_nodes_are_removable=remove,
                            replay={"pn": pn, "hk": hk, "kind": "rep", "ps": [pc], "hs": [hc]})})
                        v["n"] += 1
                counts["spec_evaluations"] += 1
            if positive:
                counts["positive_pairs"] = counts.get("positive_pairs", 0) + 1
                nkeys.add(f"p{pn}:{pc}")
                nkeys.add(f"h{hk}:{hc}")
        if len(pat["outs"]) >= 2 or pat.get("commute"):
            # history: the SAME Pattern/matcher objects on the SAME ir.Graph object that is edited in place between the
            # calls (what a rewrite pass does): host h_i is matched at every root, the graph is rebuilt in place into
            # h_j (consecutive hosts of the item, both orders when the node counts agree), and every root is judged again
            for i in range(len(hosts) - 1):
                for (c1, h1), (c2, h2) in ((hosts[i], hosts[i + 1]), (hosts[i + 1], hosts[i])):
                    if len(h1.fh.nodes) != len(h2.fh.nodes):
                        continue
                    ha = _Host(_host_from(hk, c1))
                    ha.nodes_by_idx = list(ha.graph)
                    for root in range(len(ha.fh.nodes)):
                        _run(impl, ha, root, False)
                    hb = _Host(_host_from(hk, c2), into=(ha.model, ha.graph))
                    hb.nodes_by_idx = list(hb.graph)
                    cache2 = {}
                    for root in range(len(hb.fh.nodes)):
                        for remove in (False, True):
                            outcome, kind, detail = judge(pat, impl, hb, root, remove, cache2)
                            counts["extra_evaluations"] += nrules
                            counts["inplace_edit_judgements"] = counts.get("inplace_edit_judgements", 0) + 1
                            if outcome.startswith("match"):
                                counts["inplace_edit_matches"] = counts.get("inplace_edit_matches", 0) + 1
                            if kind is None:
                                continue
                            # the same (pattern, host, root) judged on a freshly built graph: a failure only after the
                            # in-place edit is a history defect
                            o2, k2, _ = judge(pat, impl, h2, root, remove, {})
                            if k2 == kind:
                                continue
                            key = f"C06|history|{kind}|graph-edited-in-place-between-matches"
                            v = viols.setdefault(key, {"key": key, "n": 0, "detail": dict(
                                detail or {}, pattern=G.show_pattern(pat), host_before=h1.fh.show(), host=h2.fh.show(),
                                root=h2.fh.nodes[root][0], check_nodes_are_removable=remove, on_fresh_graph=o2,
                                replay={"pn": pn, "hk": hk, "kind": "rep", "ps": [pc], "hs": [c1, c2]})})
                            v["n"] += 1
        if show is None:
            show = G.show_pattern(pat) + "  VS  " + hosts[0][1].fh.show()
    vl = []
    for key in sorted(viols):
        v = viols[key]
        v["detail"]["cases_in_item"] = v.pop("n")
        vl.append(v)
    counts["violating_cases"] = sum(v["detail"]["cases_in_item"] for v in vl)
    for k, v in outcomes.items():
        counts["outcome:" + k] = v
    top = max(outcomes, key=outcomes.get) if outcomes else "empty"
    return {"status": "viol" if vl else "ok", "outcome": f"{item['kind']}:{top}", "nkey": sorted(nkeys), "counts": counts,
            "viols": vl, "show": show}


def summarize(items, results, tier):
    calls = sum((r.get("counts") or {}).get("extra_evaluations", 0) for r in results)
    return {"items_rep": sum(1 for i in items if i["kind"] == "rep"),
            "items_cross": sum(1 for i in items if i["kind"] == "x"),
            # every matcher call is compared with the specification
            "traces_validated_against_impl": calls,
            "bound": "per pool, see pools: (skeleton nodes, deviation bound)"}
