"""C05 rule spaces, part 4: the remaining exports of rules.common (_fuse_conv_affine,
_remove_expand_before_binary_op, _fuse_hardswish, _gemm_to_matmul_add, _matmul_add_to_gemm)."""
from __future__ import annotations

import numpy as np

from vf.props import c05_spaces as S
from vf.props.c05_s3 import _w
from vf.props.c05_spaces import Dim, MB, Skip, Space, arr

# ---------------------------------------------------------------------------------------------------
# Conv(x*s+o, w, b, pads=[0,0,0,0]) -> Conv ;  Conv(x, w, b)*s+o -> Conv
# ---------------------------------------------------------------------------------------------------
_AF_SHAPES = {"[]": [], "[1]": [1], "[1,1,1,1]": [1, 1, 1, 1], "[1,C,1,1]": None, "[1,1,1,1,1]": [1, 1, 1, 1, 1]}


def _af_dims(rule):
    return [
        Dim("sshape", list(_AF_SHAPES)),
        Dim("oshape", ["[]", "[1]", "[1,1,1,1]", "[1,1,1,1,1]", "[1,C,1,1]"]),
        Dim("pads", ["zeros", "absent", "ones"]),
        Dim("bias", ["yes", "no"]),
        Dim("sval", [2.0, 0.0, -1.5], cost=1),
        Dim("oval", [0.5, 0.0], cost=1),
        Dim("kernel", [1, 3], cost=1),
        Dim("rank", [4, 3], cost=1),
        Dim("mul_order", ["xs", "sx"], cost=1), Dim("add_order", ["mo", "om"], cost=1),
        Dim("group", [1, 2], cost=1), Dim("stride", [1, 2], cost=1), Dim("dilation", [1, 2], cost=1),
        Dim("auto_pad", ["absent", "SAME_UPPER", "VALID"], cost=1),
        Dim("dtype", ["f32", "f64"], cost=1),
        # a second instance of the pattern sharing the weight and bias initializers, with another scale
        Dim("twin", ["no", "yes"], cost=1),
        S.d_ck(4), S.d_inter(2), S.D_DIMS, S.D_VI, S.d_opset(18, 13, 21, 23),
    ]


def _af_prune(p, rule):
    if p["auto_pad"] != "absent" and p["pads"] == "ones":
        return True
    if p["ck"] in ("init_input@1", "input@1") and p["bias"] == "no":
        return True
    return False


def _af_build(p, rule):
    pre = rule["id"].startswith("affine_conv")
    dt = p["dtype"]
    d = S.npd(dt)
    r = p["rank"]
    ns = r - 2
    g = p["group"]
    C = 2 * g
    M = 2 * g
    mb = MB(p["opset"])
    xs = [2, C] + [6, 5][:ns]
    x = mb.inp("x", dt, S.shp(p, xs))
    S.bind_like(mb, xs, variants=[{"N": 1, "?0": 1}])
    k = S.kinds(p, 4)   # w, b, scale, offset
    w = mb.const(_w(dt, [M, C // g] + [p["kernel"]] * ns), k[0], alts=[_w(dt, [M, C // g] + [p["kernel"]] * ns, salt=9)])
    b = mb.const(_w(dt, [M], salt=3, scale=1.0), k[1], alts=[_w(dt, [M], salt=8, scale=1.0)]) if p["bias"] == "yes" else None
    ch = C if pre else M

    def shaped(name, v):
        sh = _AF_SHAPES[name]
        if sh is None:
            sh = [1, ch] + [1] * ns
            a = np.full(sh, v, dtype=d)
            a.reshape(-1)[-1] += d(1)
            return a
        return np.full(sh, v, dtype=d)
    sv = shaped(p["sshape"], p["sval"])
    ov = shaped(p["oshape"], p["oval"])
    s = mb.const(sv, k[2], alts=[sv + d(1)])
    o = mb.const(ov, k[3], alts=[ov + d(1)])
    attrs = {}
    if p["pads"] == "zeros":
        attrs["pads"] = [0] * (2 * ns)
    elif p["pads"] == "ones":
        attrs["pads"] = [1] * (2 * ns)
    if p["auto_pad"] != "absent":
        attrs["auto_pad"] = p["auto_pad"]
    if g != 1:
        attrs["group"] = g
    if p["stride"] != 1:
        attrs["strides"] = [p["stride"]] * ns
    if p["dilation"] != 1:
        attrs["dilations"] = [p["dilation"]] * ns

    def affine(v):
        m = mb.node("Mul", [v, s] if p["mul_order"] == "xs" else [s, v])
        a = mb.node("Add", [m, o] if p["add_order"] == "mo" else [o, m])
        return m, a
    if pre:
        m, a = affine(x)
        y = mb.node("Conv", [a, w] + ([b] if b else []), **attrs)
        mb.out(y)
    else:
        c = mb.node("Conv", [x, w] + ([b] if b else []), **attrs)
        m, a = affine(c)
        mb.out(a)
    if p["twin"] == "yes":
        s2 = mb.const(sv * d(3) + d(1), "init")
        o2 = mb.const(ov + d(2), "init")
        if pre:
            a2 = mb.node("Add", [mb.node("Mul", [x, s2]), o2])
            mb.out(mb.node("Conv", [a2, w] + ([b] if b else []), **attrs))
        else:
            c2 = mb.node("Conv", [x, w] + ([b] if b else []), **attrs)
            mb.out(mb.node("Add", [mb.node("Mul", [c2, s2]), o2]))
    S.expose(mb, p, [m, a] if pre else [c, m])
    return mb


def _af_near(p, rule):
    return p["sshape"] == "[1,C,1,1]" or p["oshape"] == "[1,C,1,1]" or S.is_nonconst(p) or p["bias"] == "no" \
        or (rule["id"].startswith("affine_conv") and p["pads"] != "zeros")


def _af_klass(nd, p, rule):
    keys = set(nd)
    if keys == {"twin"}:
        return "twin=second-instance-sharing-weight-and-bias"
    if keys & {"sshape", "oshape"} and keys <= {"sshape", "oshape", "sval", "oval", "kernel", "rank", "pads"}:
        if all(nd.get(k, "[]") in ("[]", "[1,1,1,1]", "[1,1,1,1,1]") for k in ("sshape", "oshape")):
            return "scale/offset=singleton-of-rank>1"
        return ",".join(f"{k}={nd[k]}" for k in ("sshape", "oshape") if k in nd)
    return None


S.register(Space("conv_affine", _af_dims, _af_build, near=_af_near, prune=_af_prune, klass=_af_klass, accum=True,
                 max_dev={"thorough": 1}),
           rule_ids=["affine_conv_fusion_rule", "conv_affine_fusion_rule"])


# ---------------------------------------------------------------------------------------------------
# BinaryOp(Expand(x, shape), y) -> BinaryOp(x, y)       (38 rules, one per op and operand position)
# ---------------------------------------------------------------------------------------------------
# (x shape, expand target, y shape)
_EX_CASES = {
    "y-supplies": ([3], [2, 3], [2, 3]),
    "x1-y-supplies": ([1, 3], [2, 3], [2, 3]),
    "y-too-small": ([3], [2, 3], [3]),
    "lead-ones": ([3], [1, 1, 3], [3]),
    "lead-ones-y2d": ([3], [1, 1, 3], [2, 3]),
    "noop-expand": ([2, 3], [2, 3], [1]),
    "x-scalar": ([], [2, 3], [2, 3]),
    "shape-ones": ([3], [1, 3], [2, 3]),
    "cross": ([2, 1], [2, 3], [1, 3]),
    "cross2": ([3], [2, 3], [2, 1]),
    "shape-shorter": ([2, 3], [3], [2, 3]),
    "y-scalar": ([1, 3], [2, 3], []),
    "size0": ([1], [0], [0]),
    "x1-e2-y1": ([1, 3], [2, 3], [1, 3]),
}
_EX_OPS = {
    # op: (dtypes, attribute variants)
    "Add": (["f32", "i64"], [{}]), "Sub": (["f32", "i64"], [{}]), "Mul": (["f32", "i64"], [{}]),
    "Div": (["f32", "i64"], [{}]), "Pow": (["f32"], [{}]),
    "And": (["bool"], [{}]), "Or": (["bool"], [{}]), "Xor": (["bool"], [{}]),
    "BitShift": (["u8", "u32"], [{"direction": "LEFT"}, {"direction": "RIGHT"}]),
    "BitwiseAnd": (["i32", "u8"], [{}]), "BitwiseOr": (["i32", "u8"], [{}]), "BitwiseXor": (["i32", "u8"], [{}]),
    "Equal": (["f32", "i64"], [{}]), "Greater": (["f32", "i64"], [{}]), "GreaterOrEqual": (["f32", "i64"], [{}]),
    "Less": (["f32", "i64"], [{}]), "LessOrEqual": (["f32", "i64"], [{}]),
    "Mod": (["i64", "f32"], [{}, {"fmod": 1}]),
    "PRelu": (["f32"], [{}]),
}


def _ex_parse(rule):
    name = rule["id"].split("/")[1]          # ExpandFirst_Add
    side, op = name.split("_", 1)
    return op, (0 if side == "ExpandFirst" else 1)


def _ex_dims(rule):
    op, _ = _ex_parse(rule)
    dts, attrs = _EX_OPS.get(op, (["f32"], [{}]))
    return [
        Dim("case", list(_EX_CASES)),
        # how the expand target reaches the rule: constant; runtime input with the Expand output annotated;
        # runtime input, only the binary op's output annotated; nothing annotated
        Dim("ssrc", ["const", "dyn-expand-vi", "dyn-out-vi", "dyn-no-vi"]),
        Dim("attrs", list(range(len(attrs)))),
        Dim("dtype", dts[:1], dts),
        # the leading axis of x / y / expand target: static, named symbolic, unnamed symbolic
        Dim("lead", ["static", "named-same", "named-differ", "unnamed"]),
        # runtime size of y's leading axis when it is symbolic: as declared, or 1 (then y broadcasts)
        Dim("rt", ["as-declared", "y-lead-1"]),
        S.d_ck(1), S.d_inter(1), S.d_opset(18, 13, 21, 23),
    ]


def _ex_prune(p, rule):
    op, _ = _ex_parse(rule)
    if p["ssrc"] != "const" and p["ck"] != "init":
        return True
    if p["lead"] == "static" and p["rt"] != "as-declared":
        return True
    xs, es, ys = _EX_CASES[p["case"]]
    if p["lead"] != "static" and p["case"] not in ("y-supplies", "x1-y-supplies", "x1-e2-y1"):
        return True
    if p["lead"] == "named-same" and p["rt"] != "as-declared":
        return True   # feeding y with another leading size would contradict the declared equality of the two dims
    if op.startswith("Bitwise") and p["opset"] < 18:
        return True
    if p["dtype"] == "f32" and op == "Mod" and p["attrs"] == 0:
        return True
    return False


def _ex_build(p, rule):
    op, side = _ex_parse(rule)
    dts, attr_variants = _EX_OPS[op]
    attrs = attr_variants[p["attrs"]]
    dt = p["dtype"]
    xs, es, ys = [list(v) for v in _EX_CASES[p["case"]]]
    mb = MB(p["opset"])
    lead = p["lead"]
    # declared shapes: only the leading axis of y and of the expand output may be symbolic (x keeps its static
    # shape; when x has the full rank and its leading dim equals the target it becomes symbolic as well)
    def sym(shape, name, full_rank):
        if lead == "static" or not shape or len(shape) < full_rank:
            return list(shape)
        s = list(shape)
        if s[0] == 1:
            return s
        s[0] = name if lead != "unnamed" else None
        return s
    full = max(len(es), len(xs))
    yname = "B" if lead in ("named-same", "unnamed") else "C"
    x_decl = sym(xs, "B", full) if len(xs) == full and xs and xs[0] == (es[0] if len(es) == full else None) else list(xs)
    y_decl = sym(ys, yname, len(ys)) if len(ys) >= 1 and ys[0] != 1 else list(ys)
    e_decl = sym(list(np.broadcast_shapes(tuple(xs), tuple(es))), "B", 1)
    xdt = dt
    ydt = dt
    if op == "Pow":
        ydt = dt
    x = mb.inp("x", xdt, x_decl)
    y = mb.inp("y", ydt, y_decl)
    ylead = 1 if p["rt"] == "y-lead-1" else (ys[0] if ys else 1)
    b0 = {"B": es[0] if len(es) == full and es else (xs[0] if xs else 1), "C": ys[0] if ys else 1, "?0": None}
    # feeds: x by declared/static shape, y possibly with leading 1
    def feeds_shape(shape, decl, lead_val):
        return [lead_val if (i == 0 and not isinstance(dd, int)) else s for i, (s, dd) in enumerate(zip(shape, decl))]
    xsh = feeds_shape(xs, x_decl, xs[0] if xs else 1)
    ysh = feeds_shape(ys, y_decl, ylead)
    from vf.props.c05_mb import fill
    vals_x = [fill(xdt, xsh, k=i, salt=0) for i in range(3)]
    vals_y = [fill(ydt, ysh, k=i, salt=1) for i in range(3)]
    if op in ("Div", "Mod"):
        vals_y = [np.where(v == 0, np.ones_like(v), v) for v in vals_y] if side == 0 else vals_y
        vals_x = [np.where(v == 0, np.ones_like(v), v) for v in vals_x] if side == 1 else vals_x
    if op == "BitShift":
        vals_y = [v % 5 for v in vals_y] if side == 0 else vals_y
        vals_x = [v % 5 for v in vals_x] if side == 1 else vals_x
    if op == "Pow":
        vals_x = [np.abs(v) + 0.5 for v in vals_x] if side == 0 else [np.clip(v, -2, 2) for v in vals_x]
        vals_y = [np.clip(v, -2, 2) for v in vals_y] if side == 0 else [np.abs(v) + 0.5 for v in vals_y]
    mb._feed["x"] = ("alts", [v.astype(S.npd(xdt)) for v in vals_x])
    mb._feed["y"] = ("alts", [v.astype(S.npd(ydt)) for v in vals_y])
    if p["ssrc"] == "const":
        sh = mb.const(arr("i64", es), S.kinds(p, 1)[0], alts=[arr("i64", [1] * len(es)), arr("i64", es)])
    else:
        sh = mb.inp("shape", "i64", [len(es)], values=[arr("i64", es)])
    e = mb.node("Expand", [x, sh])
    out = mb.node(op, [e, y] if side == 0 else [y, e], **attrs)
    out_shape = list(np.broadcast_shapes(tuple(np.broadcast_shapes(tuple(xs), tuple(es))), tuple(ys)))
    bool_out = op in ("Equal", "Greater", "GreaterOrEqual", "Less", "LessOrEqual")
    odt = "bool" if bool_out else dt
    o_decl = list(out_shape)
    if lead != "static" and o_decl and o_decl[0] != 1:
        o_decl[0] = "B" if lead in ("named-same", "named-differ") else None
    mb.out(out, odt, o_decl)
    if p["ssrc"] == "dyn-expand-vi":
        mb.vi_override[e] = (dt, e_decl)
    elif p["ssrc"] in ("dyn-out-vi", "dyn-no-vi"):
        mb.vi_drop.add(e)
        if p["ssrc"] == "dyn-no-vi":
            mb.out_types[out] = (odt, [None] * len(o_decl))
    S.expose(mb, p, [e])
    return mb


def _ex_near(p, rule):
    xs, es, ys = _EX_CASES[p["case"]]
    try:
        with_e = np.broadcast_shapes(tuple(np.broadcast_shapes(tuple(xs), tuple(es))), tuple(ys))
        without = np.broadcast_shapes(tuple(xs), tuple(ys))
    except ValueError:
        return True
    return tuple(with_e) != tuple(without) or p["rt"] != "as-declared" or S.is_nonconst(p) or p["ssrc"] == "dyn-no-vi"


def _ex_klass(nd, p, rule):
    if not nd and _ex_parse(rule) == ("PRelu", 0):
        return "slope-not-unidirectionally-broadcastable-to-x"
    if nd.get("lead") == "unnamed" and set(nd) <= {"lead", "rt", "ssrc", "case"}:
        return "lead=unnamed-dims-compared-equal"
    if str(nd.get("case", "")).startswith("lead-ones") and set(nd) <= {"case"}:
        return "case=expand-target-rank>both-operand-ranks"
    if "attrs" in nd and set(nd) <= {"attrs", "dtype", "case"}:
        op, _ = _ex_parse(rule)
        return "attr=" + ",".join(f"{k}:{v}" for k, v in _EX_OPS[op][1][p["attrs"]].items())
    return None


_EX_SPACE = S.register(Space("expand_before_binary_op", _ex_dims, _ex_build, near=_ex_near, prune=_ex_prune, klass=_ex_klass),
                       prefixes=["expand_before_binary_op_rules/"])
# the 38 rules are instances of two classes sharing one check function: a class of failure that does not depend
# on the operator is reported once for the whole exported rule set
_EX_SPACE.component = lambda rule, klass: ("expand_before_binary_op_rules" if klass.startswith(("lead=unnamed", "case=expand-target-rank", "ck="))
                                           else rule["id"])


# ---------------------------------------------------------------------------------------------------
# HardSigmoid / HardSwish fusions (rule set built with commute=True: 4 + 2 + 2 rule objects)
# ---------------------------------------------------------------------------------------------------
# constant classes: exact; inside the rule's own rtol=1e-4; >= 100x outside the comparison tolerance
_HS_OFF = {"exact": 0.0, "in-tol": 0.8e-4, "out-tol": 1.1e-3}


def _hs_dims(rule):
    name = rule["id"].split("/")[1].split("~")[0]
    if name == "HardSwishFusionFromHardSigmoid":
        return [
            Dim("alpha", ["1/6", "absent", "0.2", "1/6+1e-6", "1/6*(1+2e-3)"]),
            Dim("beta", ["0.5", "absent", "0.5+4e-6", "0.5005"]),
            Dim("mul_order", ["hx", "xh"]),
            Dim("other", ["same-x", "other-tensor"]),
            Dim("dtype", ["f32", "f64"], ["f32", "f64", "f16"]),
            S.d_inter(1), S.D_DIMS, S.D_VI, S.d_opset(18, 13, 14, 21, 23),
        ]
    return [
        # which constant deviates from (3, 0, 6, 6) and how: inside the rule's own rtol=1e-4 / >=100x outside the
        # comparison tolerance / special zeros
        Dim("cdev", ["none", "bias:in-tol", "bias:out-tol", "cmin:tiny", "cmin:out-tol", "cmin:negzero",
                     "cmax:in-tol", "cmax:out-tol", "div:in-tol", "div:out-tol", "all:in-tol"]),
        Dim("add_order", ["xb", "bx"]), Dim("mul_order", ["cx", "xc"]),
        Dim("dtype", ["f32", "f64"], ["f32", "f64", "f16"]),
        Dim("other", ["same-x", "other-tensor"], cost=1),
        Dim("cshape", ["[]", "[1]-bias-div", "[1,1,1]-bias"], cost=1),
        S.d_ck(4), S.d_inter(3), S.D_DIMS, S.D_VI, S.d_opset(18, 13, 14, 21, 23),
    ]


def _hs_consts(p):
    c = {"bias": "exact", "cmin": "exact", "cmax": "exact", "div": "exact"}
    dev = p["cdev"]
    if dev != "none":
        who, how = dev.split(":")
        for k in (list(c) if who == "all" else [who]):
            if who == "all" and k == "cmin":
                continue
            c[k] = how
    return c


def _hs_val(base, klass, sign=1):
    return base * (1 + sign * _HS_OFF[klass]) if base else _HS_OFF[klass]


def _hs_build(p, rule):
    name = rule["id"].split("/")[1].split("~")[0]
    dt = p["dtype"]
    d = S.npd(dt)
    mb = MB(p["opset"])
    xs = [2, 3]
    x = mb.inp("x", dt, S.shp(p, xs))
    S.bind_like(mb, xs, variants=[{"N": 1, "?0": 1}])
    other = x if p["other"] == "same-x" else mb.inp("z", dt, xs)
    if name == "HardSwishFusionFromHardSigmoid":
        attrs = {}
        a = {"1/6": 1 / 6, "0.2": 0.2, "1/6+1e-6": 1 / 6 + 1e-6, "1/6*(1+2e-3)": (1 / 6) * 1.002}.get(p["alpha"])
        b = {"0.5": 0.5, "0.5+4e-6": 0.5 + 4e-6, "0.5005": 0.5005}.get(p["beta"])
        if a is not None:
            attrs["alpha"] = float(a)
        if b is not None:
            attrs["beta"] = float(b)
        h = mb.node("HardSigmoid", [x], **attrs)
        mb.out(mb.node("Mul", [h, other] if p["mul_order"] == "hx" else [other, h]))
        S.expose(mb, p, [h])
        return mb
    k = S.kinds(p, 4)   # bias, cmin, cmax, div
    bshape = {"[]": [], "[1]-bias-div": [1], "[1,1,1]-bias": [1, 1, 1]}[p["cshape"]]
    dshape = [1] if p["cshape"] == "[1]-bias-div" else []
    cc = _hs_consts(p)
    bias = mb.const(np.full(bshape, _hs_val(3.0, cc["bias"]), dtype=d), k[0], alts=[np.full(bshape, 1.0, dtype=d)])
    cmin_v = {"exact": 0.0, "tiny": 1e-9, "out-tol": 1e-2, "negzero": -0.0}[cc["cmin"]]
    cmin = mb.const(np.array(cmin_v, dtype=d), k[1], alts=[np.array(1.0, dtype=d)])
    cmax = mb.const(np.array(_hs_val(6.0, cc["cmax"], -1), dtype=d), k[2], alts=[np.array(4.0, dtype=d)])
    div = mb.const(np.full(dshape, _hs_val(6.0, cc["div"]), dtype=d), k[3], alts=[np.full(dshape, 3.0, dtype=d)])
    add = mb.node("Add", [x, bias] if p["add_order"] == "xb" else [bias, x])
    clip = mb.node("Clip", [add, cmin, cmax])
    if name == "HardSwishFusion":
        mul = mb.node("Mul", [clip, other] if p["mul_order"] == "cx" else [other, clip])
        mb.out(mb.node("Div", [mul, div]))
        S.expose(mb, p, [add, clip, mul])
    else:
        if p["mul_order"] != "cx" or p["other"] != "same-x":
            raise Skip("no Mul in the HardSigmoid pattern")
        mb.out(mb.node("Div", [clip, div]))
        S.expose(mb, p, [add, clip, None])
    return mb


def _hs_near(p, rule):
    name = rule["id"].split("/")[1].split("~")[0]
    if name == "HardSwishFusionFromHardSigmoid":
        return p["alpha"] != "1/6" or p["beta"] != "0.5" or p["other"] != "same-x"
    return p["cdev"] not in ("none", "cmin:negzero") or p["other"] != "same-x" or S.is_nonconst(p)


def _hs_klass(nd, p, rule):
    # add_order / mul_order only select which commuted copy of the rule can match: never part of the class
    nd = {k: v for k, v in nd.items() if k not in ("add_order", "mul_order")}
    ks = set(nd)
    if str(nd.get("cdev", "")).endswith(":in-tol") and ks <= {"cdev", "dtype"}:
        return "const=within-rule-rtol-1e-4"
    if ks and ks <= {"alpha", "beta", "dtype"} and (nd.get("alpha") == "1/6+1e-6" or nd.get("beta") == "0.5+4e-6"):
        return "attr=within-np.isclose"
    return ",".join(f"{k}={v}" for k, v in nd.items()) or "default"


_HS_SPACE = S.register(Space("hardswish", _hs_dims, _hs_build, near=_hs_near, klass=_hs_klass, max_dev={"thorough": 1}),
                       prefixes=["fuse_hardswish_rules/"])
# commuted copies (~2, ~3, ~4) of one rule class report under the class name
_HS_SPACE.component = lambda rule, klass: rule["id"].split("~")[0]


# ---------------------------------------------------------------------------------------------------
# Reshape(Gemm(Reshape(a), b, c, alpha=1, beta=1)) -> Add(MatMul(a, b), c)
# ---------------------------------------------------------------------------------------------------
_GM_CASES = {
    # a shape, reshape target, b shape, final shape
    "3d": ([2, 3, 4], [6, 4], [4, 5], [2, 3, 5]),
    "2d-same": ([6, 4], [6, 4], [4, 5], [6, 5]),
    "3d-keep2d": ([2, 3, 4], [6, 4], [4, 5], [6, 5]),
    "4d": ([2, 1, 3, 4], [6, 4], [4, 5], [2, 1, 3, 5]),
    "regroup": ([3, 2, 4], [6, 4], [4, 5], [2, 3, 5]),
}
_GM_C = {"[N]": [5], "[M,N]": [6, 5], "[1,N]": [1, 5], "[1]": [1], "[]": [], "[M,1]": [6, 1], "absent": None}


_GM_ATTRS = {
    "a1b1": {"alpha": 1.0, "beta": 1.0}, "no-alpha": {"beta": 1.0}, "no-beta": {"alpha": 1.0}, "none": {},
    "alpha2": {"alpha": 2.0, "beta": 1.0}, "beta.5": {"alpha": 1.0, "beta": 0.5},
    "alpha1+1e-6": {"alpha": 1 + 1e-6, "beta": 1.0}, "beta1+1e-6": {"alpha": 1.0, "beta": 1 + 1e-6},
    "transB1": {"alpha": 1.0, "beta": 1.0, "transB": 1}, "transB0": {"alpha": 1.0, "beta": 1.0, "transB": 0},
    "transA0": {"alpha": 1.0, "beta": 1.0, "transA": 0},
}


def _gm_dims(rule):
    return [
        Dim("case", list(_GM_CASES)),
        Dim("C", ["[N]", "[M,N]", "[1,N]", "[]", "[M,1]", "absent"], list(_GM_C)),
        Dim("attrs", list(_GM_ATTRS)),
        Dim("dtype", ["f32", "f64"]),
        Dim("csrc", ["init", "input"], cost=1),
        S.d_ck(2), S.d_inter(2), S.D_DIMS, S.D_VI, S.d_opset(18, 13, 21, 23),
    ]


def _gm_prune(p, rule):
    return False


def _gm_build(p, rule):
    a, ra, b, rc = [list(v) for v in _GM_CASES[p["case"]]]
    dt = p["dtype"]
    d = S.npd(dt)
    mb = MB(p["opset"])
    A = mb.inp("a", dt, S.shp(p, a))
    S.bind_like(mb, a)
    attrs = dict(_GM_ATTRS[p["attrs"]])
    bs = b[::-1] if attrs.get("transB") == 1 else b
    B = mb.inp("b", dt, bs)
    k = S.kinds(p, 2)
    sa = mb.const(arr("i64", ra), k[0], alts=[arr("i64", ra)])
    r1 = mb.node("Reshape", [A, sa])
    ins = [r1, B]
    cs = _GM_C[p["C"]]
    if cs is not None:
        cv = _w(dt, cs, salt=3, scale=1.0)
        ins.append(mb.const(cv, "init") if p["csrc"] == "init" else mb.inp("c", dt, cs))
    gm = mb.node("Gemm", ins, **attrs)
    sc = mb.const(arr("i64", rc), k[1], alts=[arr("i64", [int(np.prod(rc))])])
    mb.out(mb.node("Reshape", [gm, sc]))
    S.expose(mb, p, [r1, gm])
    return mb


def _gm_near(p, rule):
    return p["attrs"] not in ("a1b1", "transB0", "transA0") or p["C"] in ("[M,N]", "[M,1]", "absent") \
        or S.is_nonconst(p) or p["case"] == "regroup"


def _gm_klass(nd, p, rule):
    ks = set(nd)
    if "C" in ks and ks <= {"C", "case"}:
        return "C=" + nd["C"]
    return None


S.register(Space("gemm_to_matmul_add", _gm_dims, _gm_build, near=_gm_near, prune=_gm_prune, klass=_gm_klass, accum=True,
                 max_dev={"thorough": 1}),
           rule_ids=["gemm_to_matmul_add_rule"])


# ---------------------------------------------------------------------------------------------------
# Add(MatMul(a, b), c) [with Transpose(perm=[1,0]) on a and/or b] -> Gemm
# ---------------------------------------------------------------------------------------------------
_MA_C = {"[N]": [5], "[M,N]": [3, 5], "[1,N]": [1, 5], "[M,1]": [3, 1], "[1]": [1], "[]": [],
         "[2,M,N]": [2, 3, 5], "[1,M,N]": [1, 3, 5], "[1,1,N]": [1, 1, 5], "[4M,N]-with-M=1": [4, 5]}


def _ma_dims(rule):
    return [
        Dim("C", list(_MA_C)),
        Dim("arank", [2, 3, 1]), Dim("brank", [2, 3, 1]),
        Dim("perm", ["[1,0]", "absent"], cost=1),
        Dim("add_order", ["mc", "cm"]),
        Dim("csrc", ["init", "input"], cost=1),
        Dim("dtype", ["f32", "f64", "i32"], cost=1),
        S.d_inter(3), S.D_DIMS, S.D_VI, S.d_opset(18, 13, 21, 23),
    ]


def _ma_flags(rule):
    rid = rule["id"]
    return ("transpose_a_" in rid or "transpose_ab_" in rid), ("transpose_b_" in rid or "transpose_ab_" in rid)


def _ma_prune(p, rule):
    ta, tb = _ma_flags(rule)
    if (ta and p["arank"] != 2) or (tb and p["brank"] != 2):
        return p["arank"] != 2 and ta or p["brank"] != 2 and tb
    if not ta and not tb and p["perm"] != "[1,0]":
        return True
    if p["arank"] == 1 and p["brank"] == 1:
        return True
    return False


def _ma_build(p, rule):
    ta, tb = _ma_flags(rule)
    dt = p["dtype"]
    mb = MB(p["opset"])
    M, K, N = (1 if p["C"] == "[4M,N]-with-M=1" else 3), 4, 5
    ash = {2: [M, K], 3: [2, M, K], 1: [K]}[p["arank"]]
    bsh = {2: [K, N], 3: [2, K, N], 1: [K]}[p["brank"]]
    if ta:
        ash = ash[::-1]
    if tb:
        bsh = bsh[::-1]
    a = mb.inp("a", dt, S.shp(p, ash, sym_axes=(1,) if ta else (0,)))
    S.bind_like(mb, ash, sym_axes=(1,) if ta else (0,))
    b = mb.inp("b", dt, bsh)
    pa = {} if p["perm"] == "absent" else {"perm": [1, 0]}
    a2 = mb.node("Transpose", [a], **pa) if ta else a
    b2 = mb.node("Transpose", [b], **pa) if tb else b
    mm = mb.node("MatMul", [a2, b2])
    cs = list(_MA_C[p["C"]])
    cv = _w(dt, cs, salt=3, scale=1.0)
    c = mb.const(cv, "init") if p["csrc"] == "init" else mb.inp("c", dt, cs)
    mb.out(mb.node("Add", [mm, c] if p["add_order"] == "mc" else [c, mm]))
    S.expose(mb, p, [mm, a2 if ta else None, b2 if tb else None])
    return mb


def _ma_near(p, rule):
    return p["C"] in ("[2,M,N]", "[1,M,N]", "[1,1,N]", "[4M,N]-with-M=1") or p["arank"] != 2 or p["brank"] != 2 \
        or p["perm"] == "absent" or p["add_order"] == "cm"


def _ma_klass(nd, p, rule):
    if "C" in nd and set(nd) <= {"C", "csrc", "dtype"}:
        return "C=not-unidirectionally-broadcastable-to-[M,N]"
    return None


S.register(Space("matmul_add_to_gemm", _ma_dims, _ma_build, near=_ma_near, prune=_ma_prune, klass=_ma_klass, accum=True),
           rule_ids=["matmul_add_to_gemm_rule", "transpose_a_matmul_add_to_gemm_rule",
                     "transpose_b_matmul_add_to_gemm_rule", "transpose_ab_matmul_add_to_gemm_rule"])
