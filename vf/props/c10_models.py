"""Model builder for C10 (opset version conversion).

``build(spec) -> (onnx.ModelProto, feeds_list)``: a small model at source opset ``spec["s"]`` holding one *focus*
op (DFT / GridSample / GroupNormalization in the form valid at that opset, or an op that needs no adapter) placed
in the main graph, in an ``If`` branch, or in a model-local function, followed by a fixed tail of unchanged ops
(``Add`` with an initializer, optionally ``ReduceSum`` of a big initializer).  Everything is deterministic; no
onnxscript code is used here (only onnx.helper / numpy).
"""
from __future__ import annotations

import numpy as np
import onnx
from onnx import TensorProto as TP
from onnx import helper as oh
from onnx import numpy_helper as nph

IR_FOR_OPSET = {18: 8, 19: 9, 20: 9, 21: 10, 22: 10, 23: 11, 24: 12, 25: 13}

FOCUS_OPS = ["DFT", "GridSample", "GroupNormalization", "Relu", "Add", "Reshape", "Resize", "Cast", "ReduceSum"]
PLACES = ["main", "if_inner", "if_outer", "func", "func_if"]
INITS = ["plain", "overridable", "big", "big_overridable"]
NAMES = ["plain", "val"]                         # "val": outer values named like generated names (val_0, val_1, ...)

# -- per-op parameter menus (entry 0 = default) ------------------------------------------------------------
DFT_AXIS = ["1", "absent", "-2", "2"]          # "2" needs rank 4
DFT_KIND = ["forward", "inverse", "onesided"]
DFT_LEN = ["absent", "init"]
DFT_RANK = [3, 4]
DFT_AXIS_SRC = ["init", "constant"]            # s >= 20 only: where the axis *input* comes from

GS_MODE_OLD = ["bilinear", "absent", "bicubic", "nearest"]
GS_MODE_NEW = ["linear", "absent", "cubic", "nearest"]
GS_PAD = ["absent", "zeros", "border", "reflection"]
GS_ALIGN = ["absent", "0", "1"]

GN_GROUPS = ["G2C4", "G4C4", "G1C4"]            # num_groups vs channels (old form: scale has G entries)
GN_XSHAPE = ["static", "sym_channel", "sym_batch", "unknown"]
GN_SCALE_SRC = ["init", "input", "input_unknown"]


def _f32(shape, k=0):
    n = int(np.prod(shape)) if shape else 1
    a = (np.arange(n, dtype=np.float32) * 0.37 + 0.11 * k) % 2.3 - 1.05
    if k % 2:
        a = -a[::-1] * 1.3
    return a.reshape(shape).astype(np.float32)


def _vi(name, elem, shape):
    if shape is None:
        t = oh.make_tensor_type_proto(elem, None)
        return oh.make_value_info(name, t)
    return oh.make_tensor_value_info(name, elem, shape)


class _B:
    """Collects the pieces of one model."""

    def __init__(self, s):
        self.s = s
        self.inputs = []       # ValueInfoProto (main graph)
        self.inits = []        # TensorProto (main graph)
        self.feeds = {}        # name -> list of arrays (one per pattern)
        self.focus_nodes = []  # nodes making value "y"
        self.focus_inits = []  # TensorProto operands of the focus op (may move into a subgraph)
        self.focus_values = []  # names of main-graph values the focus nodes read (function inputs)
        self.else_src = None   # a float or int main-graph input for the else branch
        self.out_rank = None   # rank of value "y"
        self.pre_nodes = []    # main-graph nodes producing shape-less operands (always in the main graph)

    def add_input(self, name, elem, shape, arrays):
        self.inputs.append(_vi(name, elem, shape))
        self.feeds[name] = arrays


def _focus_dft(b, cfg):
    s = b.s
    rank = cfg.get("rank", 3)
    kind = cfg.get("kind", "forward")
    axis = cfg.get("axis", "1")
    last = 2 if kind == "inverse" else 1
    shape = [1, 4, last] if rank == 3 else [1, 3, 4, last]
    b.add_input("x", TP.FLOAT, shape, [_f32(shape, 0), _f32(shape, 1)])
    b.else_src = "x"
    b.out_rank = rank
    attrs = {}
    if kind == "inverse":
        attrs["inverse"] = 1
    if kind == "onesided":
        attrs["onesided"] = 1
    ins = ["x"]
    b.focus_values = ["x"]
    if cfg.get("len", "absent") == "init":
        b.focus_inits.append(nph.from_array(np.array(5, dtype=np.int64), "dlen"))
        ins.append("dlen")
        b.focus_values.append("dlen")
    if s < 20:
        if axis != "absent":
            attrs["axis"] = int(axis)
        b.focus_nodes.append(oh.make_node("DFT", ins, ["y"], **attrs))
    else:
        if axis != "absent":
            if len(ins) == 1:
                ins.append("")
            if cfg.get("axis_src", "init") == "init":
                b.focus_inits.append(nph.from_array(np.array(int(axis), dtype=np.int64), "dax"))
                b.focus_values.append("dax")
            else:
                b.focus_nodes.append(oh.make_node("Constant", [], ["dax"], value_int=int(axis)))
            ins.append("dax")
        b.focus_nodes.append(oh.make_node("DFT", ins, ["y"], **attrs))


def _focus_gridsample(b, cfg):
    s = b.s
    b.add_input("x", TP.FLOAT, [1, 1, 3, 4], [_f32([1, 1, 3, 4], 0), _f32([1, 1, 3, 4], 1)])
    g0 = (_f32([1, 2, 2, 2], 2) * 1.15).astype(np.float32)
    g1 = (_f32([1, 2, 2, 2], 3) * 0.9).astype(np.float32)
    b.add_input("grid", TP.FLOAT, [1, 2, 2, 2], [g0, g1])
    b.else_src = "x"
    b.out_rank = 4
    b.focus_values = ["x", "grid"]
    attrs = {}
    mode = cfg.get("mode", "bilinear" if s < 20 else "linear")
    if mode != "absent":
        attrs["mode"] = mode
    pad = cfg.get("pad", "absent")
    if pad != "absent":
        attrs["padding_mode"] = pad
    al = cfg.get("align", "absent")
    if al != "absent":
        attrs["align_corners"] = int(al)
    b.focus_nodes.append(oh.make_node("GridSample", ["x", "grid"], ["y"], **attrs))


def _focus_groupnorm(b, cfg):
    s = b.s
    g = cfg.get("groups", "G2C4")
    G = {"G2C4": 2, "G4C4": 4, "G1C4": 1}[g]
    C = 4
    xs = cfg.get("xshape", "static")
    shape = {"static": [2, C, 3], "sym_channel": [2, "C", 3], "sym_batch": ["N", C, 3], "unknown": [2, C, 3]}[xs]
    xin = "x_in" if xs == "unknown" else "x"
    b.add_input(xin, TP.FLOAT, shape, [_f32([2, C, 3], 0), _f32([2, C, 3], 1)])
    if xs == "unknown":
        # the checker demands a shape on graph inputs; an intermediate value without value_info has none
        b.pre_nodes.append(oh.make_node("Identity", ["x_in"], ["x"]))
    b.else_src = "x"
    b.out_rank = 3
    n = G if s < 21 else C
    scale = (np.arange(n, dtype=np.float32) * 0.5 + 0.75).astype(np.float32)
    bias = (np.arange(n, dtype=np.float32) * -0.25 + 0.1).astype(np.float32)
    src = cfg.get("scale_src", "init")
    if src == "init":
        b.focus_inits.append(nph.from_array(scale, "gscale"))
        b.focus_inits.append(nph.from_array(bias, "gbias"))
    else:
        sfx = "" if src == "input" else "_in"
        b.add_input("gscale" + sfx, TP.FLOAT, [n], [scale, scale[::-1].copy()])
        b.add_input("gbias" + sfx, TP.FLOAT, [n], [bias, bias * 2])
        if sfx:
            b.pre_nodes.append(oh.make_node("Identity", ["gscale_in"], ["gscale"]))
            b.pre_nodes.append(oh.make_node("Identity", ["gbias_in"], ["gbias"]))
    b.focus_values = ["x", "gscale", "gbias"]
    b.focus_nodes.append(oh.make_node("GroupNormalization", ["x", "gscale", "gbias"], ["y"], num_groups=G))


def _focus_plain(b, cfg, op):
    if op == "Relu":
        b.add_input("x", TP.FLOAT, [2, 3], [_f32([2, 3], 0), _f32([2, 3], 1)])
        b.focus_values = ["x"]
        b.focus_nodes.append(oh.make_node("Relu", ["x"], ["y"]))
    elif op == "Add":
        b.add_input("x", TP.FLOAT, [2, 3], [_f32([2, 3], 0), _f32([2, 3], 1)])
        b.add_input("x2", TP.FLOAT, [3], [_f32([3], 2), _f32([3], 3)])
        b.focus_values = ["x", "x2"]
        b.focus_nodes.append(oh.make_node("Add", ["x", "x2"], ["y"]))
    elif op == "Reshape":
        b.add_input("x", TP.FLOAT, [2, 3, 2], [_f32([2, 3, 2], 0), _f32([2, 3, 2], 1)])
        b.focus_inits.append(nph.from_array(np.array([0, -1], dtype=np.int64), "rshape"))
        b.focus_values = ["x", "rshape"]
        b.focus_nodes.append(oh.make_node("Reshape", ["x", "rshape"], ["y"]))
    elif op == "Resize":
        b.add_input("x", TP.FLOAT, [1, 1, 2, 2], [_f32([1, 1, 2, 2], 0), _f32([1, 1, 2, 2], 1)])
        b.focus_inits.append(nph.from_array(np.array([1, 1, 2, 2], dtype=np.float32), "rscales"))
        b.focus_values = ["x", "rscales"]
        b.focus_nodes.append(oh.make_node("Resize", ["x", "", "rscales"], ["y"], mode="nearest"))
    elif op == "Cast":
        a0 = np.array([[1, -2, 3], [40, 5, -6]], dtype=np.int64)
        b.add_input("x", TP.INT64, [2, 3], [a0, a0[::-1].copy() * 3])
        b.focus_values = ["x"]
        b.focus_nodes.append(oh.make_node("Cast", ["x"], ["y"], to=TP.FLOAT))
    elif op == "ReduceSum":
        b.add_input("x", TP.FLOAT, [2, 3, 2], [_f32([2, 3, 2], 0), _f32([2, 3, 2], 1)])
        b.focus_inits.append(nph.from_array(np.array([-1], dtype=np.int64), "raxes"))
        b.focus_values = ["x", "raxes"]
        b.focus_nodes.append(oh.make_node("ReduceSum", ["x", "raxes"], ["y"], keepdims=0))
    else:
        raise ValueError(op)
    b.else_src = "x"
    b.out_rank = {"Relu": 2, "Add": 2, "Reshape": 2, "Resize": 4, "Cast": 2, "ReduceSum": 2}[op]


def valid_spec(spec):
    """False when the parameter combination does not denote a model (used by the driver to prune)."""
    op, cfg, s = spec["op"], spec.get("cfg", {}), spec["s"]
    if op == "DFT":
        if cfg.get("axis") == "2" and cfg.get("rank", 3) != 4:
            return False
        if s < 20 and "axis_src" in cfg and cfg["axis_src"] != "init":
            return False
        if s >= 20 and cfg.get("axis", "1") == "absent" and cfg.get("axis_src", "init") != "init":
            return False
    if op == "GridSample":
        m = cfg.get("mode", "bilinear" if s < 20 else "linear")
        if s < 20 and m in ("linear", "cubic"):
            return False
        if s >= 20 and m in ("bilinear", "bicubic"):
            return False
    return True


def build(spec):
    s = spec["s"]
    op = spec["op"]
    cfg = spec.get("cfg", {})
    place = spec.get("place", "main")
    inits_kind = spec.get("inits", "plain")
    b = _B(s)
    if op == "DFT":
        _focus_dft(b, cfg)
    elif op == "GridSample":
        _focus_gridsample(b, cfg)
    elif op == "GroupNormalization":
        _focus_groupnorm(b, cfg)
    else:
        _focus_plain(b, cfg, op)

    nodes = []
    functions = []
    opsets = [oh.make_opsetid("", s)]
    needs_cond = place in ("if_inner", "if_outer", "func_if")
    if needs_cond:
        b.add_input("cond", TP.BOOL, [], [np.array(True), np.array(False)])

    rank_shape = [None] * b.out_rank

    def if_node(then_nodes, then_inits, out_name, else_in):
        then_g = oh.make_graph(then_nodes, "then_g", [], [_vi("y_t", TP.FLOAT, rank_shape)], initializer=then_inits)
        else_nodes = [oh.make_node("Cast", [else_in], ["e_c"], to=TP.FLOAT), oh.make_node("Neg", ["e_c"], ["e_n"]),
                      oh.make_node("Constant", [], ["e_s"], value_ints=[-1] + [1] * (b.out_rank - 1)),
                      oh.make_node("Reshape", ["e_n", "e_s"], ["y_e"])]
        else_g = oh.make_graph(else_nodes, "else_g", [], [_vi("y_e", TP.FLOAT, rank_shape)])
        return oh.make_node("If", ["cond"], [out_name], then_branch=then_g, else_branch=else_g)

    def renamed(ns, old, new):
        out = []
        for n in ns:
            m = onnx.NodeProto()
            m.CopyFrom(n)
            for i, o in enumerate(m.output):
                if o == old:
                    m.output[i] = new
            out.append(m)
        return out

    nodes += b.pre_nodes
    if place == "main":
        nodes += b.focus_nodes
        b.inits += b.focus_inits
    elif place == "if_inner":
        nodes.append(if_node(renamed(b.focus_nodes, "y", "y_t"), list(b.focus_inits), "y", b.else_src))
    elif place == "if_outer":
        nodes.append(if_node(renamed(b.focus_nodes, "y", "y_t"), [], "y", b.else_src))
        b.inits += b.focus_inits
    elif place in ("func", "func_if"):
        b.inits += b.focus_inits
        fin = list(b.focus_values)
        if place == "func":
            fnodes = list(b.focus_nodes)
        else:
            fin.append("cond")
            fnodes = [if_node(renamed(b.focus_nodes, "y", "y_t"), [], "y", b.else_src)]
        functions.append(oh.make_function("local", "F", fin, ["y"], fnodes, [oh.make_opsetid("", s)]))
        nodes.append(oh.make_node("F", fin, ["y"], domain="local"))
        opsets.append(oh.make_opsetid("local", 1))
    else:
        raise ValueError(place)

    # tail of unchanged ops
    c0 = nph.from_array(np.array([0.5], dtype=np.float32), "c0")
    b.inits.append(c0)
    if inits_kind == "overridable":
        b.inputs.append(_vi("c0", TP.FLOAT, [1]))
        b.feeds["c0"] = [None, np.array([-2.0], dtype=np.float32)]   # None: do not feed (use the default)
    if inits_kind in ("big", "big_overridable"):
        big = ((np.arange(1100, dtype=np.float32) % 7) - 3.0) * 0.01
        b.inits.append(nph.from_array(big.astype(np.float32), "big"))
        if inits_kind == "big_overridable":
            # the >1000-element initializer is also a graph input (keep_initializers_as_inputs style): the C-API
            # fallback strips big tensors before conversion and has to give every one of them its value back
            b.inputs.append(_vi("big", TP.FLOAT, [1100]))
            b.feeds["big"] = [None, (big[::-1] * 2.0).astype(np.float32)]
        nodes.append(oh.make_node("ReduceSum", ["big"], ["bs"], keepdims=1))
        nodes.append(oh.make_node("Add", ["y", "bs"], ["y2"]))
        nodes.append(oh.make_node("Add", ["y2", "c0"], ["out"]))
    else:
        nodes.append(oh.make_node("Add", ["y", "c0"], ["out"]))

    graph = oh.make_graph(nodes, "g", b.inputs, [_vi("out", TP.FLOAT, rank_shape)], initializer=b.inits)
    model = oh.make_model(graph, opset_imports=opsets, functions=functions, ir_version=IR_FOR_OPSET[s],
                          producer_name="c10")
    # feeds: pattern 0 and pattern 1 (for cond: True then False)
    feeds_list = []
    for k in range(2):
        f = {}
        for name, arrs in b.feeds.items():
            a = arrs[k]
            if a is not None:
                f[name] = a
        feeds_list.append(f)
    if needs_cond:
        # also the other polarity with pattern 0 data
        f = dict(feeds_list[0])
        f["cond"] = np.array(False)
        feeds_list.append(f)
        f = dict(feeds_list[1])
        f["cond"] = np.array(True)
        feeds_list.append(f)
    if spec.get("names", "plain") == "val":
        model, feeds_list = _rename_like_generated(model, feeds_list)
    return model, feeds_list


def _rename_like_generated(model, feeds_list):
    """Every value defined in the main graph (inputs, initializers, node outputs) and in each function body is renamed
    val_0, val_1, ... - the names onnx_ir's name authority (and the torch exporter) generate - so that a value
    created later by an adapter inside a subgraph can collide with a visible outer name.  Subgraph-local names stay."""
    def scope_names(inputs, inits, nodes):
        names = list(inputs) + list(inits)
        for n in nodes:
            names += [o for o in n.output if o]
        seen, out = set(), []
        for n in names:
            if n not in seen:
                seen.add(n)
                out.append(n)
        return out

    def apply(nodes, mp):
        for n in nodes:
            for i, x in enumerate(n.input):
                if x in mp:
                    n.input[i] = mp[x]
            for i, x in enumerate(n.output):
                if x in mp:
                    n.output[i] = mp[x]
            for a in n.attribute:
                if a.type == onnx.AttributeProto.GRAPH:
                    apply_graph(a.g, mp)
                elif a.type == onnx.AttributeProto.GRAPHS:
                    for g2 in a.graphs:
                        apply_graph(g2, mp)

    def apply_graph(g2, mp):
        # inside a subgraph only references to outer names are in ``mp`` (local names are distinct by construction)
        apply(g2.node, mp)
        for o in g2.output:
            if o.name in mp:
                o.name = mp[o.name]

    m = onnx.ModelProto()
    m.CopyFrom(model)
    g = m.graph
    mp = {n: f"val_{i}" for i, n in enumerate(scope_names([i.name for i in g.input], [t.name for t in g.initializer], g.node))}
    for vi_ in list(g.input) + list(g.output) + list(g.value_info):
        if vi_.name in mp:
            vi_.name = mp[vi_.name]
    for t in g.initializer:
        t.name = mp[t.name]
    apply(g.node, mp)
    for f in m.functions:
        fmp = {n: f"val_{i}" for i, n in enumerate(scope_names(list(f.input), [], f.node))}
        for i, x in enumerate(f.input):
            f.input[i] = fmp[x]
        for i, x in enumerate(f.output):
            f.output[i] = fmp.get(x, x)
        apply(f.node, fmp)
    return m, [{mp.get(k, k): v for k, v in fd.items()} for fd in feeds_list]
