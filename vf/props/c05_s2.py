"""C05 rule spaces, part 2: _basic_rules, _redundant_scatter_nd (optimizer default set, in order)."""
from __future__ import annotations

import itertools

import numpy as np

from vf.props import c05_spaces as S
from vf.props.c05_mb import ONNX_DT
from vf.props.c05_spaces import Dim, MB, Skip, Space, arr

INT64_MAX = 9223372036854775807

_CAST_T = ["f32", "f16", "f64", "i64", "i32", "u8", "bool", "bf16", "i8", "i16", "u32", "u64"]
# values incl. fractional, negative, out-of-range for f16 / u8 / i32
_CAST_X = {
    "f32": [0.5, -1.5, 2.5, 70000.0, -70000.0, 1e-8, 65504.0, 3.3, 0.0, 255.9, 1.0009765625, 2049.0],
    "f64": [0.5, -1.5, 2.5, 70000.0, -70000.0, 1e-8, 65504.0, 3.3, 0.0, 255.9, 1.00048828125 + 2 ** -30, 2049.0],
    "f16": [0.5, -1.5, 2.5, 60000.0, -60000.0, 6e-8, 3.3, 0.0, 255.9, 1.0, -0.0, 2048.0],
    "i64": [0, 1, -1, 70000, -70000, 2049, 2 ** 24 + 1, 255, 256, 3, -3, 2 ** 40],
    "i32": [0, 1, -1, 70000, -70000, 2049, 2 ** 24 + 1, 255, 256, 3, -3, 2 ** 30],
    "u8": [0, 1, 2, 255, 128, 127, 3, 4, 5, 6, 7, 8],
    "bool": [True, False, True, True, False, False, True, False, True, False, True, True],
    "bf16": None,
    # narrow signed and wide unsigned integers (a signed -> unsigned cast of at least the same width is NOT lossless:
    # negatives wrap; seeded C03h)
    "i8": [0, 1, -1, 127, -128, 100, -100, 3, -3, 5, -2, 64],
    "i16": [0, 1, -1, 32767, -32768, 300, -300, 255, 256, 3, -3, 2049],
    "u32": [0, 1, 2, 2 ** 32 - 1, 2 ** 31, 70000, 255, 256, 3, 2 ** 24 + 1, 7, 8],
    "u64": [0, 1, 2, 2 ** 64 - 1, 2 ** 63, 70000, 255, 256, 3, 2 ** 40, 7, 8],
}


def _cast_x(mb, t1, shape=(3, 4)):
    """x of element type t1 with the explicit value list; bf16 is produced by a Cast from f32."""
    n = int(np.prod(shape))
    if t1 == "bf16":
        x0 = mb.inp("x", "f32", list(shape), values=[np.array(_CAST_X["f32"][:n], dtype=np.float32).reshape(shape)])
        return mb.node("Cast", [x0], to=int(ONNX_DT["bf16"]))
    v = np.array(_CAST_X[t1][:n], dtype=S.npd(t1)).reshape(shape)
    v2 = np.roll(v.reshape(-1), 5).reshape(shape)
    return mb.inp("x", t1, list(shape), values=[v, v2, v[::-1].copy()])


def _finish(mb, y, t):
    """bf16 cannot be fetched as numpy: observe it through a widening Cast (exact)."""
    if t == "bf16":
        y = mb.node("Cast", [y], to=int(ONNX_DT["f32"]))
    mb.out(y)


# -- Cast(Cast(x, t2), t3) -> Cast(x, t3) --------------------------------------------------------------
def _cc_dims(rule):
    return [
        Dim("t1", ["f32", "f64", "i64", "f16", "bool", "u8", "i8", "i32"], _CAST_T),
        Dim("t2", ["f32", "f16", "f64", "i32", "bool", "u8", "u64", "i8"], _CAST_T),
        Dim("t3", ["f16", "bf16", "f32", "i64", "bool", "i32"], _CAST_T),
        S.d_inter(1), S.D_VI, S.d_opset(18, 13, 21, 23),
        Dim("saturate", ["absent", 1, 0], cost=1),
    ]


def _cc_prune(p, rule):
    return p["saturate"] != "absent" and p["opset"] < 19


def _cc_build(p, rule):
    mb = MB(p["opset"])
    x = _cast_x(mb, p["t1"])
    sat = {} if p["saturate"] == "absent" else {"saturate": int(p["saturate"])}
    c1 = mb.node("Cast", [x], to=int(ONNX_DT[p["t2"]]))
    c2 = mb.node("Cast", [c1], to=int(ONNX_DT[p["t3"]]), **sat)
    _finish(mb, c2, p["t3"])
    S.expose(mb, p, [c1] if p["t2"] != "bf16" else [None])
    return mb


def _cc_near(p, rule):
    return (p["t2"], p["t3"]) not in (("f32", "f16"), ("f32", "bf16"))


S.register(Space("cast_cast", _cc_dims, _cc_build, near=_cc_near, prune=_cc_prune), rule_ids=["cast_cast_rule"])


# -- Cast(x, to = type of x) -> Identity -----------------------------------------------------------------
def _nc_dims(rule):
    return [
        Dim("t1", ["f32", "f64", "i64", "f16", "bool", "u8"], _CAST_T),
        Dim("to", ["f32", "f16", "i64", "bool", "f64"], _CAST_T),
        Dim("xsrc", ["input", "computed"]),
        S.D_VI, S.d_opset(18, 13, 21, 23),
        Dim("saturate", ["absent", 0], cost=1),
    ]


def _nc_build(p, rule):
    mb = MB(p["opset"])
    x = _cast_x(mb, p["t1"])
    if p["xsrc"] == "computed":
        x = mb.node("Identity", [x])
    sat = {} if p["saturate"] == "absent" else {"saturate": int(p["saturate"])}
    _finish(mb, mb.node("Cast", [x], to=int(ONNX_DT[p["to"]]), **sat), p["to"])
    return mb


S.register(Space("no_op_cast", _nc_dims, _nc_build, near=lambda p, r: p["t1"] != p["to"], prune=_cc_prune),
           rule_ids=["no_op_cast_rule"])


# -- Expand(x, shape == x.shape) -> Identity -------------------------------------------------------------
def _ne_dims(rule):
    return [
        Dim("xshape", [[2, 3], [3], [1, 3], []], [[2, 3], [3], [1, 3], [], [1], [0, 3], [2, 1, 3]]),
        Dim("target", ["same", "ones", "suffix", "lead1", "bigger", "scalar-shape", "one-for-dim"]),
        Dim("dtype", ["f32", "i64"], ["f32", "i64", "bool", "f16"]),
        S.d_ck(1), S.D_DIMS, S.D_VI, S.d_opset(18, 13, 21, 23),
        Dim("symax", [0, 1], cost=1),
    ]


def _ne_target(xs, t):
    if t == "same":
        return list(xs)
    if t == "ones":
        return [1] * len(xs)
    if t == "suffix":
        return list(xs[1:])
    if t == "lead1":
        return [1] + list(xs)
    if t == "bigger":
        return [2] + list(xs)
    if t == "scalar-shape":
        return []
    if t == "one-for-dim":
        return [1] + list(xs[1:]) if xs else None
    raise ValueError(t)


def _ne_prune(p, rule):
    xs = p["xshape"]
    if _ne_target(xs, p["target"]) is None:
        return True
    if p["target"] in ("suffix", "one-for-dim") and not xs:
        return True
    if p["dims"] != "static" and p["symax"] >= len(xs):
        return True
    if p["dims"] == "static" and p["symax"] != 0:
        return True
    return False


def _ne_build(p, rule):
    mb = MB(p["opset"])
    xs = p["xshape"]
    x = mb.inp("x", p["dtype"], S.shp(p, xs, sym_axes=(p["symax"],)))
    S.bind_like(mb, xs, sym_axes=(p["symax"],))
    t = _ne_target(xs, p["target"])
    sh = mb.const(arr("i64", t), S.kinds(p, 1)[0], alts=[arr("i64", [2] * len(t)), arr("i64", t)])
    mb.out(mb.node("Expand", [x, sh]))
    return mb


S.register(Space("no_op_expand", _ne_dims, _ne_build, near=lambda p, r: p["target"] != "same" or S.is_nonconst(p) or p["dims"] != "static",
                 prune=_ne_prune), rule_ids=["no_op_expand_rule"])


# -- Flatten(x, axis) -> Reshape(x, [a, b]) ---------------------------------------------------------------
_FL_SHAPES = [[2, 3, 4], [2, 3], [3], [2, 3, 4, 5], [0, 3], [2, 0], [2, 0, 4], [1, 1], []]


def _fl_dims(rule):
    return [
        Dim("xshape", _FL_SHAPES[:7], _FL_SHAPES),
        Dim("axis", ["absent", 0, 1, 2, -1, "rank", -2], ["absent", 0, 1, 2, 3, -1, -2, -3, "rank"]),
        # which axes are symbolic (bitmask over the first three axes)
        Dim("sym", [0, 1, 2, 3, 4, 6], [0, 1, 2, 3, 4, 5, 6, 7]),
        Dim("symstyle", ["sym", "unnamed"]),
        # runtime size of the symbolic axes: the declared one, or 0
        Dim("rt", ["as-declared", "zero"]),
        Dim("dtype", ["f32"], ["f32", "i64"]),
        # a second Flatten of the same input with another axis in the same graph
        Dim("twin", ["no", "axis0", "axis2"], cost=1),
        S.D_VI, S.d_opset(18, 13, 21, 23),
    ]


def _fl_axis(p):
    r = len(p["xshape"])
    a = p["axis"]
    return 1 if a == "absent" else (r if a == "rank" else a)


def _fl_prune(p, rule):
    r = len(p["xshape"])
    a = _fl_axis(p)
    if not (-r <= a <= r):
        return True
    if p["sym"] >= (1 << min(r, 3)) and p["sym"]:
        return True
    if p["sym"] == 0 and (p["symstyle"] != "sym" or p["rt"] != "as-declared"):
        return True
    return False


def _fl_build(p, rule):
    mb = MB(p["opset"])
    xs = p["xshape"]
    axes = [i for i in range(3) if p["sym"] >> i & 1]
    p2 = dict(p)
    p2["dims"] = "static" if not axes else p["symstyle"]
    x = mb.inp("x", p["dtype"], S.shp(p2, xs, sym_axes=tuple(axes)))
    names = ("N", "M", "K")
    base = {}
    for j, ax in enumerate(axes):
        base[names[j]] = xs[ax]
        base[f"?{ax}"] = xs[ax]
    binds = [base]
    if axes:
        for j, ax in enumerate(axes):
            v = dict(base)
            v[names[j]] = 0 if p["rt"] == "zero" else xs[ax] + 1
            v[f"?{ax}"] = v[names[j]]
            binds.append(v)
    mb.bindings = binds
    attrs = {} if p["axis"] == "absent" else {"axis": _fl_axis(p)}
    mb.out(mb.node("Flatten", [x], **attrs))
    if p["twin"] != "no":
        a2 = {"axis0": 0, "axis2": 2}[p["twin"]]
        if a2 > len(xs):
            raise Skip("twin axis out of range")
        mb.out(mb.node("Flatten", [x], axis=a2))
    return mb


def _fl_klass(nd, p, rule):
    if "twin" in nd and set(nd) <= {"twin", "axis", "xshape"} and 0 not in p["xshape"]:
        return "twin=second-Flatten-of-same-input"
    if 0 in p["xshape"] and "xshape" in nd and set(nd) <= {"xshape", "axis", "sym", "symstyle", "twin"}:
        return "xshape=static-size0-dim"
    if nd.get("rt") == "zero" and set(nd) <= {"rt", "sym", "symstyle", "axis", "xshape"}:
        return "sym=two-or-more-dims,rt=zero"
    return None


def _fl_spec(p, rule):
    from vf.props import c05_np
    if p["twin"] != "no":
        return None
    return lambda fd: [c05_np.flatten(fd["x"], _fl_axis(p))]


S.register(Space("flatten_to_reshape", _fl_dims, _fl_build, near=None, prune=_fl_prune, klass=_fl_klass, spec=_fl_spec),
           rule_ids=["flatten_to_reshape_rule"])


# -- Reshape(Reshape(x, s1), s2) -> Reshape(x, s2') -----------------------------------------------------
# (x shape, s1, s2, symbolic axes of x)
_RR_CASES = {
    "plain": ([2, 3, 4], [6, 4], [4, 6], ()),
    "s2-minus1": ([2, 3, 4], [6, 4], [-1, 2], ()),
    "s2-zero": ([2, 3, 4], [6, 4], [0, 2, 2], ()),
    "s2-zero-differs-from-x": ([2, 3, 4], [4, 6], [0, 6], ()),
    "s2-two-zeros": ([2, 3, 4], [6, 4], [0, 0], ()),
    "s2-zero-and-minus1": ([2, 3, 4], [6, 4], [0, -1], ()),
    "s2-zero-mid": ([2, 3, 4], [2, 12], [2, 0], ()),
    "sym-minus1": ([2, 3, 4], [-1, 4], [-1, 2, 2], (0,)),
    "sym-zero": ([2, 3, 4], [-1, 4], [0, 2, 2], (0,)),
    "sym-zero-and-minus1": ([2, 3, 4], [-1, 12], [0, -1], (0,)),
    "size0": ([0, 3], [3, 0], [0, 3], ()),
    "size0-sym": ([2, 3], [3, -1], [-1, 3], (0,)),
    "size0-sym-zero": ([2, 3], [-1, 3], [0, 3], (0,)),
    "rank0": ([1], [], [1, 1], ()),
    "to-scalar": ([1, 1], [1], [], ()),
}


def _rr_dims(rule):
    return [
        Dim("case", list(_RR_CASES)),
        Dim("allowzero", ["absent", 0, 1]),
        Dim("allowzero1", ["absent", 1]),
        Dim("s1src", ["const", "input"]),
        Dim("dtype", ["f32"], ["f32", "i64"]),
        Dim("rt", ["as-declared", "zero"]),
        S.d_ck(1), S.d_inter(1), S.D_VI, S.d_opset(18, 13, 14, 21, 23),
        Dim("symstyle", ["sym", "unnamed"], cost=1),
    ]


def _rr_prune(p, rule):
    if p["opset"] < 14 and (p["allowzero"] != "absent" or p["allowzero1"] != "absent"):
        return True
    if p["rt"] == "zero" and not _RR_CASES[p["case"]][3]:
        return True
    return False


def _rr_build(p, rule):
    xs, s1, s2, sym = _RR_CASES[p["case"]]
    mb = MB(p["opset"])
    p2 = dict(p)
    p2["dims"] = "static" if not sym else p["symstyle"]
    x = mb.inp("x", p["dtype"], S.shp(p2, xs, sym_axes=sym))
    base = {"N": xs[0] if xs else 1, "?0": xs[0] if xs else 1}
    binds = [base]
    if sym:
        binds.append({"N": 0 if p["rt"] == "zero" else 5, "?0": 0 if p["rt"] == "zero" else 5})
    mb.bindings = binds
    if p["s1src"] == "const":
        c1 = mb.const(arr("i64", s1), "init")
    else:
        c1 = mb.inp("s1", "i64", [len(s1)], values=[arr("i64", s1)])
    a1 = {} if p["allowzero1"] == "absent" else {"allowzero": int(p["allowzero1"])}
    r1 = mb.node("Reshape", [x, c1], **a1)
    c2 = mb.const(arr("i64", s2), S.kinds(p, 1)[0], alts=[arr("i64", [-1] + [1] * (len(s2) - 1)) if s2 else arr("i64", [])])
    a2 = {} if p["allowzero"] == "absent" else {"allowzero": int(p["allowzero"])}
    mb.out(mb.node("Reshape", [r1, c2], **a2))
    S.expose(mb, p, [r1])
    return mb


S.register(Space("reshape_reshape", _rr_dims, _rr_build, near=lambda p, r: S.is_nonconst(p), prune=_rr_prune),
           rule_ids=["reshape_reshape_rule"])


# -- Slice(x, 0, h, ax), Slice(x, h, d, ax) -> Split(x, num_outputs=2, axis=-1) --------------------------
def _ss_dims(rule):
    return [
        Dim("xshape", [[2, 6], [6], [2, 5], [2, 3, 4]], [[2, 6], [6], [2, 5], [2, 3, 4], [2, 1], [2, 0], [2, 2]]),
        Dim("axis", ["-1", "last", "0"]),
        Dim("b0", ["0", "1"]),
        Dim("e0", ["h", "h+1", "h-1"]),
        Dim("b1", ["=e0", "h"]),
        Dim("e1", ["d", "d+1", "MAX", "d-1"]),
        # node order in the graph: the matcher only anchors on the [0:h] slice when it comes last
        Dim("order", ["10", "01"], cost=1),
        Dim("form", ["4in", "5in-steps1", "3in"], cost=1),
        Dim("dtype", ["f32", "i64"], cost=1),
        S.d_ck(6), S.D_DIMS, S.D_VI, S.d_opset(18, 13, 21, 23),
    ]


def _ss_prune(p, rule):
    if p["axis"] == "0" and len(p["xshape"]) == 1:
        return True
    if p["form"] == "3in" and p["axis"] != "0":
        return True
    return False


def _ss_build(p, rule):
    mb = MB(p["opset"])
    xs = p["xshape"]
    r = len(xs)
    ax = {"-1": -1, "last": r - 1, "0": 0}[p["axis"]]
    d = xs[ax]
    h = d // 2
    x = mb.inp("x", p["dtype"], S.shp(p, xs, sym_axes=(0,) if r > 1 else ()))
    S.bind_like(mb, xs, sym_axes=(0,) if r > 1 else (), variants=[{"N": 3, "?0": 3}])
    k = S.kinds(p, 6)
    b0 = int(p["b0"])
    e0 = {"h": h, "h+1": h + 1, "h-1": h - 1}[p["e0"]]
    b1 = e0 if p["b1"] == "=e0" else h
    e1 = {"d": d, "d+1": d + 1, "MAX": INT64_MAX, "d-1": d - 1}[p["e1"]]

    def sl(b, e, kb, ke, ka):
        ins = [x, mb.const(arr("i64", [b]), kb, alts=[arr("i64", [b + 1])]), mb.const(arr("i64", [e]), ke, alts=[arr("i64", [max(e - 1, 0)])])]
        if p["form"] != "3in":
            ins.append(mb.const(arr("i64", [ax]), ka, alts=[arr("i64", [0])]))
        if p["form"] == "5in-steps1":
            ins.append(mb.const(arr("i64", [1]), "init"))
        return ins
    i0 = sl(b0, e0, k[0], k[1], k[2])
    i1 = sl(b1, e1, k[3], k[4], k[5])
    if p["order"] == "01":
        s0 = mb.node("Slice", i0)
        s1 = mb.node("Slice", i1)
    else:
        s1 = mb.node("Slice", i1)
        s0 = mb.node("Slice", i0)
    mb.out(s0)
    mb.out(s1)
    return mb


def _ss_near(p, rule):
    return not (p["b0"] == "0" and p["e0"] == "h" and p["e1"] == "d" and p["axis"] != "0" and p["form"] == "4in") \
        or S.is_nonconst(p) or p["xshape"][-1] % 2 == 1


def _ss_klass(nd, p, rule):
    d = p["xshape"][-1]
    if "xshape" in nd and (d % 2 == 1 or d == 0) and "ck" not in nd and "opset" not in nd:
        return "xshape=last-dim-odd-or-0"
    return None


S.register(Space("slice_split", _ss_dims, _ss_build, near=_ss_near, prune=_ss_prune, klass=_ss_klass, max_dev={"thorough": 1}),
           rule_ids=["slice_split_rule"])


# -- Transpose(x, identity perm) -> Identity ; Transpose(Transpose(x, p1), p2) -> Transpose/Identity -----
def _perms(r):
    return [list(q) for q in itertools.permutations(range(r))]


def _nt_dims(rule):
    perms = ["absent"] + _perms(1) + _perms(2) + _perms(3)
    return [
        Dim("perm", perms, perms + [[0, 1, 2, 3], [0, 2, 1, 3]]),
        Dim("dtype", ["f32"], ["f32", "i64"]),
        Dim("rank_for_absent", [1, 2]),
        S.D_DIMS, S.D_VI, S.d_opset(18, 13, 21, 23),
    ]


def _nt_build(p, rule):
    mb = MB(p["opset"])
    perm = p["perm"]
    r = p["rank_for_absent"] if perm == "absent" else len(perm)
    if perm != "absent" and p["rank_for_absent"] != 1:
        raise Skip("rank fixed by perm")
    xs = [2, 3, 4, 5][:r]
    x = mb.inp("x", p["dtype"], S.shp(p, xs))
    S.bind_like(mb, xs)
    mb.out(mb.node("Transpose", [x], **({} if perm == "absent" else {"perm": perm})))
    return mb


S.register(Space("no_op_transpose", _nt_dims, _nt_build,
                 near=lambda p, r: p["perm"] == "absent" or p["perm"] != sorted(p["perm"])),
           rule_ids=["no_op_transpose_rule"])


def _tt_dims(rule):
    pairs = []
    for r in (2, 3):
        for a in _perms(r):
            for b in _perms(r):
                pairs.append([a, b])
    pairs += [["absent", [1, 0]], [[1, 0], "absent"], ["absent", "absent"]]
    more = [[[0, 1, 2, 3], [3, 2, 1, 0]], [[1, 2, 3, 0], [3, 0, 1, 2]], [[1, 2, 3, 0], [1, 2, 3, 0]], [[0], [0]]]
    return [
        Dim("perms", pairs, pairs + more),
        Dim("dtype", ["f32"], ["f32", "i64"]),
        S.d_inter(1), S.D_DIMS, S.D_VI, S.d_opset(18, 13, 21, 23),
    ]


def _tt_build(p, rule):
    mb = MB(p["opset"])
    p1, p2 = p["perms"]
    r = len(p1) if p1 != "absent" else (len(p2) if p2 != "absent" else 2)
    xs = [2, 3, 4, 5][:r]
    x = mb.inp("x", p["dtype"], S.shp(p, xs))
    S.bind_like(mb, xs)
    t1 = mb.node("Transpose", [x], **({} if p1 == "absent" else {"perm": p1}))
    mb.out(mb.node("Transpose", [t1], **({} if p2 == "absent" else {"perm": p2})))
    S.expose(mb, p, [t1])
    return mb


S.register(Space("transpose_transpose", _tt_dims, _tt_build, near=lambda p, r: "absent" in p["perms"]),
           rule_ids=["transpose_transpose_rule"])


# -- Unsqueeze(Unsqueeze(x, a1), a2) -> Unsqueeze(x, [..]) ------------------------------------------------
def _uu_dims(rule):
    return [
        Dim("xshape", [[3], [2, 3], []]),
        Dim("a1", [[0], [1], [2], [-1], [0, 1], "scalar0"], [[0], [1], [2], [-1], [-2], [0, 1], "scalar0", "scalar1"]),
        Dim("a2", [[0], [1], [2], [3], [-1], [0, 2]], [[0], [1], [2], [3], [-1], [-2], [0, 2], "scalar0", "scalar1"]),
        Dim("dtype", ["f32"], ["f32", "i64"]),
        S.d_ck(2), S.d_inter(1), S.D_DIMS, S.D_VI, S.d_opset(18, 13, 21, 23),
    ]


def _uu_prune(p, rule):
    return p["dims"] != "static" and not p["xshape"]


def _uu_build(p, rule):
    mb = MB(p["opset"])
    xs = p["xshape"]
    x = mb.inp("x", p["dtype"], S.shp(p, xs))
    S.bind_like(mb, xs)
    k = S.kinds(p, 2)

    def ax(v, kind):
        if isinstance(v, str):
            return mb.const(arr("i64", int(v[-1])), kind, alts=[arr("i64", 0)])
        return mb.const(arr("i64", v), kind, alts=[arr("i64", [0] * len(v)) if len(v) == 1 else arr("i64", v)])
    u1 = mb.node("Unsqueeze", [x, ax(p["a1"], k[0])])
    mb.out(mb.node("Unsqueeze", [u1, ax(p["a2"], k[1])]))
    S.expose(mb, p, [u1])
    return mb


def _uu_near(p, rule):
    def bad(a):
        return isinstance(a, str) or len(a) != 1 or a[0] < 0
    return bad(p["a1"]) or bad(p["a2"]) or S.is_nonconst(p)


S.register(Space("unsqueeze_unsqueeze", _uu_dims, _uu_build, near=_uu_near, prune=_uu_prune),
           rule_ids=["unsqueeze_unsqueeze_rule"])


# -- Reshape(Squeeze(x), [-1]) -> Identity(x) for 1-D x ---------------------------------------------------
def _sq_dims(rule):
    return [
        Dim("xshape", [[3], [1], [2, 3], [1, 3], []], [[3], [1], [2, 3], [1, 3], [], [0], [1, 1]]),
        Dim("squeeze", ["no-axes", "axes-input", "axes-attr"]),
        Dim("target", [[-1], [3], [1, -1], [0], "scalar-1"]),
        Dim("allowzero", ["absent", 1]),
        Dim("dtype", ["f32"], ["f32", "i64"]),
        Dim("rt", ["as-declared", "one", "zero"]),
        S.d_ck(1), S.d_inter(1), S.D_DIMS, S.D_VI, S.d_opset(18, 13, 11, 21, 23),
    ]


def _sq_prune(p, rule):
    if (p["squeeze"] == "axes-attr") != (p["opset"] < 13) and p["squeeze"] != "no-axes":
        return True
    if p["opset"] < 14 and p["allowzero"] != "absent":
        return True
    if p["dims"] == "static" and p["rt"] != "as-declared":
        return True
    if p["dims"] != "static" and not p["xshape"]:
        return True
    return False


def _sq_build(p, rule):
    mb = MB(p["opset"])
    xs = p["xshape"]
    x = mb.inp("x", p["dtype"], S.shp(p, xs))
    rt = {"as-declared": None, "one": 1, "zero": 0}[p["rt"]]
    S.bind_like(mb, xs, variants=[{"N": rt, "?0": rt}] if rt is not None else None)
    if rt is not None:
        mb.bindings = mb.bindings[::-1]
    if p["squeeze"] == "no-axes":
        s = mb.node("Squeeze", [x])
    elif p["squeeze"] == "axes-input":
        s = mb.node("Squeeze", [x, mb.const(arr("i64", [0]), "init")])
    else:
        s = mb.node("Squeeze", [x], axes=[0])
    t = p["target"]
    tv = arr("i64", -1) if t == "scalar-1" else arr("i64", t)
    c = mb.const(tv, S.kinds(p, 1)[0], alts=[arr("i64", [1, -1]) if t != "scalar-1" else tv])
    az = {} if p["allowzero"] == "absent" else {"allowzero": 1}
    mb.out(mb.node("Reshape", [s, c], **az))
    S.expose(mb, p, [s])
    return mb


S.register(Space("squeeze_reshape_1d", _sq_dims, _sq_build,
                 near=lambda p, r: len(p["xshape"]) != 1 or p["target"] != [-1] or p["squeeze"] != "no-axes" or S.is_nonconst(p),
                 prune=_sq_prune), rule_ids=["squeeze_reshape_1d_rule"])


# -- ScatterND that overwrites everything -> Identity(updates) -------------------------------------------
_SC_IDX = {
    "full": lambda n: [[i] for i in range(n)],
    "permuted": lambda n: [[(i + 1) % n] for i in range(n)],
    "partial": lambda n: [[i] for i in range(n - 1)],
    "duplicate": lambda n: [[0] for _ in range(n)],
    "negative": lambda n: [[i - n] for i in range(n)],
    "reversed": lambda n: [[n - 1 - i] for i in range(n)],
}


def _scs_dims(rule):
    return [
        Dim("dshape", [[3, 2], [3], [1, 2]], [[3, 2], [3], [1, 2], [2, 2, 2], [0, 2]]),
        Dim("idx", list(_SC_IDX)),
        Dim("reduction", ["absent", "none", "add", "mul"], ["absent", "none", "add", "mul", "max", "min"]),
        Dim("dtype", ["f32", "i64"], ["f32", "i64", "f64", "i32"]),
        Dim("ushape", ["same", "declared-sym"]),
        S.d_ck(1), S.D_DIMS, S.D_VI, S.d_opset(18, 13, 16, 21, 23),
    ]


def _scs_prune(p, rule):
    if p["opset"] < 16 and p["reduction"] != "absent":
        return True
    if p["opset"] < 18 and p["reduction"] in ("max", "min"):
        return True
    return False


def _scs_build(p, rule):
    mb = MB(p["opset"])
    ds = p["dshape"]
    n = ds[0]
    idx = _SC_IDX[p["idx"]](n)
    if p["idx"] == "partial" and n <= 1:
        raise Skip("no partial index set")
    data = mb.inp("data", p["dtype"], S.shp(p, ds))
    ush = list(ds)
    if p["idx"] == "partial":
        ush = [n - 1] + ds[1:]
    p2 = dict(p)
    if p["ushape"] == "declared-sym":
        p2["dims"] = "sym" if p["dims"] == "static" else p["dims"]
    upd = mb.inp("upd", p["dtype"], S.shp(p2, ush))
    S.bind_like(mb, ds)
    ia = np.array(idx, dtype=np.int64).reshape(len(idx), 1)
    alt = np.array(_SC_IDX["duplicate"](len(idx)), dtype=np.int64).reshape(len(idx), 1)
    ic = mb.const(ia, S.kinds(p, 1)[0], alts=[alt])
    attrs = {} if p["reduction"] == "absent" else {"reduction": p["reduction"]}
    mb.out(mb.node("ScatterND", [data, ic, upd], **attrs))
    return mb


def _scs_near(p, rule):
    return p["idx"] != "full" or p["reduction"] not in ("absent", "none") or S.is_nonconst(p) or p["dims"] != "static" \
        or p["ushape"] != "same"


def _scs_klass(nd, p, rule):
    if list(nd) == ["reduction"]:
        return "reduction!=none"
    return None


S.register(Space("scatter_nd_static", _scs_dims, _scs_build, near=_scs_near, prune=_scs_prune, klass=_scs_klass),
           rule_ids=["no_op_static_scatter_nd_rule"])


def _scd_dims(rule):
    return [
        Dim("axis", [0, 1, -1, "[0]"]),
        Dim("td", ["transpose", "data", "other-same", "other-diff"]),
        Dim("reduction", ["none", "absent", "add"]),
        Dim("shape_attrs", ["start0", "absent", "start0-end", "start1"]),
        Dim("range", ["0,1", "1,1", "0,2"], cost=1),
        Dim("unsq", ["[-1]", "[1]"], cost=1),
        Dim("dtype", ["f32", "i64"], cost=1),
        Dim("square", ["no", "yes"], cost=1),
        S.d_ck(1), S.D_DIMS, S.D_VI, S.d_opset(18, 16, 21, 23),
    ]


def _scd_build(p, rule):
    mb = MB(p["opset"])
    ds = [3, 3] if p["square"] == "yes" else [2, 3]
    both = (0, 1)
    data = mb.inp("data", p["dtype"], S.shp(p, ds, sym_axes=both))
    S.bind_like(mb, ds, sym_axes=both)
    axis = p["axis"]
    a = 0 if axis == "[0]" else axis
    dim = ds[a]
    sa = {"start0": {"start": 0}, "absent": {}, "start0-end": {"start": 0, "end": 2}, "start1": {"start": 1}}[p["shape_attrs"]]
    shape = mb.node("Shape", [data], **sa)
    ax_c = mb.const(arr("i64", [0]) if axis == "[0]" else arr("i64", a), S.kinds(p, 1)[0], alts=[arr("i64", [1]) if axis == "[0]" else arr("i64", 1 - (a % 2))])
    g = mb.node("Gather", [shape, ax_c], axis=0)
    r0, r1 = [int(v) for v in p["range"].split(",")]
    rng = mb.node("Range", [mb.const(arr("i64", r0), "node"), g, mb.const(arr("i64", r1), "node")])
    idx = mb.node("Unsqueeze", [rng, mb.const(arr("i64", [-1] if p["unsq"] == "[-1]" else [1]), "node")])
    td_kind = p["td"]
    if td_kind == "transpose":
        td = mb.node("Transpose", [data], perm=[1, 0]) if a % 2 == 1 else mb.node("Identity", [data])
        tds = [ds[1], ds[0]] if a % 2 == 1 else ds
        td_sym = both
    elif td_kind == "data":
        td, tds, td_sym = data, ds, both
    elif td_kind == "other-same":
        tds = [dim, 4]
        td = mb.inp("other", p["dtype"], S.shp(p, tds, sym_axes=(0,), names=("N" if a % 2 == 0 else "M",)))
        td_sym = (0,)
    else:
        tds = [dim + 2, 4]
        td = mb.inp("other", p["dtype"], S.shp(p, tds, sym_axes=(0,), names=("Q",)))
        mb.bindings[0]["Q"] = dim + 2
    ush = [dim] + list(tds[1:])      # updates cover the index range [0, dim) of transposed_data's first axis
    upd = mb.inp("upd", p["dtype"], ush)
    attrs = {} if p["reduction"] == "absent" else {"reduction": p["reduction"]}
    mb.out(mb.node("ScatterND", [td, idx, upd], **attrs))
    return mb


def _scd_near(p, rule):
    return p["td"] in ("other-diff",) or p["reduction"] != "none" or p["shape_attrs"] != "start0" or p["range"] != "0,1" \
        or S.is_nonconst(p) or (p["td"] == "data" and p["axis"] in (1, -1))


S.register(Space("scatter_nd_dynamic", _scd_dims, _scd_build, near=_scd_near),
           rule_ids=["no_op_dynamic_scatter_nd_rule"])
