"""C12 specification side: the case space and the expected promotion, written from the property statement.

Nothing here imports onnxscript.  Inputs: onnx.defs schemas; numpy only as a container / IEEE rounding.

Rule (property C12): a Python literal passed beside tensor operands becomes a tensor whose element type is
that of the sibling operand sharing its *type-constraint variable* when there is one, otherwise INT64 / FLOAT /
BOOL by Python type (lists: by their first element); its value is the literal converted with ONNX Cast
semantics; scalars become 0-d tensors, lists 1-d tensors.
"""
from __future__ import annotations

import functools

import numpy as np
import onnx
import onnx.defs

OpSchema = onnx.defs.OpSchema
_OPT = OpSchema.FormalParameterOption.Optional
_VAR = OpSchema.FormalParameterOption.Variadic
_A = onnx.AttributeProto

FRONT_ENDS = ("static", "eager", "builder", "bdyn")

BASE_POOL = [0, 1, -3, 2.5, -0.0, True, [1, 2], [0.5]]
# one literal beyond the pool of the property record: a float that float32 cannot represent, so that a
# front end that materialises FLOAT first and casts afterwards is distinguishable beside a DOUBLE sibling
EXTRA_POOL = [0.1]
POOL = BASE_POOL + EXTRA_POOL
# [1, 1] / [0, -1]: two-element int lists whose tuple equals a (value, sign) pair of a scalar float (1.0, -0.0) - a
# cache keyed by such pairs handed the scalar's tensor to the list (defect introduced and repaired in GraphBuilder)
PAIR_POOL = BASE_POOL + [0.0, 1.0, [0.0], [-0.0], [1], [True], [1, 1], [0, -1]]

# short name -> (onnx type string, onnxscript annotation / ir.DataType name, numpy dtype)
DTYPES = {
    "f32": ("tensor(float)", "FLOAT", np.float32),
    "i64": ("tensor(int64)", "INT64", np.int64),
    "f16": ("tensor(float16)", "FLOAT16", np.float16),
    "f64": ("tensor(double)", "DOUBLE", np.float64),
    "i32": ("tensor(int32)", "INT32", np.int32),
    "u8": ("tensor(uint8)", "UINT8", np.uint8),
    "bool": ("tensor(bool)", "BOOL", np.bool_),
}
DT_ORDER = list(DTYPES)
_BY_TYPESTR = {v[0]: k for k, v in DTYPES.items()}
_INT_RANGE = {"i64": (-2 ** 63, 2 ** 63 - 1), "i32": (-2 ** 31, 2 ** 31 - 1), "u8": (0, 255)}
UNDEFINED = "undefined"


def lit_repr(lit):
    return repr(lit)


def lit_class(lit):
    def one(x):
        if isinstance(x, bool):
            return "bool"
        if isinstance(x, int):
            return "neg-int" if x < 0 else "int"
        if x == 0 and np.signbit(x):
            return "neg-zero"
        if float(np.float32(x)) != x:
            return "float-inexact"
        return "float"
    if isinstance(lit, list):
        return one(lit[0]) + "-list"
    return one(lit)


# ------------------------------------------------------------------------------------------------
# expectation
# ------------------------------------------------------------------------------------------------

def natural_dtype(lit):
    x = lit[0] if isinstance(lit, list) else lit
    if isinstance(x, bool):
        return "bool"
    if isinstance(x, int):
        return "i64"
    if isinstance(x, float):
        return "f32"
    raise TypeError(type(x))


def cast_scalar(x, dst):
    """ONNX Cast of one Python number to dst; UNDEFINED where the specification leaves it open."""
    if dst == "bool":
        return bool(x != 0)
    if dst in _INT_RANGE:
        v = int(x)  # bool -> 0/1, float -> truncation toward zero
        lo, hi = _INT_RANGE[dst]
        return v if lo <= v <= hi else UNDEFINED
    return float(x)  # rounding to the target precision happens in to_array


def to_array(values, shape_scalar, dst):
    arr = np.array(values, dtype=DTYPES[dst][2])
    return arr.reshape(()) if shape_scalar else arr.reshape((len(values),))


def expected_tensor(lit, dst):
    """-> (dtype short, numpy array | UNDEFINED)."""
    elems = lit if isinstance(lit, list) else [lit]
    out = [cast_scalar(e, dst) for e in elems]
    if any(o is UNDEFINED for o in out):
        return dst, UNDEFINED
    return dst, to_array(out, not isinstance(lit, list), dst)


def cast_array(arr, dst):
    """ONNX Cast of an already materialised tensor (used for Constant -> CastLike chains)."""
    flat = [cast_scalar(x, dst) for x in arr.reshape(-1).tolist()]
    if any(o is UNDEFINED for o in flat):
        return UNDEFINED
    return np.array(flat, dtype=DTYPES[dst][2]).reshape(arr.shape)


def same_bits(a, b):
    return a.dtype == b.dtype and a.shape == b.shape and a.tobytes() == b.tobytes()


# ------------------------------------------------------------------------------------------------
# registry
# ------------------------------------------------------------------------------------------------

@functools.lru_cache(maxsize=None)
def visible(ver):
    names = {}
    for s in onnx.defs.get_all_schemas_with_history():
        if s.domain != "" or s.since_version > ver:
            continue
        cur = names.get(s.name)
        if cur is None or s.since_version > cur.since_version:
            names[s.name] = s
    return names


def _exclusion(s):
    if s.deprecated:
        return "deprecated"
    if any(a.type in (_A.GRAPH, _A.GRAPHS) for a in s.attributes.values()):
        return "graph-attribute"
    if not any(any(t.startswith("tensor(") for t in i.types) for i in s.inputs):
        return "no-tensor-input"
    for a in s.attributes.values():
        if a.required and a.type not in _ATTR_DUMMY:
            return "required-attribute-type"
    return None


@functools.lru_cache(maxsize=None)
def usable_ops(ver):
    return tuple(sorted(n for n, s in visible(ver).items() if _exclusion(s) is None))


def exclusion_histogram(opsets):
    h = {}
    for v in opsets:
        for n, s in visible(v).items():
            r = _exclusion(s)
            if r:
                h[r] = h.get(r, 0) + 1
    return h


_ATTR_DUMMY = {_A.INT: 1, _A.INTS: [1], _A.FLOAT: 1.0, _A.FLOATS: [1.0], _A.STRING: "a", _A.STRINGS: ["a"]}
_ATTR_BY_NAME = {"axis": 0, "direction": "LEFT", "equation": "i,i", "mode": "TF", "ngram_counts": [0],
                 "ngram_indexes": [0]}


def required_attrs(s):
    out = {}
    for a in s.attributes.values():
        if a.required:
            out[a.name] = _ATTR_BY_NAME.get(a.name, _ATTR_DUMMY[a.type])
    return dict(sorted(out.items()))


def _typevars(s):
    return {t.type_param_str for t in s.type_constraints}


def _is_variadic(s):
    return bool(s.inputs) and s.inputs[-1].option == _VAR


def positions(s):
    n = len(s.inputs)
    if _is_variadic(s):
        return tuple(range(n + 1))  # n-1 and n are the first two variadic slots
    return tuple(range(n))


def _formal(s, i):
    return s.inputs[min(i, len(s.inputs) - 1)]


def _arity_full(s, p):
    n = len(s.inputs)
    return n + 1 if _is_variadic(s) else n


def _actuals(s, p, fill):
    """Kinds of the actual arguments: 'lit', 'none', or ('t', group, formal)."""
    arity = _arity_full(s, p)
    tv = _typevars(s)
    acts = []
    for i in range(arity):
        f = _formal(s, i)
        if i == p:
            acts.append("lit")
            continue
        if f.option == _OPT and fill == "min":
            acts.append("none")
            continue
        acts.append(("t", _group(s, i, tv), f))
    # trailing absent optionals are simply not passed
    while acts and acts[-1] == "none":
        acts.pop()
    return acts


def _group(s, i, tv=None):
    """Type-variable group of actual position i: the variable name, or a private key when the formal has a
    concrete type / is a heterogeneous variadic."""
    tv = _typevars(s) if tv is None else tv
    f = _formal(s, i)
    if f.type_str in tv and not (f.option == _VAR and not f.is_homogeneous):
        return f.type_str
    return f"#{i}"


@functools.lru_cache(maxsize=None)
def _fills_cached(name, since, p):
    s = onnx.defs.get_schema(name, since, "")
    if any(f.option == _OPT for i, f in enumerate(s.inputs) if i != p):
        return ("min", "full")
    return ("min",)


def fills(s, p):
    return _fills_cached(s.name, s.since_version, p)


def _allowed(f):
    """Pool dtypes admitted by formal f (tensor types), pool order."""
    return [d for d in DT_ORDER if DTYPES[d][0] in f.types]


def _tensor_capable(f):
    return any(t.startswith("tensor(") for t in f.types)


def _seq_elem(f):
    for d in DT_ORDER:
        if f"seq({DTYPES[d][0]})" in f.types:
            return d
    return None


def sibling_info(s, p, fill):
    """-> (literal group, has_sibling, sigclass)."""
    acts = _actuals(s, p, fill)
    g = _group(s, p)
    tensors = [(i, a) for i, a in enumerate(acts) if isinstance(a, tuple)]
    # a sequence-only formal sharing the variable is not a tensor sibling
    sib = [i for i, a in tensors if a[1] == g and _tensor_capable(a[2])]
    none_before = any(a == "none" for a in acts[:p])
    n = len(s.inputs)
    if not tensors:
        base = "alone"
    elif g.startswith("#"):
        base = "concrete"
    elif not sib:
        base = "nosib"
    elif _is_variadic(s) and p >= n - 1:
        base = "var-head" if p == n - 1 else "var-tail"
    else:
        base = "sib-before" if min(sib) < p else "sib-after"
    return g, bool(sib), base + ("+none" if none_before else "")


@functools.lru_cache(maxsize=None)
def _dtype_menu_cached(name, since, p, fill):
    s = onnx.defs.get_schema(name, since, "")
    acts = _actuals(s, p, fill)
    g, has_sib, _ = sibling_info(s, p, fill)
    tensors = [a for a in acts if isinstance(a, tuple)]
    if has_sib:
        sibs = [a for a in tensors if a[1] == g]
        allowed = [d for d in DT_ORDER if all(DTYPES[d][0] in a[2].types for a in sibs)]
        return tuple(allowed)
    for a in tensors:
        al = _allowed(a[2])
        if al:
            return tuple(al)
    return ("-",)


def dtype_menu(s, p, fill):
    return _dtype_menu_cached(s.name, s.since_version, p, fill)


def call_plan(s, p, fill, d, forced=False):
    """Concrete argument plan for one case.

    -> dict(args=[...], expected_dtype_rule=..., sig=...) where each arg is
       {"k": "lit"} | {"k": "none"} | {"k": "t", "dt": short} | {"k": "seq", "dt": short} | {"k": "str"}
    """
    acts = _actuals(s, p, fill)
    g, has_sib, sig = sibling_info(s, p, fill)
    # assign a dtype per group: the varied group gets d, the others a pool dtype different from d if possible
    tensors = [a for a in acts if isinstance(a, tuple)]
    varied = None
    if has_sib:
        varied = g
    else:
        for a in tensors:
            if _allowed(a[2]):
                varied = a[1]
                break
    assign = {}
    if varied is not None and d != "-":
        assign[varied] = d
    args = []
    for a in acts:
        if a == "lit":
            args.append({"k": "lit"})
        elif a == "none":
            args.append({"k": "none"})
        else:
            _, grp, f = a
            al = _allowed(f)
            if not al and not forced:
                se = _seq_elem(f)
                if se is not None:
                    args.append({"k": "seq", "dt": se})
                elif "tensor(string)" in f.types:
                    args.append({"k": "str"})
                else:
                    args.append({"k": "t", "dt": "f32"})
                continue
            if grp not in assign:
                others = [x for x in al if x != d] or al or ["f32"]
                assign[grp] = others[0]
            dt = assign[grp]
            if not forced and al and dt not in al:
                dt = al[0]  # same variable, narrower formal (does not occur for homogeneous schemas)
            args.append({"k": "t", "dt": dt})
    exp_from = "sibling" if has_sib else "natural"
    return {"args": args, "exp_from": exp_from, "sig": sig, "sib_dtype": assign.get(g) if has_sib else None}


def expected_for(plan, lit):
    dst = plan["sib_dtype"] if plan["exp_from"] == "sibling" else natural_dtype(lit)
    return expected_tensor(lit, dst)


# reference operator per signature class: used to decide whether an alarm is operator-specific
REFERENCE = {
    "sib-before": ("Add", 1, "min"), "sib-after": ("Add", 0, "min"),
    "var-head": ("Max", 0, "min"), "var-tail": ("Max", 1, "min"),
    "sib-before+none": ("Clip", 2, "min"), "nosib": ("Gather", 1, "min"), "concrete": ("Reshape", 1, "min"),
    "alone": ("Relu", 0, "min"),
}


# ------------------------------------------------------------------------------------------------
# pairs
# ------------------------------------------------------------------------------------------------

PAIR_SHAPES = ["chain", "two", "max3", "clip", "where"]
_NUMERIC = [d for d in DT_ORDER if d != "bool"]


def pair_dtypes(shape):
    if shape in ("max3", "clip"):
        return _NUMERIC
    if shape == "where":
        return ["bool"]
    return DT_ORDER


def pair_dtypes2(shape, d1, full=True):
    """dtype of the second sibling: only the `two` shape has one; quick tier: same dtype, f32 and i64."""
    if shape == "two":
        return DT_ORDER if full else [d1] + [x for x in ("f32", "i64") if x != d1]
    return [d1]


def pair_expected(shape, d1, d2, l1, l2):
    """Expected tensors of the two literal operands."""
    if shape == "where":  # Where(cond: B, L1: T, L2: T): no tensor shares T
        return expected_tensor(l1, natural_dtype(l1)), expected_tensor(l2, natural_dtype(l2))
    return expected_tensor(l1, d1), expected_tensor(l2, d2)


def pair_class(l1, l2, e1, e2):
    """Why two literals must not share a tensor (names the cause, used in finding keys)."""
    a = l1 if isinstance(l1, list) else [l1]
    b = l2 if isinstance(l2, list) else [l2]
    if isinstance(l1, list) == isinstance(l2, list) and len(a) == len(b):
        def neg(x):
            return isinstance(x, float) and bool(np.signbit(x))
        if any(x == 0 and y == 0 and neg(x) != neg(y) for x, y in zip(a, b)):
            return "signed-zero-list" if isinstance(l1, list) else "signed-zero"
        if all(x == y for x, y in zip(a, b)) and [type(x) for x in a] != [type(y) for y in b]:
            return "equal-different-type"
    c1, c2 = lit_class(l1), lit_class(l2)
    return c1 if c1 == c2 else f"{c1}/{c2}"
