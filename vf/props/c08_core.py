"""C08 core: value specs -> torch values, ATen-schema binding, tracing a torchlib function the way the
PyTorch exporter does, running the graph, comparing with eager, and minimising failing argument classes.

Value specs (JSON):
  ["T", shape, dtype, pat]        tensor with a deterministic pattern (pat in a|b|c|u|w)
  ["I", shape, dtype, [values]]   tensor with explicit (index) values
  ["S", v]                        python scalar (bool/int/float)
  ["L", [v...]]                   python list of ints/floats/bools
  ["TL", [spec...]]               list of tensors (each a T/I spec or ["N"])
  ["D", dtype]                    torch dtype
  ["STR", s]                      string
  ["N"]                           None
"""
from __future__ import annotations

import os as _os

_os.environ.setdefault("TORCH_CPP_LOG_LEVEL", "ERROR")  # C++ TORCH_WARN lines would pollute the check's output

import math
import re

import numpy as np

_T = {}


def T():
    """Lazy heavy imports, once per process."""
    if _T:
        return _T
    import onnx
    import onnx.shape_inference
    import torch
    from torch.onnx._internal.exporter import _building, _tensors
    from torch.onnx._internal.exporter._core import torch_dtype_to_onnx_dtype  # noqa: F401
    import onnx_ir as ir
    import onnxscript
    from onnxscript._framework_apis import torch_2_5 as api

    _T.update(onnx=onnx, torch=torch, _building=_building, _tensors=_tensors, ir=ir, onnxscript=onnxscript)
    _T["dt"] = {
        "f16": torch.float16, "f32": torch.float32, "f64": torch.float64, "i32": torch.int32,
        "i64": torch.int64, "u8": torch.uint8, "bool": torch.bool, "i8": torch.int8, "i16": torch.int16,
        "bf16": torch.bfloat16,
    }
    _T["dtname"] = {v: k for k, v in _T["dt"].items()}
    _T["t2o"] = torch_dtype_to_onnx_dtype
    reg = {}
    for m in api.get_torchlib_ops():
        if m.is_complex:
            continue
        reg.setdefault(m.qualified_name, m.function)  # the exporter's dispatcher takes the first real one
    _T["reg"] = reg
    torch.set_num_threads(1)
    return _T


# ------------------------------------------------------------------------------------------------
# deterministic values
# ------------------------------------------------------------------------------------------------

_FLOATS = ("f16", "f32", "f64", "bf16")
_INTS = ("i8", "i16", "i32", "i64")


def pattern_values(n, dtype, pat):
    """n python numbers for dtype under pattern pat.

    a: signed ramp with zeros and one large value      (general operand)
    b: non-zero signed cycle                           (divisors / second operands)
    c: small non-negative cycle                        (shift amounts, exponents)
    u: strictly inside (0,1)                           (probabilities, logit/acos domains)
    w: distinct values, no ties                        (sort/argmax/topk/max: tie-breaking is not part of the property)
    v: odd multiples of 1/8 in [-2.125, 1.875], period 17, no zero   (conv / pooling operands: products and short
       sums are exact even in float16, so the accumulation order of a kernel cannot show as a difference; the period
       is coprime to the small widths used, so shifted windows see different values)
    """
    if dtype == "bool":
        cyc = {"a": [True, False, True, True, False], "b": [False, True, True, False, True],
               "c": [True, False], "u": [True, False, False], "w": [False, True],
               "v": [True, False, False, True, True]}[pat]
        return [cyc[i % len(cyc)] for i in range(n)]
    fl = dtype in _FLOATS
    if pat == "a":
        if fl:
            # non-dyadic steps: sums and means are not exactly representable, so a computation carried out in
            # a narrower type than torch's shows on every case rather than on "unlucky" ones
            v = [(i - n // 2) * 0.7 for i in range(n)]
            if n >= 4:
                v[n - 1] = 100.0
            if n >= 6:
                v[1] = -0.3
        else:
            v = [(i - n // 2) * 3 for i in range(n)]
            if n >= 4:
                v[n - 1] = 100
            if dtype == "u8":
                v = [x if x >= 0 else 250 + x for x in v]
        return v
    if pat == "b":
        cyc = [2.5, -3.0, 1.0, 0.5, -1.0, 7.0, -0.75] if fl else ([2, 3, 1, 5, 1, 7, 4] if dtype == "u8" else [2, -3, 1, 5, -1, 7, -4])
        return [cyc[i % len(cyc)] for i in range(n)]
    if pat == "c":
        cyc = [0.0, 1.0, 2.0, 3.0, 0.5] if fl else [0, 1, 2, 3, 1]
        return [cyc[i % len(cyc)] for i in range(n)]
    if pat == "u":
        cyc = [0.25, 0.5, 0.75, 0.125, 0.875] if fl else [1, 0, 1, 1, 0]
        return [cyc[i % len(cyc)] for i in range(n)]
    if pat == "w":
        # a permutation-like sequence without ties: 0, -1, 2, -3, 4 ... scaled
        if fl:
            return [((-1) ** i) * (i + 1) * 0.5 for i in range(n)]
        if dtype == "u8":
            return [(i * 7 + 3) % 251 for i in range(n)]
        return [((-1) ** i) * (i + 1) for i in range(n)]
    if pat == "v":
        if fl:
            return [(((i * 5 + 2) % 17) * 2 - 17) * 0.125 for i in range(n)]
        if dtype == "u8":
            return [(i * 5 + 2) % 17 for i in range(n)]
        return [(i * 5 + 2) % 17 - 8 for i in range(n)]
    raise ValueError(pat)


def make_value(spec):
    """-> torch-side python value."""
    t = T()
    torch = t["torch"]
    k = spec[0]
    if k == "T":
        shape, dtype, pat = spec[1], spec[2], spec[3]
        n = int(np.prod(shape)) if len(shape) else 1
        vals = pattern_values(n, dtype, pat)
        return torch.tensor(vals, dtype=t["dt"][dtype]).reshape(shape)
    if k == "I":
        shape, dtype, vals = spec[1], spec[2], spec[3]
        return torch.tensor(vals, dtype=t["dt"][dtype]).reshape(shape)
    if k == "S":
        return spec[1]
    if k == "L":
        return list(spec[1])
    if k == "TL":
        return [None if s[0] == "N" else make_value(s) for s in spec[1]]
    if k == "D":
        return t["dt"][spec[1]]
    if k == "STR":
        return spec[1]
    if k == "DEV":
        return torch.device(spec[1])
    if k == "N":
        return None
    raise ValueError(spec)


# ------------------------------------------------------------------------------------------------
# schema binding
# ------------------------------------------------------------------------------------------------

def get_overload(qualified):
    """'aten::add.Tensor' -> torch.ops.aten.add.Tensor ; 'aten::relu' -> torch.ops.aten.relu.default"""
    torch = T()["torch"]
    ns, rest = qualified.split("::")
    name, _, ovl = rest.partition(".")
    packet = getattr(getattr(torch.ops, ns), name)
    return getattr(packet, ovl or "default")


class BindError(Exception):
    pass


def bind(schema, given):
    """Bind a {aten argument name: value} assignment through the ATen schema.

    Positional parameters are passed by position up to the last one given (gaps filled with the schema
    default, as an FX graph has them), keyword-only parameters by name.  -> (args, kwargs, names)
    """
    pos = [a for a in schema.arguments if not a.kwarg_only]
    kwo = [a for a in schema.arguments if a.kwarg_only]
    unknown = set(given) - {a.name for a in schema.arguments}
    if unknown:
        raise BindError(f"arguments {sorted(unknown)} not in schema {schema}")
    last = -1
    for i, a in enumerate(pos):
        if a.name in given:
            last = i
    args, names = [], []
    for i in range(last + 1):
        a = pos[i]
        if a.name in given:
            args.append(given[a.name])
        elif a.has_default_value():
            args.append(a.default_value)
        else:
            raise BindError(f"required positional {a.name} missing for {schema}")
        names.append(a.name)
    for a in pos[last + 1:]:
        if not a.has_default_value():
            raise BindError(f"required positional {a.name} missing for {schema}")
    kwargs = {}
    for a in kwo:
        if a.name in given:
            kwargs[a.name] = given[a.name]
        elif not a.has_default_value():
            raise BindError(f"required keyword {a.name} missing for {schema}")
    return args, kwargs, names


# ------------------------------------------------------------------------------------------------
# tracing
# ------------------------------------------------------------------------------------------------

class Refused(Exception):
    """the case is outside what the property quantifies over (reason is counted)"""


def _declared_ok(fn, pos_index, kwname, onnx_dtype):
    """Is onnx_dtype among the types the function declares for this parameter?  (None = unknown)"""
    ir = T()["ir"]
    sig = getattr(fn, "op_signature", None)
    if sig is None:
        return None
    params = list(sig.params)
    p = None
    if kwname is not None:
        p = sig.params_map.get(kwname) if hasattr(sig, "params_map") else None
    elif pos_index < len(params):
        p = params[pos_index]
    if p is None or not hasattr(p, "type_constraint"):
        return None
    allowed = p.type_constraint.allowed_types
    dts = set()
    for ty in allowed:
        try:
            dts.add(ty.dtype)
        except Exception:  # noqa: BLE001
            return None
    if not dts:
        return None
    return onnx_dtype in dts


def to_onnx_args(fn, args, kwargs, check_declared=True):
    """torch-side values -> what the exporter hands to the torchlib function; graph inputs and feeds."""
    t = T()
    torch, ir, _tensors = t["torch"], t["ir"], t["_tensors"]
    opset = t["onnxscript"].opset18
    inputs, feeds = [], {}

    def sym(x, name):
        v = _tensors.SymbolicTensor(opset=opset, name=name, shape=ir.Shape(list(x.shape)),
                                    type=ir.TensorType(t["t2o"](x.dtype)))
        inputs.append(v)
        feeds[name] = x.numpy()
        return v

    def conv(x, name, pos_index=None, kwname=None):
        if x is None:
            return None
        if isinstance(x, torch.Tensor):
            if check_declared:
                ok = _declared_ok(fn, pos_index, kwname, t["t2o"](x.dtype))
                if ok is False:
                    raise Refused("dtype-not-declared")
            return sym(x, name)
        if isinstance(x, (list, tuple)):
            out = []
            for j, e in enumerate(x):
                if isinstance(e, torch.Tensor):
                    out.append(sym(e, f"{name}_{j}"))
                else:
                    out.append(conv(e, f"{name}_{j}"))
            return out
        if isinstance(x, (torch.device, torch.memory_format, torch.layout)):
            return str(x)
        if isinstance(x, torch.dtype):
            return t["t2o"](x)
        return x

    oargs = [conv(a, f"input_{i}", pos_index=i) for i, a in enumerate(args)]
    okw = {}
    for k, v in kwargs.items():
        okw[k] = conv(v, k, kwname=k)
        if k == "dtype" and okw[k] is None:
            okw[k] = -1  # as torch.onnx._internal.exporter._core does
    return oargs, okw, inputs, feeds


def trace(fn, oargs, okw, inputs):
    """Call the torchlib function under the exporter's OpRecorder -> ModelProto (outputs untyped)."""
    t = T()
    ir, onnxscript, _building = t["ir"], t["onnxscript"], t["_building"]
    opset = onnxscript.opset18
    graph = ir.Graph(list(inputs), (), nodes=(), opset_imports={
        "": 18, "pkg.torch.onnx": 1, "pkg.onnxscript.torch_lib.common": 1, "pkg.onnxscript.torch_lib": 1},
        name="main_graph")
    tracer = _building.OpRecorder(opset, {})
    with onnxscript.evaluator.default_as(tracer):
        outs = fn(*oargs, **okw)
    structure = "tensor"
    if isinstance(outs, ir.Value):
        outs = (outs,)
    elif isinstance(outs, (list, tuple)):
        structure = "tuple"
        outs = tuple(outs)
    else:
        raise Refused(f"returns-python-{type(outs).__name__}")
    for o in outs:
        if not isinstance(o, ir.Value):
            raise Refused(f"returns-python-{type(o).__name__}")
    # a graph input returned as-is needs an Identity to be a legal graph output
    final = []
    ins = {id(v) for v in inputs}
    seen = set()
    nodes = list(tracer.nodes)
    for o in outs:
        if id(o) in ins or id(o) in seen:
            ident = ir.Node("", "Identity", [o], num_outputs=1)
            nodes.append(ident)
            o = ident.outputs[0]
        seen.add(id(o))
        final.append(o)
    for i, o in enumerate(final):
        if not o.name:
            o.name = f"output_{i}"
    graph.outputs.extend(final)
    graph.extend(nodes)
    model = ir.Model(graph, ir_version=10, producer_name="c08")
    for ident, f in tracer.functions.items():
        if ident in model.functions:
            continue
        if not isinstance(f, ir.Function):
            f = ir.serde.deserialize_function(f.to_function_proto())
        model.functions[ident] = f
    return ir.to_proto(model), structure, len(final)


def type_and_check(mp, exp=None):
    """Infer the output types (they are left open so that dtype and shape are *measured*, not declared from
    torch's answer), then onnx.checker full check.  The checker insists on a shape field for graph outputs;
    where inference yields none, the checked copy gets fully symbolic dims (the executed model does not)."""
    onnx = T()["onnx"]
    inferred = onnx.shape_inference.infer_shapes(mp, strict_mode=True, data_prop=True)
    missing = [o.name for o in inferred.graph.output if not o.type.HasField("tensor_type")
               and not o.type.HasField("sequence_type") and not o.type.HasField("optional_type")]
    if missing:
        raise ValueError(f"output type cannot be inferred: {missing}")
    chk = inferred
    if any(o.type.HasField("tensor_type") and not o.type.tensor_type.HasField("shape") for o in inferred.graph.output):
        chk = onnx.ModelProto()
        chk.CopyFrom(inferred)
        for i, o in enumerate(chk.graph.output):
            if o.type.HasField("tensor_type") and not o.type.tensor_type.HasField("shape"):
                rank = 1
                if exp is not None and i < len(exp) and hasattr(exp[i], "ndim"):
                    rank = exp[i].ndim
                o.type.tensor_type.shape.SetInParent()
                for j in range(rank):
                    o.type.tensor_type.shape.dim.add().dim_param = f"o{i}_d{j}"
    onnx.checker.check_model(chk, full_check=True)
    return inferred


# ------------------------------------------------------------------------------------------------
# run + compare
# ------------------------------------------------------------------------------------------------

def run_model(mp, feeds):
    """-> (outs, engine) ; raises RunFail(kind, msg).  ORT first; onnx.reference when ORT has no kernel."""
    from vf import runeq
    b = mp.SerializeToString()
    try:
        return runeq.run_ort(b, feeds), "ort"
    except runeq.RunError as e:
        ort_err = e
    try:
        return runeq.run_ref(mp, feeds), "ref"
    except runeq.RunError as e:
        raise RunFail(ort_err, e) from None
    except Exception as e:  # noqa: BLE001  reference evaluator internal error
        raise RunFail(ort_err, e) from None


class RunFail(Exception):
    def __init__(self, ort_err, ref_err):
        super().__init__(f"ort: {ort_err} | ref: {ref_err}")
        self.ort_err = ort_err
        self.ref_err = ref_err

    def no_kernel(self):
        s = str(self.ort_err)
        return "NOT_IMPLEMENTED" in s or "Could not find an implementation" in s


def expected_outputs(res):
    """torch result -> (structure, list of numpy arrays / lists)"""
    torch = T()["torch"]

    def npy(x):
        if isinstance(x, torch.Tensor):
            x = x.detach()
            if x.dtype == torch.bfloat16:
                x = x.float()
            return x.resolve_conj().resolve_neg().cpu().numpy()
        return np.asarray(x)
    if isinstance(res, torch.Tensor):
        return "tensor", [npy(res)]
    if isinstance(res, (list, tuple)):
        if isinstance(res, list):
            return "list", [[npy(x) for x in res]]
        return "tuple", [npy(x) if not isinstance(x, (list, tuple)) else [npy(y) for y in x] for x in res]
    return "scalar", [npy(res)]


def classify_diff(d):
    if d is None:
        return None
    d = d.split(" [reference evaluator;")[0]
    if "dtype" in d:
        return "dtype"
    if "shape" in d:
        return "shape"
    if "output count" in d or "sequence" in d:
        return "structure"
    return "value"


# ------------------------------------------------------------------------------------------------
# argument-class minimisation
# ------------------------------------------------------------------------------------------------

from vf.props.c08_min import abstractions, minimise_classes  # noqa: E402,F401


def fmt_shape(s):
    return "(" + ",".join(str(d) for d in s) + ")"


def is_finite_number(x):
    return isinstance(x, (int, float)) and not isinstance(x, bool) and math.isfinite(x)
