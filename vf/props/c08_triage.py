"""C08: turn the replay files of new violation keys into proposed known_findings.jsonl lines.

    cd /verif && /venv/bin/python -m vf.props.c08_triage [replays dir ...] > proposed.jsonl

Each line: {"property":"C08","key":...,"status":"known","what": "<cause>: <call> -> <observation>; repro: <command>"}.
The cause text comes from CAUSES (first regex that matches the key), written after triaging each group against
torch eager (see the builder's report); keys that match no entry are emitted with cause "UNTRIAGED".
"""
from __future__ import annotations

import glob
import json
import os
import re
import sys

_UNARY_PRIMS = "abs|acos|acosh|asin|asinh|atan|atanh|ceil|cos|cosh|erf|exp|floor|log|neg|round|sin|sinh|sqrt|tan|tanh"

CAUSES = [
    # --- pad / pool / conv extension (c08_dom3, c08_e2e_nn) ---
    (r"aten::conv3d\|bias~off", "aten_conv3d builds the zero bias for bias=None with shape [Cout, 2] (copied from the complex overload) instead of [Cout]: every conv3d call without bias yields a Conv that ORT and onnx.reference reject (when a one-element stride/padding/dilation list is also given the graph already fails shape inference)"),
    (r"aten::(avg_pool[23]d)\|.*divisor_override~given|e2e:nn:avg_pool2d\|divisor_override~given", "avg_pool2d/3d ignore divisor_override (TODO in the source): the window sum is divided by the window size instead of the given divisor"),
    (r"aten::(avg|max)_pool[23]d(_with_indices)?\|(kernel_size|stride|dilation)~len=1", "one-element kernel_size/stride/dilation list for a 2-d/3-d pooling op (torch broadcasts it to every spatial axis; only int and one-element *padding* are expanded by _adjust_attributes_of_*_pool): MaxPool/AveragePool attribute with the wrong length, model invalid"),
    (r"aten::conv[23]d\|(stride|padding|dilation)~len=1", "one-element stride/padding/dilation list for conv2d/conv3d (torch broadcasts it; aten_convolution expands it, aten_conv2d/3d only expand a bare int): Conv attribute with the wrong length, model invalid"),
    (r"aten::convolution\|.*output_padding~len=1", "aten::convolution(transposed=True) with a one-element output_padding on a 2-d convolution: stride/padding/dilation are expanded to the spatial rank, output_padding is passed through: ConvTranspose attribute with the wrong length, model invalid"),
    (r"aten::replication_pad1d\|shape=\(2,1\),padding~list:hasneg", "replication_pad with a negative pad that crops the whole axis before the other side replicates (W=1, padding=[-1,1] or [1,-2]): torch clamps the source index and returns the single column, ONNX Pad(mode=edge) has nothing left to replicate and ORT / onnx.reference refuse the node"),
    # --- declared type wider than the emitted ONNX op accepts (prims) ---
    (rf"\|invalid-graph\|prims::({_UNARY_PRIMS})\|dtype~nonfloat", "prims unary declares TTensor but emits a float-only ONNX op; torch.ops.prims accepts int/bool"),
    (r"\|invalid-graph\|prims::(add|sub|mul|div|ge|gt|le|lt|sum|pow)\|.*(dtype=bool|py:bool)", "prims binary/sum on bool: declared TTensor, emitted ONNX op has no bool overload"),
    (r"\|prims::remainder\|.*py", "prims::remainder (aten_remainder) with a python scalar divisor: constant typed INT64/BOOL against a float tensor"),
    (r"\|prims::pow\|", "prims::pow: python/bool exponent or 0-d integer base"),
    (r"\|prims::(sum|var)\|(.*,)?(shape~0d|size@dim=0d)", "reduction over axis 0/-1 of a 0-d tensor (torch accepts) emits ReduceX with axes on rank 0"),
    (r"\|prims::var\|", "prims::var: correction=None / dims=[] not handled"),
    # --- alpha on python scalar ---
    (r"aten::(add|sub|subtract)\.Tensor\|.*other~py", "alpha != 1 with a python-scalar `other` in the Tensor slot: CastLike(alpha, other) types both constants INT64/BOOL -> type-inconsistent Mul/Add/Sub"),
    (r"aten::floor_divide\|.*py:bool", "floor_divide(int tensor, python bool): bool constant reaches Greater/Div"),
    # --- numerics ---
    (r"aten::(special_)?erfcx\|", "erfcx computed as exp(x^2)*erfc(x): overflows to NaN for large x (torch 0.0056)"),
    (r"aten::elu\|", "elu ignores input_scale on the positive branch / scales it (x*input_scale instead of x*scale)"),
    (r"aten::logaddexp2?\|", "logaddexp(2) computed naively as log(exp(a)+exp(b)): overflows for large operands"),
    (r"aten::logcumsumexp\|", "logcumsumexp subtracts the maximum over the whole axis: loses precision / underflows for entries far below it"),
    (r"aten::atan2\|", "atan2(+0, x<0) returns -pi instead of +pi"),
    (r"aten::isclose\|", "isclose on integer tensors: rtol/atol are cast to the integer dtype (0.5 -> 0)"),
    (r"aten::(signbit)\|", "signbit of a 0-d tensor returns shape (1,)"),
    # --- dtype argument handled after the computation ---
    (r"aten::(softmax\.int|log_softmax\.int|special_softmax|special_log_softmax|mean\.dim|sum\.dim_IntList|sum|mean|prod|prod\.dim_int|cumsum|linalg_vector_norm)\|.*dtype_arg", "dtype= argument: torch casts the input first, torchlib computes in the input dtype and casts the result (precision for float->f64; truncation order for float->int; integer mean)"),
    (r"aten::mean(\.dim)?\|.*dtype~nonfloat", "mean of an integer tensor with dtype=float: computed in integers / result dtype stays integer"),
    (r"aten::log_softmax\.int\|dtype_arg=None", "log_softmax.int(x, dim, None): positional dtype=None reaches Cast(to=None)"),
    # --- empty / 0-d / dim lists in reductions ---
    (r"aten::(all|any)\.dims\|(.*,)?size@dim=0d", "all/any.dims on a 0-d tensor with dim=[0]/[-1]: Squeeze axis out of range"),
    (r"aten::(all|any)(\.dims?)?\|.*(numel=0|shape=\(0\))|aten::any(\.dims?)?\|size@dim", "any over an empty tensor/axis returns True (ReduceMax/ReduceMin identity) where torch returns False"),
    (r"aten::(all|any)\.dims\|.*len=0", "all/any.dims with dim=[]: torch reduces nothing (identity), torchlib reduces everything"),
    (r"aten::(all|any)\.dims\|shape~0d", "all/any.dims on a 0-d tensor with dim=[0]/[-1]: Squeeze axis out of range"),
    (r"aten::mean\.dim\|.*dim~off", "mean.dim(x, None): dim=None produces a Reshape of a missing value"),
    (r"aten::mean\.dim\|(shape(~numel=0|=\(0\))|size@dim=has0)", "mean over an empty axis: ORT/reference give 0 where torch gives NaN"),
    (r"aten::(amax|amin)\|dim~off", "amax/amin with dim omitted (schema default []): torchlib's signature has no default for dim -> export fails"),
    (r"aten::(amax|amin|prod\.dim_int|topk|max\.dim|min\.dim|cumsum|logsumexp|argmax|argmin|sort|glu)\|.*0d", "dim=0/-1 on a 0-d tensor (torch accepts): ONNX op emitted with an axis on rank 0"),
    (r"aten::(argmax|argmin)\|.*dim~off,keepdim~given", "argmax/argmin(dim=None, keepdim=True): result shape (1,) instead of all-ones rank"),
    (r"aten::linalg_vector_norm\|.*keepdim", "linalg_vector_norm(dim=None, keepdim=True): keepdim ignored"),
    # --- view ---
    (r"aten::squeeze\.dim\|", "squeeze.dim on an axis whose extent is not 1: torch returns the input unchanged, torchlib emits Squeeze (invalid)"),
    (r"(aten::(reshape|view_copy|view|_unsafe_view)|prims::reshape)\|", "reshape/view with a 0 in the target size (empty tensors): ONNX Reshape reads 0 as 'copy input dim' (allowzero=0)"),
    (r"aten::broadcast_to\|", "broadcast_to with -1 entries (keep dim): passed to Expand unchanged"),
    (r"prims::broadcast_in_dim\|", "broadcast_in_dim with an empty operand: Reshape with 0 dims"),
    (r"aten::flatten\.using_ints\|", "flatten of a tensor with a 0-extent dim: Reshape [..,-1,..] cannot infer -1 / wrong order"),
    (r"aten::(mT|mH)\|", "mT/mH on a 0-d tensor (deprecated in torch, still accepted)"),
    (r"aten::diagonal(_copy)?\|", "diagonal on uint8: ReduceSum has no uint8 kernel/type"),
    # --- index family ---
    (r"aten::chunk\|", "chunk with more chunks than elements along dim: torch returns ceil(n/size) chunks, torchlib returns `chunks` pieces"),
    (r"aten::(split\.Tensor|unsafe_split\.Tensor|split|split_with_sizes)\|", "split on an empty axis / split_size=0: sequence length differs; split_size 0 crashes onnx shape inference (division by zero)"),
    (r"aten::(cat|concat|concatenate)\|", "cat of only empty 1-D tensors: torchlib asserts 'received all None or empty tensors'"),
    (r"aten::scatter_reduce\.two\|.*reduce=mean", "scatter_reduce(mean): ONNX ScatterElements has no mean reduction; result differs"),
    (r"aten::scatter(_reduce\.two|_add|\.src|\.value)\|.*(0d|size@dim=0d)", "scatter* on a 0-d tensor"),
    (r"aten::scatter(_reduce\.two|_add|\.src)\|.*src_shape=larger", "scatter* with src larger than index (torch uses the index-shaped corner): ScatterElements requires equal shapes"),
    (r"aten::(constant_pad_nd|pad)\|.*0d", "pad of a 0-d tensor with an empty pad list"),
    (r"aten::roll\|", "roll: negative dims / empty tensor / dims omitted on empty input"),
    (r"aten::narrow\|", "narrow with negative start"),
    (r"aten::topk\|", "topk on 0-d"),
    (r"aten::where\.", "where with scalar operand"),
    # --- creation ---
    (r"aten::arange", "arange with float bounds/step and an integer dtype (or no dtype with mixed int/float bounds): Range inputs cast to the target dtype before the length is computed"),
    (r"aten::hamming_window\|", "hamming_window: ONNX HammingWindow uses alpha=25/46, torch 0.54; periodic flag; length 0"),
    (r"aten::(hann|blackman)_window\|", "hann/blackman_window of length 1 gives 0 (torch 1); length 0 invalid"),
    # --- matmul ---
    (r"aten::addmm\|", "addmm on integer tensors with fractional alpha/beta: constants truncated"),
    (r"aten::addmv\|", "addmv with an empty matrix: result shape (0,) not broadcast with self"),
    (r"aten::linear\|", "linear with 1-D weight and bias: explicit NotImplementedError"),
    # --- norm ---
    (r"aten::group_norm\|.*numel=0|aten::native_group_norm\|.*numel=0", "group_norm on an empty batch: Reshape with 0"),
    (r"aten::(native_)?layer_norm\|", "layer_norm over an empty normalized_shape / empty input: mean/rstd NaN masks differ"),
    (r"\|shape\|aten::.*batch_norm", "batch norm in evaluation mode: torch (CPU) returns empty save_mean/save_invstd, torchlib returns the running statistics"),
    (r"batch_norm.*\|.*(dtype=f16|dtype=f64|any)$|invalid-graph\|aten::.*batch_norm", "batch norm on float16/float64: eps/one constants are FLOAT -> type-inconsistent Add/Div"),
    (r"\|value\|aten::.*batch_norm", "batch norm with training=True: torchlib forces training=False (TODO in the source) and normalises with the running statistics"),
    (r"aten::instance_norm\|", "instance_norm value differences"),
    # --- float64 precision ---
    (r"aten::(leaky_relu|celu|selu|elu|hardsigmoid|hardswish|softplus|hardtanh)\|.*dtype=f64", "double input through an ONNX op whose attributes are float32 (alpha etc.): float32-level error in a float64 result"),
    (r"aten::(deg2rad|rad2deg|log2|log10|sinc|special_sinc|logit|exp2|mish|log_sigmoid|linalg_vector_norm)\|.*dtype=f64", "python float constants are materialised as FLOAT and CastLike'd to DOUBLE: float32-level error in a float64 result"),
    # --- misc ---
    (r"\|dtype\|aten::(all|any)(\.dims?)?\|dtype=u8", "all/any on uint8 returns uint8 in torch, bool in torchlib"),
    (r"\|dtype\|prims::sum\|", "prims::sum of int32 stays int32 (torch accumulates and returns int64)"),
    (r"prims::(neg|sum)\|dtype=u8", "prims op on uint8: emitted ONNX op has no uint8 overload"),
    (r"aten::repeat_interleave", "repeat_interleave on an empty tensor / repeats=0"),
    (r"aten::nonzero\|", "nonzero of a 0-d tensor: shape (0,1) instead of (0,0)/(1,0)"),
    (r"aten::flip\|", "flip of a 0-d tensor with dims=[0]"),
    (r"aten::masked_scatter\|", "masked_scatter on 0-d"),
    (r"aten::bitwise_(left|right)_shift", "bitwise shift Scalar_Tensor / int32: python scalar typed INT64 against int32 tensor"),
    (r"aten::pow\.", "pow: uint8 exponent / integer corner cases"),
    (r"aten::(sum|prod|cumsum|amax|amin|max|min|argmax|argmin|logsumexp|glu|sort|topk)", "reduction corner case (0-d / empty / dtype)"),
    # --- e2e ---
    (r"\|e2e:g=atan2\|", "exported atan2(+0, x<0) = -pi (torch +pi)"),
    (r"\|e2e:g=stack\|", "exported stack of mixed dtypes: no promotion, Concat of FLOAT and INT64 (type-inconsistent model)"),
    (r"\|e2e:amax_nodim\|", "torch.amax(x) without dim fails to export: aten_amax has no default for dim"),
    (r"\|e2e:squeeze_dim0", "x.squeeze(0) on an axis of extent 2 exports an invalid Squeeze"),
    (r"\|e2e:.*(div_floor|floor_divide)", "exported floor division of inf: torch NaN, ONNX inf"),
    (r"\|e2e:.*pow", "exported pow on a bool tensor: Pow has no bool overload"),
]


def _render(first_case):
    def r(v):
        k = v[0]
        if k == "T":
            return f"{v[2]}{tuple(v[1])}"
        if k == "I":
            return f"{v[2]}{tuple(v[1])}={v[3]}"
        if k in ("S", "L", "STR", "D", "DEV"):
            return repr(v[1])
        if k == "N":
            return "None"
        if k == "TL":
            return "[" + ", ".join(r(x) for x in v[1]) + "]"
        return str(v)
    if "m" in first_case and "a" in first_case:
        return f"x:{first_case['dt']}{tuple(first_case['x'])}, " + ", ".join(f"{k}={v}" for k, v in first_case["a"].items())
    if "g" in first_case and "f" in first_case and "xdt" in first_case:
        return f"g={first_case['g']}(f={first_case['f']}(x:{first_case['xdt']}), y:{first_case['ydt']})"
    return ", ".join(f"{k}={r(v)}" for k, v in first_case.items())


def replays_in_log(path):
    """replay files named by the VIOLATION lines of a saved ./check output"""
    out = []
    for line in open(path):
        m = re.match(r"VIOLATION property=C08 replay=(\S+) key=", line)
        if m:
            out.append(m.group(1))
    return out


def propose(dirs):
    out = []
    for d in dirs:
        for p in ([d] if d.endswith(".json") else sorted(glob.glob(os.path.join(d, "*.json")))):
            rec = json.load(open(p))
            key = rec["key"]
            det = rec.get("violation", {}).get("detail", {})
            fc = det.get("first_case") or {}
            cause = "UNTRIAGED"
            for rx, text in CAUSES:
                if re.search(rx, key):
                    cause = text
                    break
            op = key.split("|")[2]
            what = str(det.get("what") or "").split(" [reference evaluator")[0].replace("\n", " ")[:160]
            if op.startswith("e2e:nn:"):
                spec = {k: fc[k] for k in ("x", "dt", "a") if k in fc}
                repro = f"python -m vf.props.c08_repro --e2e-nn {op.split(':')[-1]} '{json.dumps(spec, separators=(',', ':'))}'"
            elif op.startswith("e2e:"):
                repro = f"python -m vf.props.c08_repro --e2e {fc.get('f')} {fc.get('g')} {fc.get('xdt')} {fc.get('ydt')}"
            else:
                repro = f"python -m vf.props.c08_repro '{op}' '{json.dumps(fc, separators=(',', ':'))}'"
            out.append({"property": "C08", "key": key, "status": "known",
                        "what": f"{cause}. e.g. {op}({_render(fc)}) -> {what} [{det.get('n', '?')} case(s)]; repro: {repro}"})
    return out


if __name__ == "__main__":
    if len(sys.argv) > 2 and sys.argv[1] == "--from-log":
        sys.argv[1:] = sorted({p for log in sys.argv[2:] for p in replays_in_log(log)})
    dirs = sys.argv[1:] or [os.path.join(os.path.dirname(os.path.dirname(os.path.dirname(os.path.abspath(__file__)))), "replays", "C08")]
    seen = set()
    for e in propose(dirs):
        if e["key"] in seen:
            continue
        seen.add(e["key"])
        print(json.dumps(e))
