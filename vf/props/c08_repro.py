"""Reproduce one C08 case outside the framework:

    cd /verif && /venv/bin/python -m vf.props.c08_repro 'aten::squeeze.dim' '{"self":["T",[2,3],"f32","a"],"dim":["S",0]}'

Value specs as in c08_core (["T", shape, dtype, pattern] tensor, ["S", v] python scalar, ["L", [..]] list,
["D", dtype], ["N"] None, ["I", shape, dtype, values] index tensor, ["TL", [...]] tensor list).
Prints torch eager's answer, the traced ONNX graph and what ORT / onnx.reference compute for it.

    /venv/bin/python -m vf.props.c08_repro --e2e relu atan2 f32 f32     # module g(f(x), y) through torch.onnx.export
    /venv/bin/python -m vf.props.c08_repro --e2e-nn avg_pool2d '{"x":[1,2,5,6],"dt":"f32","a":{"kernel_size":2,"divisor_override":5}}'
                                                                        # nn.functional module (c08_e2e_nn) through torch.onnx.export
"""
from __future__ import annotations

import json
import sys


def main(argv):
    from vf import runeq
    from vf.props import c08_core as K
    t = K.T()
    torch = t["torch"]
    if argv and argv[0] == "--e2e":
        from vf.props import c08_e2e
        f, g, xdt, ydt = (argv[1:] + ["-", "f32", "f32"])[:4]
        x = K.make_value(["T", [2, 3], xdt, "a"])
        args = (x,) if g == "-" else (x, K.make_value(["T", [2, 3], ydt, "b"]))
        m = c08_e2e._module(torch, f, g)
        print("eager :", m(*args))
        print("result:", c08_e2e.run_module(m, args))
        return 0
    if argv and argv[0] == "--e2e-nn":
        from vf.props import c08_e2e, c08_e2e_nn
        cs = json.loads(argv[2])
        cs["m"] = argv[1]
        m, args = c08_e2e_nn.build(torch, cs)
        print("eager :", m(*args))
        print("result:", c08_e2e.run_module(m, args))
        return 0
    qual, g = argv[0], json.loads(argv[1])
    ov = K.get_overload(qual)
    vals = {k: K.make_value(v) for k, v in g.items()}
    args, kwargs, names = K.bind(ov._schema, vals)
    print("call  :", qual, [a if not isinstance(a, torch.Tensor) else f"tensor{tuple(a.shape)}:{a.dtype}" for a in args], kwargs)
    expected = ov(*args, **kwargs)
    print("torch :", expected)
    fn = t["reg"][qual]
    print("torchlib function:", getattr(fn, "name", fn))
    oargs, okw, inputs, feeds = K.to_onnx_args(fn, args, kwargs, check_declared=False)
    try:
        mp, _, _ = K.trace(fn, oargs, okw, inputs)
    except Exception as e:  # noqa: BLE001
        root = e
        while root.__cause__ is not None:
            root = root.__cause__
        print("TRACE FAILS:", type(root).__name__, root)
        return 1
    print(t["onnx"].printer.to_text(mp)[:4000])
    est, exp = K.expected_outputs(expected)
    try:
        mp2 = K.type_and_check(mp, exp)
    except Exception as e:  # noqa: BLE001
        print("INVALID GRAPH:", type(e).__name__, str(e)[:600])
        return 1
    for name, run in (("ort", lambda: runeq.run_ort(mp2.SerializeToString(), feeds)), ("onnx.reference", lambda: runeq.run_ref(mp2, feeds))):
        try:
            outs = run()
            got = [outs[0]] if (est == "list" and len(outs) == 1 and isinstance(outs[0], list)) else (
                [list(outs)] if est == "list" else list(outs))
            print(f"{name:14s}:", outs, "| compare:", runeq.compare(got, exp))
        except Exception as e:  # noqa: BLE001
            print(f"{name:14s}: FAILS", str(e)[:400])
    return 0


if __name__ == "__main__":
    sys.exit(main(sys.argv[1:]))
